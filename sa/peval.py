"""Partial evaluation of the code generator (DESIGN.md 3.3).

`generate_main_loop_code` and the helpers it calls (`embed_code`, `embed_expression`, `replace_all`) are
*interpreted from their own source* (IR = Python ast, both ports) over an abstract domain:

    SStr      symbolic string: a sequence of constant pieces and holes
    Hole      an opaque user-supplied fragment, named after the query_context attribute it flows from
    int/bool/None/list   concrete

Only a whitelist of pure operations is interpreted; anything else raises Undecided.  Nothing of the
repository is executed: the interpreter below walks the AST of the generator.
"""
import ast

from .core import Undecided
from .model import NOCONST, const_value


class Hole(object):
    __slots__ = ('name',)

    def __init__(self, name):
        self.name = name

    def __repr__(self):
        return '<{}>'.format(self.name)

    def __eq__(self, other):
        return isinstance(other, Hole) and other.name == self.name

    def __hash__(self):
        return hash(('hole', self.name))


class SStr(object):
    """Symbolic string: tuple of str | Hole parts (adjacent strs merged, empty strs dropped)."""
    __slots__ = ('parts',)

    def __init__(self, parts=()):
        out = []
        for p in parts:
            if isinstance(p, SStr):
                seq = p.parts
            else:
                seq = (p,)
            for q in seq:
                if isinstance(q, str):
                    if not q:
                        continue
                    if out and isinstance(out[-1], str):
                        out[-1] = out[-1] + q
                    else:
                        out.append(q)
                else:
                    out.append(q)
        self.parts = tuple(out)

    def __repr__(self):
        return 'SStr({})'.format(''.join(p if isinstance(p, str) else '<{}>'.format(p.name) for p in self.parts))

    def is_const(self):
        return all(isinstance(p, str) for p in self.parts)

    def const(self):
        if not self.is_const():
            raise Undecided('constant string expected, got {}'.format(self))
        return ''.join(self.parts)

    def __eq__(self, other):
        if isinstance(other, str):
            other = SStr([other])
        return isinstance(other, SStr) and self.parts == other.parts

    def __hash__(self):
        return hash(self.parts)

    def __add__(self, other):
        return SStr([self, to_sstr(other)])

    def holes(self):
        return [p for p in self.parts if isinstance(p, Hole)]

    # -- operations (const needles only)
    def count(self, needle):
        needle = to_sstr(needle).const()
        return sum(p.count(needle) for p in self.parts if isinstance(p, str))

    def find(self, needle):
        """Index of a constant needle.  Holes are assumed not to contain generator placeholders (trusted base)."""
        needle = to_sstr(needle).const()
        off = 0
        hole_before = False
        for p in self.parts:
            if isinstance(p, Hole):
                hole_before = True
                continue
            i = p.find(needle)
            if i != -1:
                if hole_before:
                    raise Undecided('position after an opaque hole is unknown')
                return off + i
            off += len(p)
        return -1

    def strip(self):
        parts = list(self.parts)
        if parts and isinstance(parts[0], str):
            parts[0] = parts[0].lstrip()
        if parts and isinstance(parts[-1], str):
            parts[-1] = parts[-1].rstrip()
        return SStr(parts)

    def replace(self, old, new):
        old = to_sstr(old).const()
        new = to_sstr(new)
        out = []
        for p in self.parts:
            if isinstance(p, str):
                segs = p.split(old)
                for i, s in enumerate(segs):
                    if i:
                        out.append(new)
                    out.append(s)
            else:
                out.append(p)
        return SStr(out)

    def split(self, sep):
        sep = to_sstr(sep).const()
        res = [[]]
        for p in self.parts:
            if isinstance(p, str):
                segs = p.split(sep)
                res[-1].append(segs[0])
                for s in segs[1:]:
                    res.append([s])
            else:
                res[-1].append(p)
        return [SStr(x) for x in res]

    def prefix(self, n):
        """self[:n] (only inside the leading constant part)."""
        if n == 0:
            return SStr([])
        if self.parts and isinstance(self.parts[0], str) and n <= len(self.parts[0]):
            return SStr([self.parts[0][:n]])
        raise Undecided('slice crosses an opaque hole')

    def startswith(self, s):
        s = to_sstr(s).const()
        if self.parts and isinstance(self.parts[0], str) and len(self.parts[0]) >= len(s):
            return self.parts[0].startswith(s)
        if not self.parts:
            return s == ''
        raise Undecided('startswith on an opaque prefix')

    def render(self, hole_fmt):
        return ''.join(p if isinstance(p, str) else hole_fmt(p.name) for p in self.parts)


def to_sstr(v):
    if isinstance(v, SStr):
        return v
    if isinstance(v, str):
        return SStr([v])
    if isinstance(v, Hole):
        return SStr([v])
    raise Undecided('string expected, got {!r}'.format(v))


class ContextObj(object):
    """The query_context parameter: attribute -> Hole string or None, according to the configuration."""

    def __init__(self, present):
        self.present = present  # dict attr -> bool
        self.read = []

    def get(self, attr):
        self.read.append(attr)
        if attr not in self.present:
            raise Undecided('generator reads query_context.{} which is not in the configuration space'.format(attr))
        return SStr([Hole(attr)]) if self.present[attr] else None


class _Return(Exception):
    def __init__(self, value):
        self.value = value


class _Break(Exception):
    pass


class _Continue(Exception):
    pass


class AssertFailed(Exception):
    pass


class Interp(object):
    def __init__(self, port, modname, max_steps=200000):
        self.port = port
        self.modname = modname
        self.consts = port.module_consts(modname)
        self.steps = 0
        self.max_steps = max_steps

    def call_function(self, name, args):
        fd = self.port.func(self.modname, name)
        params = [a.arg for a in fd.args.args]
        if len(args) > len(params):
            raise Undecided('too many arguments for {}'.format(name), fd)
        env = {}
        defaults = fd.args.defaults
        for i, p in enumerate(params):
            if i < len(args):
                env[p] = args[i]
            else:
                di = i - (len(params) - len(defaults))
                if di < 0:
                    raise Undecided('missing argument {} for {}'.format(p, name), fd)
                env[p] = self.expr(defaults[di], {})
        try:
            self.block(fd.body, env)
        except _Return as r:
            return r.value
        return None

    # ---- statements
    def block(self, stmts, env):
        for st in stmts:
            self.stmt(st, env)

    def tick(self, node):
        self.steps += 1
        if self.steps > self.max_steps:
            raise Undecided('partial evaluation did not terminate within the step bound', node)

    def stmt(self, st, env):
        self.tick(st)
        if isinstance(st, ast.Assign):
            v = self.expr(st.value, env)
            for t in st.targets:
                self.assign(t, v, env)
        elif isinstance(st, ast.AugAssign):
            cur = self.expr(ast.copy_location(_as_load(st.target), st.target), env)
            v = self.binop(st.op, cur, self.expr(st.value, env), st)
            self.assign(st.target, v, env)
        elif isinstance(st, ast.Expr):
            self.expr(st.value, env)
        elif isinstance(st, ast.Return):
            raise _Return(self.expr(st.value, env) if st.value is not None else None)
        elif isinstance(st, ast.If):
            if self.truth(self.expr(st.test, env), st.test):
                self.block(st.body, env)
            else:
                self.block(st.orelse, env)
        elif isinstance(st, ast.For):
            it = self.expr(st.iter, env)
            if not isinstance(it, (list, range)):
                raise Undecided('loop over non-list in generator', st)
            for v in list(it):
                self.assign(st.target, v, env)
                try:
                    self.block(st.body, env)
                except _Break:
                    break
                except _Continue:
                    continue
        elif isinstance(st, ast.While):
            while self.truth(self.expr(st.test, env), st.test):
                self.tick(st)
                try:
                    self.block(st.body, env)
                except _Break:
                    break
                except _Continue:
                    continue
        elif isinstance(st, ast.Break):
            raise _Break()
        elif isinstance(st, ast.Continue):
            raise _Continue()
        elif isinstance(st, ast.Assert):
            v = self.expr(st.test, env)
            if not self.truth(v, st.test):
                raise AssertFailed('generator assertion fails during composition: `{}` at line {}'.format(ast.unparse(st.test), st.lineno))
        elif isinstance(st, ast.Pass):
            pass
        elif isinstance(st, (ast.FunctionDef,)):
            env[st.name] = ('closure', st, env)
        else:
            raise Undecided('statement kind {} is outside the partial evaluator whitelist'.format(type(st).__name__), st)

    def assign(self, target, v, env):
        if isinstance(target, ast.Name):
            env[target.id] = v
        elif isinstance(target, (ast.Tuple, ast.List)):
            if not isinstance(v, (list, tuple)) or len(v) != len(target.elts):
                raise Undecided('destructuring mismatch', target)
            for t, x in zip(target.elts, v):
                self.assign(t, x, env)
        elif isinstance(target, ast.Subscript) and isinstance(target.slice, ast.Slice):
            base = self.expr(target.value, env)
            lo = self.expr(target.slice.lower, env) if target.slice.lower is not None else None
            hi = self.expr(target.slice.upper, env) if target.slice.upper is not None else None
            if not isinstance(base, list) or not isinstance(v, list) or target.slice.step is not None or not all(x is None or isinstance(x, int) for x in (lo, hi)):
                raise Undecided('slice store outside whitelist', target)
            base[lo:hi] = v
        elif isinstance(target, ast.Subscript):
            base = self.expr(target.value, env)
            idx = self.expr(target.slice, env)
            if not isinstance(base, list) or not isinstance(idx, int):
                raise Undecided('subscript store on non-list', target)
            base[idx] = v
        else:
            raise Undecided('assignment target outside whitelist', target)

    def truth(self, v, node):
        if isinstance(v, bool) or v is None or isinstance(v, int):
            return bool(v)
        if isinstance(v, SStr):
            if v.is_const():
                return bool(v.const())
            return True
        if isinstance(v, list):
            return bool(v)
        raise Undecided('truth value of {!r} unknown'.format(v), node)

    # ---- expressions
    def expr(self, e, env):
        self.tick(e)
        if isinstance(e, ast.Constant):
            if isinstance(e.value, str):
                return SStr([e.value])
            return e.value
        if isinstance(e, ast.JoinedStr):
            parts = []
            for v in e.values:
                if isinstance(v, ast.Constant):
                    parts.append(str(v.value))
                else:
                    x = self.expr(v.value, env)
                    parts.append(to_sstr(x) if not isinstance(x, int) else str(x))
            return SStr(parts)
        if isinstance(e, ast.Name):
            if e.id in env:
                return env[e.id]
            if e.id in self.consts:
                v = self.consts[e.id]
                return SStr([v]) if isinstance(v, str) else v
            if e.id in ('undefined',):
                return None
            if e.id in ('True', 'False'):
                return e.id == 'True'
            if self.port.func(self.modname, e.id, required=False) is not None:
                return ('function', e.id)
            raise Undecided('unbound name {} in generator'.format(e.id), e)
        if isinstance(e, ast.Attribute):
            base = self.expr(e.value, env)
            if isinstance(base, ContextObj):
                return base.get(e.attr)
            raise Undecided('attribute {} outside whitelist'.format(e.attr), e)
        if isinstance(e, ast.Compare):
            left = self.expr(e.left, env)
            res = True
            for op, c in zip(e.ops, e.comparators):
                right = self.expr(c, env)
                res = res and self.compare(op, left, right, e)
                left = right
            return res
        if isinstance(e, ast.BoolOp):
            if isinstance(e.op, ast.And):
                v = True
                for x in e.values:
                    v = self.expr(x, env)
                    if not self.truth(v, x):
                        return v
                return v
            v = False
            for x in e.values:
                v = self.expr(x, env)
                if self.truth(v, x):
                    return v
            return v
        if isinstance(e, ast.UnaryOp):
            v = self.expr(e.operand, env)
            if isinstance(e.op, ast.Not):
                return not self.truth(v, e)
            if isinstance(e.op, ast.USub) and isinstance(v, int):
                return -v
            raise Undecided('unary op outside whitelist', e)
        if isinstance(e, ast.BinOp):
            return self.binop(e.op, self.expr(e.left, env), self.expr(e.right, env), e)
        if isinstance(e, ast.IfExp):
            return self.expr(e.body, env) if self.truth(self.expr(e.test, env), e.test) else self.expr(e.orelse, env)
        if isinstance(e, (ast.List, ast.Tuple)):
            return [self.expr(x, env) for x in e.elts]
        if isinstance(e, ast.ListComp):
            if len(e.generators) != 1 or e.generators[0].ifs:
                raise Undecided('comprehension outside whitelist', e)
            g = e.generators[0]
            out = []
            for v in self.expr(g.iter, env):
                env2 = dict(env)
                self.assign(g.target, v, env2)
                out.append(self.expr(e.elt, env2))
            return out
        if isinstance(e, ast.Subscript):
            base = self.expr(e.value, env)
            if isinstance(e.slice, ast.Slice):
                lo = self.expr(e.slice.lower, env) if e.slice.lower is not None else None
                hi = self.expr(e.slice.upper, env) if e.slice.upper is not None else None
                if e.slice.step is not None:
                    raise Undecided('slice step', e)
                if isinstance(base, list):
                    return base[lo:hi]
                if isinstance(base, SStr):
                    if lo in (None, 0) and isinstance(hi, int):
                        return base.prefix(hi)
                    if base.is_const():
                        return SStr([base.const()[lo:hi]])
                raise Undecided('slice outside whitelist', e)
            idx = self.expr(e.slice, env)
            if isinstance(base, list) and isinstance(idx, int):
                return base[idx]
            raise Undecided('subscript outside whitelist', e)
        if isinstance(e, ast.Lambda):
            return ('lambda', e, env)
        if isinstance(e, ast.Call):
            return self.call(e, env)
        raise Undecided('expression kind {} is outside the partial evaluator whitelist'.format(type(e).__name__), e)

    def compare(self, op, a, b, node):
        if isinstance(op, (ast.Is, ast.IsNot)):
            r = (a is None and b is None) if (a is None or b is None) else (a == b)
            return r if isinstance(op, ast.Is) else not r
        if isinstance(op, (ast.Eq, ast.NotEq)):
            r = (a == b)
            return r if isinstance(op, ast.Eq) else not r
        if isinstance(a, int) and isinstance(b, int):
            if isinstance(op, ast.Lt):
                return a < b
            if isinstance(op, ast.LtE):
                return a <= b
            if isinstance(op, ast.Gt):
                return a > b
            if isinstance(op, ast.GtE):
                return a >= b
        raise Undecided('comparison outside whitelist', node)

    def binop(self, op, a, b, node):
        if isinstance(op, ast.Add):
            if isinstance(a, SStr) or isinstance(b, SStr):
                return to_sstr(a) + to_sstr(b)
            if isinstance(a, list) and isinstance(b, list):
                return a + b
            if isinstance(a, int) and isinstance(b, int):
                return a + b
        if isinstance(a, int) and isinstance(b, int) and not isinstance(a, bool):
            if isinstance(op, ast.Sub):
                return a - b
            if isinstance(op, ast.Mod):
                return a % b
            if isinstance(op, ast.Mult):
                return a * b
        if isinstance(op, ast.Mult) and isinstance(a, SStr) and isinstance(b, int):
            return SStr([a.const() * b])
        raise Undecided('binary operation outside whitelist: {} {} {}'.format(type(a).__name__, type(op).__name__, type(b).__name__), node)

    def apply(self, fn, args, node):
        if isinstance(fn, tuple) and fn[0] == 'function':
            return self.call_function(fn[1], args)
        if isinstance(fn, tuple) and fn[0] == 'lambda':
            lam, cenv = fn[1], fn[2]
            env2 = dict(cenv)
            for p, v in zip(lam.args.args, args):
                env2[p.arg] = v
            return self.expr(lam.body, env2)
        if isinstance(fn, tuple) and fn[0] == 'closure':
            fd, cenv = fn[1], fn[2]
            env2 = dict(cenv)
            for p, v in zip(fd.args.args, args):
                env2[p.arg] = v
            try:
                self.block(fd.body, env2)
            except _Return as r:
                return r.value
            return None
        raise Undecided('call of a non-function value', node)

    def call(self, e, env):
        f = e.func
        args = [self.expr(a, env) for a in e.args]
        if e.keywords:
            raise Undecided('keyword arguments outside whitelist', e)
        if isinstance(f, ast.Name):
            if f.id == 'len' and len(args) == 1:
                v = args[0]
                if isinstance(v, list):
                    return len(v)
                if isinstance(v, SStr) and v.is_const():
                    return len(v.const())
                raise Undecided('len of opaque value', e)
            if f.id == 'range':
                if all(isinstance(a, int) for a in args):
                    return list(range(*args))
                raise Undecided('range of opaque value', e)
            if f.id == 'enumerate' and args and isinstance(args[0], list):
                start = args[1] if len(args) > 1 and isinstance(args[1], int) else 0
                return [[i + start, v] for i, v in enumerate(args[0])]
            if f.id == 'zip' and args and all(isinstance(a, list) for a in args):
                return [list(t) for t in zip(*args)]
            if f.id in ('list', 'tuple') and len(args) == 1 and isinstance(args[0], list):
                return list(args[0])
            if f.id == 'reversed' and len(args) == 1 and isinstance(args[0], list):
                return list(reversed(args[0]))
            if f.id in ('min', 'max') and args and all(isinstance(a, int) for a in args):
                return (min if f.id == 'min' else max)(*args)
            if f.id in env:
                return self.apply(env[f.id], args, e)
            if self.port.func(self.modname, f.id, required=False) is not None:
                return self.call_function(f.id, args)
            raise Undecided('call of unknown function {}'.format(f.id), e)
        if isinstance(f, ast.Attribute):
            recv = self.expr(f.value, env)
            m = f.attr
            return self.method(recv, m, args, e)
        raise Undecided('call form outside whitelist', e)

    def method(self, recv, m, args, node):
        if isinstance(recv, SStr):
            if m == 'count' and len(args) == 1:
                return recv.count(args[0])
            if m in ('find', 'indexOf') and len(args) == 1:
                return recv.find(args[0])
            if m in ('strip', 'trim') and not args:
                return recv.strip()
            if m == 'replace' and len(args) == 2 and isinstance(args[0], SStr):
                return recv.replace(args[0], args[1])
            if m == 'split' and len(args) == 1:
                return recv.split(args[0])
            if m == 'startswith' or m == 'startsWith':
                return recv.startswith(args[0])
            if m == 'join' and len(args) == 1 and isinstance(args[0], list):
                return join(recv, args[0])
            if m == 'substring' and len(args) == 2 and args[0] == 0 and isinstance(args[1], int):
                return recv.prefix(args[1])
            if m == 'repeat' and len(args) == 1 and isinstance(args[0], int):
                return SStr([recv.const() * args[0]])
            if m == 'format':
                raise Undecided('str.format in generator is outside the whitelist', node)
        if isinstance(recv, list):
            if m == 'join' and len(args) == 1:
                return join(to_sstr(args[0]), recv)
            if m == 'slice':
                if len(args) == 0:
                    return recv[:]
                if len(args) == 1:
                    return recv[args[0]:]
                if len(args) == 2:
                    return recv[args[0]:args[1]]
            if m == 'concat' and len(args) == 1 and isinstance(args[0], list):
                return recv + args[0]
            if m == 'map' and len(args) == 1:
                return [self.apply(args[0], [x], node) for x in recv]
            if m in ('append', 'push') and len(args) == 1:
                recv.append(args[0])
                return None
        raise Undecided('method {}.{}() is outside the partial evaluator whitelist'.format(type(recv).__name__, m), node)


def join(sep, items):
    out = []
    for i, it in enumerate(items):
        if i:
            out.append(sep)
        out.append(to_sstr(it))
    return SStr(out)


def _as_load(t):
    import copy
    t2 = copy.deepcopy(t)
    for n in ast.walk(t2):
        if hasattr(n, 'ctx'):
            n.ctx = ast.Load()
    return t2


CONFIG_ATTRS = ['select_expression', 'join_map', 'where_expression', 'aggregation_key_expression', 'sort_key_expression']
ALWAYS_PRESENT = ['user_init_code', 'variables_init_code', 'lhs_join_var_expression', 'update_expressions']


def compose(port, modname, config):
    """Run the generator of `port` abstractly under `config` (dict attr -> bool).  Returns (SStr, attrs_read)."""
    interp = Interp(port, modname)
    present = dict((a, True) for a in ALWAYS_PRESENT)
    present.update(config)
    # UPDATE configuration: select_expression absent <=> update_expressions present
    qc = ContextObj(present)
    res = interp.call_function('generate_main_loop_code', [qc])
    if not isinstance(res, SStr):
        raise Undecided('generator did not return a string')
    return res, qc.read
