"""Role discovery by shape, not by name (DESIGN.md 3.2)."""
import ast

from .core import Undecided
from .model import call_name, dotted, walk_no_nested


def methods(cls):
    return {st.name: st for st in cls.body if isinstance(st, (ast.FunctionDef, ast.AsyncFunctionDef))}


def self_attrs_assigned(fd):
    out = set()
    for n in walk_no_nested(fd):
        if isinstance(n, ast.Assign):
            for t in n.targets:
                if isinstance(t, ast.Attribute) and isinstance(t.value, ast.Name) and t.value.id == 'self':
                    out.add(t.attr)
    return out


def base_names(cls):
    return [(dotted(b) or '').split('.')[-1] for b in cls.bases]


def derives_from(port, cls, root):
    seen = set()
    work = [cls]
    while work:
        c = work.pop()
        if c.name in seen:
            continue
        seen.add(c.name)
        for b in base_names(c):
            if b == root:
                return True
            for k, cc in port.classes.items():
                if cc.name == b:
                    work.append(cc)
    return False


def chain_writers(port, mod):
    out = []
    for c in port.classes_in(mod):
        if getattr(c, 'verif_new_base', False):
            continue      # a base class extracted from the chain writers is not itself installed in a chain
        ms = methods(c)
        if '__init__' in ms and 'finish' in ms and 'subwriter' in self_attrs_assigned(ms['__init__']):
            if any((call_name(x) or '') == 'self.subwriter.finish' for x in ast.walk(ms['finish']) if isinstance(x, ast.Call)):
                out.append(c)
    return out


def sinks(port):
    return [c for c in port.classes.values() if derives_from(port, c, 'RBQLOutputWriter')]


def iterators(port):
    return [c for c in port.classes.values() if derives_from(port, c, 'RBQLInputIterator')]


def registries(port):
    return [c for c in port.classes.values() if derives_from(port, c, 'RBQLTableRegistry')]


def aggregators(port, mod):
    return [c for c in port.classes_in(mod) if {'increment', 'get_final'} <= set(methods(c)) and not getattr(c, 'verif_new_base', False)]


def joiners(port, mod):
    return [c for c in port.classes_in(mod) if 'get_rhs' in methods(c) and not getattr(c, 'verif_new_base', False)]


MINIMA = {
    'py': {'chain_writers': 5, 'sinks': 3, 'iterators': 4, 'aggregators': 10, 'joiners': 3},
    'js': {'chain_writers': 5, 'sinks': 2, 'iterators': 2, 'aggregators': 10, 'joiners': 3},
}


def writer_kind(c):
    """role of a chain writer class: 'top' / 'sort' / 'uniq' / 'ucnt' / 'agg' / None - by what its constructor takes and keeps (the distinguishing
    parameter first: a sorting writer may well keep its `records`), then by its name"""
    ms = methods(c)
    init = ms.get('__init__')
    attrs = self_attrs_assigned(init) if init is not None else set()
    params = {a.arg for a in init.args.args} if init is not None else set()
    name = c.name.lower()
    if 'top_count' in attrs | params:
        return 'top'
    if 'reverse_sort' in attrs | params or ('sort' in name and 'write' in ms):
        return 'sort'
    if 'aggregation_keys' in attrs or 'aggregat' in name:
        return 'agg'
    if 'uniqcount' in name or ('count' in name and 'uniq' in name):
        return 'ucnt'
    if 'seen' in attrs:
        return 'uniq'
    if 'records' in attrs or 'counters' in attrs:
        return 'ucnt'
    if 'uniq' in name:
        return 'uniq'
    return None
