"""Composed skeletons: the residual programs of the code generator under each configuration, parsed and
lowered to the IR, with a CFG and the node finders the SK rules use."""
import ast
import itertools

from . import cfg as cfgmod
from . import jsfront, peval
from .core import Undecided
from .model import set_parents, walk_no_nested, call_name, dotted

HOLE_PREFIX = '__H_'
HOLE_SUFFIX = '__'

USER_HOLES = ['variables_init_code', 'where_expression', 'select_expression', 'sort_key_expression', 'aggregation_key_expression', 'update_expressions', 'lhs_join_var_expression']


def hole_ident(name):
    return HOLE_PREFIX + name + HOLE_SUFFIX


def hole_of(node):
    if isinstance(node, ast.Name) and node.id.startswith(HOLE_PREFIX) and node.id.endswith(HOLE_SUFFIX):
        return node.id[len(HOLE_PREFIX):-len(HOLE_SUFFIX)]
    return None


def holes_in(node):
    out = set()
    if node is None:
        return out
    for n in walk_no_nested(node):
        h = hole_of(n)
        if h:
            out.add(h)
    return out


def all_configs():
    out = []
    for join, where in itertools.product([False, True], repeat=2):
        for sort, agg in itertools.product([False, True], repeat=2):
            out.append({'select_expression': True, 'join_map': join, 'where_expression': where, 'sort_key_expression': sort, 'aggregation_key_expression': agg})
        out.append({'select_expression': False, 'join_map': join, 'where_expression': where, 'sort_key_expression': False, 'aggregation_key_expression': False})
    return out


def config_name(c):
    bits = ['select' if c['select_expression'] else 'update', 'join' if c['join_map'] else 'nojoin']
    for k, lab in (('where_expression', 'where'), ('sort_key_expression', 'sort'), ('aggregation_key_expression', 'groupby')):
        if c.get(k):
            bits.append(lab)
    return '+'.join(bits)


class Skeleton(object):
    def __init__(self, port, config, sstr, reads):
        self.port = port            # Port
        self.config = config
        self.name = '{}:{}'.format(port.name, config_name(config))
        self.sstr = sstr
        self.reads = reads
        self.text = sstr.render(hole_ident)
        self.module = None
        self.wrapper = None          # FunctionDef (py) or None (js: body at module level)
        self.body = None
        self._cfg = None
        self.src_file = port.files['rbql_engine' if port.name == 'py' else 'rbql']

    @property
    def is_select(self):
        return self.config['select_expression']

    @property
    def is_join(self):
        return self.config['join_map']

    def attach(self, module):
        self.module = module
        for n in ast.walk(module):
            n.src_file = '{}#skeleton[{}]'.format(self.src_file, config_name(self.config))
        set_parents(module)
        if self.port.name == 'py':
            fds = [s for s in module.body if isinstance(s, ast.FunctionDef)]
            if len(fds) != 1:
                raise Undecided('composed python skeleton does not consist of exactly one wrapper function')
            self.wrapper = fds[0]
            self.body = self.wrapper.body
        else:
            self.body = module.body

    @property
    def cfg(self):
        if self._cfg is None:
            self._cfg = cfgmod.CFG(self.body, name=self.name)
        return self._cfg

    # ---- finders (all return CFG nodes)
    def nodes(self, pred):
        return [n for n in self.cfg.nodes if n.ast is not None and n.kind in ('stmt', 'test', 'for') and pred(n)]

    def hole_nodes(self, hole):
        return self.nodes(lambda n: hole in holes_in(cfgmod.simple_header(n)))

    def user_hole_nodes(self):
        return self.nodes(lambda n: holes_in(cfgmod.simple_header(n)) & set(USER_HOLES))

    def main_loop(self):
        """The outer while statement whose test reads stop_flag."""
        cands = [st for st in self.body if isinstance(st, ast.While)]
        cands = [w for w in cands if 'stop_flag' in {x.id for x in ast.walk(w.test) if isinstance(x, ast.Name)}]
        if len(cands) != 1:
            raise Undecided('main loop (while over stop_flag) not found in skeleton {}'.format(self.name), self.body[0] if self.body else None)
        return cands[0]

    def loop_head(self):
        w = self.main_loop()
        ns = [n for n in self.cfg.nodes if n.kind == 'test' and n.info is w]
        if len(ns) != 1:
            raise Undecided('main loop head not found in CFG of {}'.format(self.name), w)
        return ns[0]

    def inner_loop_heads(self):
        w = self.main_loop()
        out = []
        for n in self.cfg.nodes:
            if n.kind == 'for' and _inside(n.ast, w):
                out.append(n)
            if n.kind == 'test' and isinstance(n.info, ast.While) and n.info is not w and _inside(n.info, w):
                out.append(n)
        return out

    def calls(self, pred_name):
        """CFG nodes whose header contains a call whose dotted name satisfies pred_name."""
        def p(n):
            h = cfgmod.simple_header(n)
            if h is None:
                return False
            for x in walk_no_nested(h):
                if isinstance(x, ast.Call):
                    nm = call_name(x)
                    if nm and pred_name(nm):
                        return True
            return False
        return self.nodes(p)

    def assigns(self, name):
        def p(n):
            a = n.ast
            if n.kind != 'stmt':
                return False
            if isinstance(a, ast.Assign):
                return any(name in _target_names(t) for t in a.targets)
            if isinstance(a, ast.AugAssign):
                return name in _target_names(a.target)
            return False
        return self.nodes(p)


def _target_names(t):
    if isinstance(t, ast.Name):
        return {t.id}
    if isinstance(t, (ast.Tuple, ast.List)):
        s = set()
        for e in t.elts:
            s |= _target_names(e)
        return s
    d = dotted(t)
    return {d} if d else set()


def _inside(node, anc):
    p = node
    while p is not None:
        if p is anc:
            return True
        p = getattr(p, 'parent', None)
    return False


def build_skeletons(port):
    """Compose every configuration of the generator of `port`.  Returns list of Skeleton (module attached).
    Raises Undecided if composition or parsing fails (SK-PARSE reports per configuration before this is used)."""
    modname = 'rbql_engine' if port.name == 'py' else 'rbql'
    sks = []
    errors = []
    for c in all_configs():
        try:
            s, reads = peval.compose(port, modname, c)
            sks.append(Skeleton(port, c, s, reads))
        except peval.AssertFailed as e:
            errors.append((c, 'assert', str(e)))
        except Undecided as e:
            errors.append((c, 'undecided', str(e)))
    if port.name == 'py':
        for sk in sks:
            try:
                sk.attach(ast.parse(sk.text))
            except SyntaxError as e:
                errors.append((sk.config, 'syntax', 'composed program does not parse: {} (line {})'.format(e.msg, e.lineno)))
                sk.module = None
    else:
        texts = {sk.name: sk.text for sk in sks}
        trees = None
        try:
            trees = jsfront.run_node_parser([{'name': k, 'text': v} for k, v in texts.items()])
        except jsfront.JSParseError as e:
            # find out which ones fail, one by one
            for sk in sks:
                try:
                    t = jsfront.run_node_parser([{'name': sk.name, 'text': sk.text}])
                    sk.attach(jsfront.lower_estree(t[sk.name], '<skeleton>'))
                except jsfront.JSParseError as e2:
                    errors.append((sk.config, 'syntax', 'composed program does not parse: {}'.format(e2)))
        if trees is not None:
            for sk in sks:
                sk.attach(jsfront.lower_estree(trees[sk.name], '<skeleton>'))
    good = [sk for sk in sks if sk.module is not None]
    return good, errors
