"""Statement-level control-flow graph over the IR (Python `ast` statements), with exceptional edges,
try/except/finally (finally bodies are duplicated per continuation kind), with-statements, loops,
break/continue/return/raise.  Plus the path analyses the rules use: dominators, post-dominators,
cut checks ("every path from A to an exit passes through a node satisfying P"), and min/max
occurrence counting along all paths.
"""
import ast

from .model import walk_no_nested


class Node(object):
    __slots__ = ('id', 'kind', 'ast', 'succ', 'pred', 'label', 'info')

    def __init__(self, nid, kind, node=None, label=''):
        self.id = nid
        self.kind = kind      # entry | exit | raise_exit | stmt | test | for | handler | with_enter | with_exit | join
        self.ast = node
        self.succ = []        # list of (Node, edge_label)
        self.pred = []
        self.label = label
        self.info = None

    def __repr__(self):
        if self.ast is not None:
            try:
                txt = ast.unparse(self.ast).split('\n')[0][:60]
            except Exception:
                txt = type(self.ast).__name__
            return '<{} {} L{} {}>'.format(self.id, self.kind, getattr(self.ast, 'lineno', '?'), txt)
        return '<{} {}>'.format(self.id, self.kind)

    @property
    def lineno(self):
        return getattr(self.ast, 'lineno', 0)


CATCH_ALL = {'Exception', 'BaseException'}


def may_raise(stmt):
    """Conservative: a simple statement may raise if it contains a call, subscript, attribute access, arithmetic, or is an assert/raise."""
    if isinstance(stmt, (ast.Raise, ast.Assert)):
        return True
    for n in walk_no_nested(stmt):
        if isinstance(n, (ast.Call, ast.Subscript, ast.BinOp, ast.Await, ast.Yield, ast.YieldFrom)):
            return True
        if isinstance(n, ast.Attribute):
            return True
    return False


class CFG(object):
    def __init__(self, func_or_body, implicit_exc=False, name=None):
        self.nodes = []
        self.implicit_exc = implicit_exc
        self.entry = self._new('entry')
        self.exit = self._new('exit')
        self.raise_exit = self._new('raise_exit')
        if isinstance(func_or_body, (ast.FunctionDef, ast.AsyncFunctionDef)):
            body = func_or_body.body
            self.name = name or func_or_body.name
        elif isinstance(func_or_body, ast.Module):
            body = func_or_body.body
            self.name = name or '<module>'
        else:
            body = func_or_body
            self.name = name or '<body>'
        ctx = {'loops': [], 'exc': [self._to_raise_exit], 'ret': [self._to_exit]}
        frontier = self._seq(body, [(self.entry, '')], ctx)
        for (n, lab) in frontier:
            self._edge(n, self.exit, lab or 'fall')
        self._prune()

    # ---- construction helpers
    def _new(self, kind, node=None, label=''):
        n = Node(len(self.nodes), kind, node, label)
        self.nodes.append(n)
        return n

    def _edge(self, a, b, label=''):
        if (b, label) not in a.succ:
            a.succ.append((b, label))
            b.pred.append((a, label))

    def _connect(self, frontier, node):
        for (n, lab) in frontier:
            self._edge(n, node, lab)

    def _to_raise_exit(self, frontier):
        self._connect(frontier, self.raise_exit)

    def _to_exit(self, frontier):
        self._connect(frontier, self.exit)

    def _raise_from(self, node, ctx, label='exc'):
        ctx['exc'][-1]([(node, label)])

    def _seq(self, stmts, frontier, ctx):
        for st in stmts:
            if not frontier:
                break  # unreachable code
            frontier = self._stmt(st, frontier, ctx)
        return frontier

    def _simple(self, st, frontier, ctx, kind='stmt'):
        n = self._new(kind, st)
        self._connect(frontier, n)
        if self.implicit_exc and may_raise(st) or (len(ctx['exc']) > 1 and may_raise(st)):
            self._raise_from(n, ctx)
        return n

    def _stmt(self, st, frontier, ctx):
        if isinstance(st, (ast.FunctionDef, ast.AsyncFunctionDef, ast.ClassDef)):
            n = self._new('stmt', st)
            self._connect(frontier, n)
            return [(n, '')]
        if isinstance(st, ast.If):
            t = self._simple(st.test, frontier, ctx, 'test')
            t.info = st
            a = self._seq(st.body, [(t, 'T')], ctx)
            b = self._seq(st.orelse, [(t, 'F')], ctx) if st.orelse else [(t, 'F')]
            return a + b
        if isinstance(st, ast.While):
            t = self._simple(st.test, frontier, ctx, 'test')
            t.info = st
            breaks = []
            ctx['loops'].append({'continue': t, 'breaks': breaks})
            body_end = self._seq(st.body, [(t, 'T')], ctx)
            ctx['loops'].pop()
            self._connect(body_end, t)
            const_true = isinstance(st.test, ast.Constant) and st.test.value is True
            out = [] if const_true else [(t, 'F')]
            if st.orelse:
                out = self._seq(st.orelse, out, ctx)
            return out + breaks
        if isinstance(st, (ast.For, ast.AsyncFor)):
            it = self._simple(st.iter, frontier, ctx, 'stmt')
            h = self._new('for', st)
            self._edge(it, h, '')
            breaks = []
            ctx['loops'].append({'continue': h, 'breaks': breaks})
            body_end = self._seq(st.body, [(h, 'T')], ctx)
            ctx['loops'].pop()
            self._connect(body_end, h)
            out = [(h, 'F')]
            if st.orelse:
                out = self._seq(st.orelse, out, ctx)
            return out + breaks
        if isinstance(st, ast.Break):
            n = self._new('stmt', st)
            self._connect(frontier, n)
            if ctx['loops']:
                lp = ctx['loops'][-1]
                if 'via' in lp:
                    lp['via']('break', [(n, 'break')])
                else:
                    lp['breaks'].append((n, 'break'))
            return []
        if isinstance(st, ast.Continue):
            n = self._new('stmt', st)
            self._connect(frontier, n)
            if ctx['loops']:
                lp = ctx['loops'][-1]
                if 'via' in lp:
                    lp['via']('continue', [(n, 'continue')])
                else:
                    self._edge(n, lp['continue'], 'continue')
            return []
        if isinstance(st, ast.Return):
            n = self._simple(st, frontier, ctx)
            ctx['ret'][-1]([(n, 'return')])
            return []
        if isinstance(st, ast.Raise):
            n = self._new('stmt', st)
            self._connect(frontier, n)
            self._raise_from(n, ctx, 'raise')
            return []
        if isinstance(st, ast.Assert):
            n = self._new('stmt', st)
            self._connect(frontier, n)
            self._raise_from(n, ctx, 'assert')
            return [(n, '')]
        if isinstance(st, ast.Try):
            return self._try(st, frontier, ctx)
        if isinstance(st, (ast.With, ast.AsyncWith)):
            return self._with(st, frontier, ctx)
        n = self._simple(st, frontier, ctx)
        return [(n, '')]

    def _with(self, st, frontier, ctx):
        enter = self._simple(st, frontier, ctx, 'with_enter')
        outer_exc = ctx['exc'][-1]
        outer_ret = ctx['ret'][-1]

        def exit_then(cont):
            def f(fr):
                x = self._new('with_exit', st)
                self._connect(fr, x)
                cont([(x, '')])
            return f
        ctx['exc'].append(exit_then(outer_exc))
        ctx['ret'].append(exit_then(outer_ret))
        saved_loop = None
        if ctx['loops']:
            lp = ctx['loops'][-1]
            saved_loop = lp
            wrapped = dict(lp)

            def via(kind, fr, lp=lp):
                x = self._new('with_exit', st)
                self._connect(fr, x)
                if 'via' in lp:
                    lp['via'](kind, [(x, kind)])
                elif kind == 'break':
                    lp['breaks'].append((x, 'break'))
                else:
                    self._edge(x, lp['continue'], 'continue')
            wrapped['via'] = via
            ctx['loops'][-1] = wrapped
        body_end = self._seq(st.body, [(enter, '')], ctx)
        if saved_loop is not None:
            ctx['loops'][-1] = saved_loop
        ctx['exc'].pop()
        ctx['ret'].pop()
        if not body_end:
            return []
        x = self._new('with_exit', st)
        self._connect(body_end, x)
        return [(x, '')]

    def _try(self, st, frontier, ctx):
        outer_exc = ctx['exc'][-1]
        outer_ret = ctx['ret'][-1]
        has_finally = bool(st.finalbody)

        def through_finally(cont):
            """continuation that first runs a fresh copy of the finally body"""
            if not has_finally:
                return cont

            def f(fr):
                if not fr:
                    return
                ctx['exc'].append(outer_exc)
                ctx['ret'].append(outer_ret)
                end = self._seq(st.finalbody, fr, ctx)
                ctx['exc'].pop()
                ctx['ret'].pop()
                cont(end)
            return f

        handler_nodes = []
        catch_all = False
        for h in st.handlers:
            hn = self._new('handler', h)
            handler_nodes.append(hn)
            if h.type is None:
                catch_all = True
            else:
                names = [h.type] if not isinstance(h.type, ast.Tuple) else list(h.type.elts)
                for t in names:
                    if isinstance(t, ast.Name) and t.id in CATCH_ALL:
                        catch_all = True

        def body_exc(fr):
            for hn in handler_nodes:
                self._connect(fr, hn)
            if not catch_all:
                through_finally(outer_exc)(fr)

        try_entry = self._new('join', st, 'try')
        self._connect(frontier, try_entry)
        # try body
        ctx['exc'].append(body_exc)
        ctx['ret'].append(through_finally(outer_ret))
        loop_saved = self._wrap_loop(ctx, through_finally) if has_finally else None
        body_end = self._seq(st.body, [(try_entry, '')], ctx)
        ctx['exc'].pop()
        # else-clause runs outside the handlers' protection but inside finally
        ctx['exc'].append(through_finally(outer_exc))
        if st.orelse:
            body_end = self._seq(st.orelse, body_end, ctx)
        normal_ends = list(body_end)
        # handlers
        for h, hn in zip(st.handlers, handler_nodes):
            hend = self._seq(h.body, [(hn, '')], ctx)
            normal_ends.extend(hend)
        ctx['exc'].pop()
        ctx['ret'].pop()
        if loop_saved is not None:
            ctx['loops'][-1] = loop_saved
        if has_finally and normal_ends:
            normal_ends = self._seq(st.finalbody, normal_ends, ctx)
        return normal_ends

    def _wrap_loop(self, ctx, through_finally):
        if not ctx['loops']:
            return None
        lp = ctx['loops'][-1]
        wrapped = dict(lp)

        def via(kind, fr, lp=lp):
            def cont(end):
                if 'via' in lp:
                    lp['via'](kind, end)
                elif kind == 'break':
                    lp['breaks'].extend(end)
                else:
                    self._connect(end, lp['continue'])
            through_finally(cont)(fr)
        wrapped['via'] = via
        ctx['loops'][-1] = wrapped
        return lp

    def _prune(self):
        reach = set()
        stack = [self.entry]
        while stack:
            n = stack.pop()
            if n.id in reach:
                continue
            reach.add(n.id)
            stack.extend(s for s, _ in n.succ)
        keep = [n for n in self.nodes if n.id in reach or n in (self.exit, self.raise_exit)]
        for n in keep:
            n.pred = [(p, l) for (p, l) in n.pred if p.id in reach]
        self.nodes = keep

    # ---- queries
    def nodes_where(self, pred):
        return [n for n in self.nodes if pred(n)]

    def stmt_nodes(self, st):
        return [n for n in self.nodes if n.ast is st]

    def reachable_from(self, srcs, avoid=None, edge_ok=None):
        seen = set()
        stack = list(srcs)
        while stack:
            n = stack.pop()
            if n.id in seen:
                continue
            seen.add(n.id)
            for s, lab in n.succ:
                if avoid is not None and avoid(s):
                    continue
                if edge_ok is not None and not edge_ok(n, s, lab):
                    continue
                stack.append(s)
        return seen

    def exists_path(self, src, dst_pred, avoid=None, edge_ok=None, include_src=False):
        """Is there a path src ->+ n with dst_pred(n), whose intermediate nodes are not `avoid`?"""
        seen = set()
        stack = [s for s, lab in src.succ if edge_ok is None or edge_ok(src, s, lab)]
        if include_src:
            stack.append(src)
        while stack:
            n = stack.pop()
            if n.id in seen:
                continue
            seen.add(n.id)
            if dst_pred(n):
                return True
            if avoid is not None and avoid(n):
                continue
            for s, lab in n.succ:
                if edge_ok is None or edge_ok(n, s, lab):
                    stack.append(s)
        return False

    def find_path(self, src, dst_pred, avoid=None, edge_ok=None):
        """Shortest path (list of nodes) from src to a node satisfying dst_pred avoiding `avoid` nodes; None if none."""
        from collections import deque
        prev = {src.id: None}
        dq = deque([src])
        while dq:
            n = dq.popleft()
            for s, lab in n.succ:
                if edge_ok is not None and not edge_ok(n, s, lab):
                    continue
                if s is src and dst_pred(s):
                    path = [n]
                    while path[-1] is not src:
                        path.append(prev[path[-1].id])
                    return list(reversed(path)) + [s]
                if s.id in prev:
                    continue
                prev[s.id] = n
                if dst_pred(s):
                    path = [s]
                    while path[-1] is not src:
                        path.append(prev[path[-1].id])
                    return list(reversed(path))
                if avoid is not None and avoid(s):
                    continue
                dq.append(s)
        return None

    def dominators(self):
        ids = [n.id for n in self.nodes]
        byid = {n.id: n for n in self.nodes}
        dom = {i: set(ids) for i in ids}
        dom[self.entry.id] = {self.entry.id}
        changed = True
        order = self._rpo()
        while changed:
            changed = False
            for n in order:
                if n is self.entry:
                    continue
                preds = [p for p, _ in n.pred if p.id in dom]
                if not preds:
                    new = {n.id}
                else:
                    new = set.intersection(*[dom[p.id] for p in preds]) | {n.id}
                if new != dom[n.id]:
                    dom[n.id] = new
                    changed = True
        return dom

    def _rpo(self):
        seen = set()
        order = []

        def dfs(n):
            stack = [(n, iter(n.succ))]
            seen.add(n.id)
            while stack:
                node, it = stack[-1]
                for s, _ in it:
                    if s.id not in seen:
                        seen.add(s.id)
                        stack.append((s, iter(s.succ)))
                        break
                else:
                    order.append(node)
                    stack.pop()
        dfs(self.entry)
        rest = [n for n in self.nodes if n.id not in seen]
        return list(reversed(order)) + rest

    def dominates(self, a, b, dom=None):
        dom = dom or self.dominators()
        return a.id in dom[b.id]

    def count_range(self, pred, src=None, exits=None, edge_ok=None):
        """(min, max) number of nodes satisfying pred on any path from src (default entry) to any node in exits
        (default [normal exit]).  max is float('inf') when a counted node lies on a cycle that can reach an exit.
        Returns None when no exit is reachable."""
        src = src or self.entry
        exits = exits or [self.exit]
        exit_ids = {e.id for e in exits}
        # restrict to nodes that can reach an exit
        can = set()
        stack = list(exits)
        while stack:
            n = stack.pop()
            if n.id in can:
                continue
            can.add(n.id)
            for p, lab in n.pred:
                if edge_ok is None or edge_ok(p, n, lab):
                    stack.append(p)
        if src.id not in can:
            return None
        INF = float('inf')
        lo = {src.id: 1 if pred(src) else 0}
        hi = {src.id: 1 if pred(src) else 0}
        work = [src]
        iters = 0
        limit = 50 * (len(self.nodes) + 5)
        while work:
            n = work.pop()
            iters += 1
            if n.id in exit_ids:
                continue
            for s, lab in n.succ:
                if s.id not in can:
                    continue
                if edge_ok is not None and not edge_ok(n, s, lab):
                    continue
                w = 1 if pred(s) else 0
                nlo, nhi = lo[n.id] + w, hi[n.id] + w
                if iters > limit and nhi > hi.get(s.id, -1):
                    nhi = INF
                ch = False
                if s.id not in lo or nlo < lo[s.id]:
                    lo[s.id] = nlo
                    ch = True
                if s.id not in hi or nhi > hi[s.id]:
                    hi[s.id] = nhi if nhi < 64 else INF
                    ch = True
                if ch:
                    work.append(s)
        los = [lo[e] for e in exit_ids if e in lo]
        his = [hi[e] for e in exit_ids if e in hi]
        if not los:
            return None
        return (min(los), max(his))

    def in_cycle(self, n):
        return self.exists_path(n, lambda x: x is n)


def contains(node_ast, pred):
    """Does the statement/expression (not descending into nested defs) contain an AST node satisfying pred?"""
    if node_ast is None:
        return False
    for x in walk_no_nested(node_ast):
        if pred(x):
            return True
    return False


def simple_header(n):
    """The part of a CFG node's AST that is evaluated *at* that node (for compound statements only the header)."""
    a = n.ast
    if n.kind == 'for':
        return a.target
    if n.kind in ('with_enter',):
        return ast.Tuple(elts=[i.context_expr for i in a.items], ctx=ast.Load())
    if n.kind in ('with_exit', 'handler', 'join'):
        return None
    if isinstance(a, (ast.FunctionDef, ast.AsyncFunctionDef, ast.ClassDef)):
        return None
    return a


def node_contains(n, pred):
    h = simple_header(n)
    return contains(h, pred)
