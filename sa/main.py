"""./check <property> --tier quick|thorough   (static analysis only: parses /repo's working tree, executes nothing of it)"""
import argparse
import sys
import warnings

warnings.simplefilter('ignore')

from . import props  # noqa: E402
from .context import Cx  # noqa: E402
from .core import Report  # noqa: E402


def run(prop_id, tier, only=None):
    spec = props.PROPS.get(prop_id)
    if spec is None:
        print('ANALYSIS-ERROR property={} unknown property'.format(prop_id))
        return 2
    rep = Report(prop_id, tier)
    rep.explanation = spec['explanation']
    rep.not_decided = spec['not_decided']
    rep.assumptions = list(props.COMMON_ASSUMPTIONS) + list(spec.get('assumptions', []))
    cx = Cx(tier)
    rules = list(spec['rules'])
    if tier == 'thorough':
        rules += list(spec.get('thorough_rules', []))
    for (fn, ports) in rules:
        if only and fn.__name__ not in only and fn.__name__.replace('rule_', '') not in only:
            continue
        if ports is None:
            rep.run_rule(fn, cx, None)
        else:
            for port in ports:
                rep.run_rule(fn, cx, port)
    rep.analysed = cx.analysed_summary()
    return rep.finalize()


def main(argv=None):
    ap = argparse.ArgumentParser()
    ap.add_argument('property')
    ap.add_argument('--tier', default=None, choices=['quick', 'thorough'])
    ap.add_argument('--only', action='append', help='run only the named rule(s) (developer option)')
    args = ap.parse_args(argv)
    import os
    tier = args.tier or os.environ.get('VERIF_TIER') or 'quick'
    if tier not in ('quick', 'thorough'):
        tier = 'quick'
    try:
        rc = run(args.property, tier, args.only)
    except Exception as e:  # last resort: never let a traceback look like a violation
        import traceback
        traceback.print_exc()
        print('ANALYSIS-ERROR property={} checker crashed: {}: {}'.format(args.property, type(e).__name__, e))
        rc = 2
    sys.exit(rc)


if __name__ == '__main__':
    main()
