// Dumps ESTree JSON for JavaScript sources WITHOUT executing them.
// Input (stdin): JSON list of {name, path} or {name, text, [wrap]} items.
// Output (stdout): JSON {name: {ast}|{error}}.
// Parser: acorn bundled inside Node (needs --expose-internals); fallback: esprima from puppeteer's tree.
'use strict';
const fs = require('fs');
function load_parser() {
    try {
        const acorn = require('internal/deps/acorn/acorn/dist/acorn');
        return {name: 'acorn ' + acorn.version, parse: (t) => acorn.parse(t, {ecmaVersion: 'latest', locations: true, allowAwaitOutsideFunction: true, allowReturnOutsideFunction: true})};
    } catch (e) { /* fall through */ }
    const os = require('os'), path = require('path');
    const roots = [];
    try {
        const base = path.join(os.homedir(), '.nvm/versions/node');
        for (const v of fs.readdirSync(base)) roots.push(path.join(base, v, 'lib/node_modules'));
    } catch (e) { /* ignore */ }
    for (const r of roots) {
        for (const cand of ['esprima', 'puppeteer/node_modules/esprima', 'npm/node_modules/esprima']) {
            try {
                const esprima = require(path.join(r, cand));
                return {name: 'esprima ' + esprima.version, parse: (t) => esprima.parseScript(t, {loc: true, range: true})};
            } catch (e) { /* next */ }
        }
    }
    return null;
}
const parser = load_parser();
const items = JSON.parse(fs.readFileSync(0, 'utf-8'));
const out = {__parser__: parser ? parser.name : null};
for (const it of items) {
    if (!parser) { out[it.name] = {error: 'no JS parser available'}; continue; }
    try {
        const text = it.path ? fs.readFileSync(it.path, 'utf-8') : it.text;
        out[it.name] = {ast: parser.parse(text)};
    } catch (e) {
        out[it.name] = {error: String(e && e.message || e)};
    }
}
function replacer(k, v) {
    if (typeof v === 'bigint') return String(v);
    if (v instanceof RegExp) return undefined;
    return v;
}
process.stdout.write(JSON.stringify(out, replacer));
