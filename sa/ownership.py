"""Interprocedural value-origin analysis (DESIGN.md 3.4) used by OW-MUT / OW-FRESH.

Demand driven: `origins(expr, func)` answers "which allocation sites / inputs may this value be", following local definitions
(flow-insensitively), parameters (to every call site of the function, resolved by name over the library modules and the composed
skeletons), object fields (to every store into a field of that name), container elements, and user-defined callees' return values.

Origin atoms:
  ('fresh', node)      newly allocated here (list display, comprehension, copy idiom, concatenation, constructor call)
  ('imm', node)        immutable / scalar
  ('input', node)      a caller's source object: result of get_record()/get_header(), or a declared input parameter of the public API
  ('output', node)     a declared output parameter of the public API
  ('hole', name)       user fragment in a skeleton
  ('unknown', node)    could not be resolved (bounded depth, opaque callee)
"""
import ast

from .idioms import MUTATORS, copy_source, concat_operands
from .model import call_name, dotted, walk_no_nested, func_params

INPUT_PARAMS = {
    'query_table': {'input_table', 'join_table', 'input_column_names', 'join_column_names'},
    'TableIterator.__init__': {'table', 'column_names'},
    'ListTableRegistry.__init__': {'table_infos'},
    'SingleTableRegistry.__init__': {'table', 'column_names'},
    'query_dataframe': {'input_dataframe', 'join_dataframe'},
    'DataframeIterator.__init__': {'table'},
    'SingleDataframeRegistry.__init__': {'table'},
}
OUTPUT_PARAMS = {
    'query_table': {'output_table', 'output_warnings', 'output_column_names'},
    'query': {'output_warnings'},
    'query_csv': {'output_warnings'},
    'query_dataframe': {'output_warnings'},
    'query_sqlite_to_csv': {'output_warnings'},
    'TableWriter.__init__': {'external_table'},
}
FRESH_CALLS = {'list', 'dict', 'set', 'tuple', 'sorted', 'defaultdict', 'OrderedDict', 'Map', 'Set', 'Array', 'Object', 'Array.from', 'Object.entries', 'enumerate', 'zip', 'reversed', 'range', 'str', 'int', 'float', 'len', 'String', 'Number', 'parseInt', 'JSON.stringify', 'JSON.parse', 'min', 'max', 'sum', 'bool', 'iter', 'next', 'namedtuple', 'frozenset'}
ELEMENT_PRESERVING_CALLS = {'list', 'tuple', 'sorted', 'reversed', 'Array.from', 'iter', 'next', 'enumerate', 'set', 'frozenset'}
FRESH_METHODS = {'split', 'join', 'strip', 'lstrip', 'rstrip', 'replace', 'format', 'lower', 'upper', 'trim', 'substring', 'substr', 'slice', 'concat', 'map', 'filter', 'keys', 'values', 'items', 'entries', 'copy', 'toString', 'toLowerCase', 'find', 'findIndex', 'indexOf', 'count', 'startswith', 'startsWith', 'endswith', 'endsWith', 'group', 'span', 'match', 'search', 'exec', 'test', 'charAt', 'charCodeAt', 'encode', 'decode', 'read', 'readlines', 'fill', 'get_warnings', 'get_variables_map'}
ELEMENT_PRESERVING_METHODS = {'slice', 'concat', 'copy', 'filter', 'values', 'items', 'entries', 'get', 'pop', 'shift', 'popitem', 'fill'}
INPUT_METHODS = {'get_record', 'get_header'}


class Program(object):
    """All functions of the analysed library modules of one port plus the composed skeletons."""

    def __init__(self, port, modules, skeletons):
        self.port = port
        self.funcs = []            # FunctionDef nodes
        self.by_name = {}
        self.cls_of = {}
        for key, fd in port.funcs.items():
            m, q = key.split(':')
            if m not in modules:
                continue
            self.funcs.append(fd)
            self.by_name.setdefault(fd.name, []).append(fd)
            par = getattr(fd, 'parent', None)
            if isinstance(par, ast.ClassDef):
                self.cls_of[id(fd)] = par
        self.skeleton_funcs = []
        for sk in skeletons:
            # wrap the skeleton body as a pseudo function
            if sk.wrapper is not None:
                fd = sk.wrapper
            else:
                fd = ast.FunctionDef(name='__skeleton__', args=ast.arguments(posonlyargs=[], args=[], vararg=None, kwonlyargs=[], kw_defaults=[], kwarg=None, defaults=[]), body=sk.body, decorator_list=[], returns=None, type_comment=None, type_params=[])
                fd.lineno = 1
                fd.col_offset = 0
                fd.src_file = sk.body[0].src_file if sk.body else '?'
            fd.skeleton = sk
            self.skeleton_funcs.append(fd)
            self.funcs.append(fd)
        self._call_sites = None
        self._field_stores = None
        self._memo = {}
        self._approx = {}
        self._inprogress = set()
        self._changed = False

    def qual(self, fd):
        c = self.cls_of.get(id(fd))
        return '{}.{}'.format(c.name, fd.name) if c is not None else fd.name

    def body_nodes(self, fd):
        if getattr(fd, 'skeleton', None) is not None and fd.name == '__skeleton__':
            out = []
            for st in fd.body:
                out.extend(walk_no_nested(st))
            return out
        return list(walk_no_nested(fd))

    def call_sites(self):
        if self._call_sites is None:
            cs = {}
            for fd in self.funcs:
                for n in self.body_nodes(fd):
                    if isinstance(n, ast.Call):
                        nm = call_name(n)
                        short = nm.split('.')[-1] if nm else None
                        if short is None and isinstance(n.func, ast.Name):
                            short = n.func.id
                        if short:
                            cs.setdefault(short, []).append((fd, n))
            # method-valued slots: self.polymorphic_x = self.m  =>  calls of polymorphic_x are calls of m
            slots = {}
            for fd in self.funcs:
                for n in self.body_nodes(fd):
                    if isinstance(n, ast.Assign) and isinstance(n.targets[0], ast.Attribute) and isinstance(n.value, ast.Attribute) and isinstance(n.value.value, ast.Name) and n.value.value.id == 'self' and n.value.attr in self.by_name:
                        slots.setdefault(n.targets[0].attr, set()).add(n.value.attr)
                    if isinstance(n, ast.Assign) and isinstance(n.targets[0], ast.Attribute) and isinstance(n.value, ast.IfExp):
                        for arm in (n.value.body, n.value.orelse):
                            if isinstance(arm, ast.Attribute) and arm.attr in self.by_name:
                                slots.setdefault(n.targets[0].attr, set()).add(arm.attr)
            for slot, meths in slots.items():
                for m in meths:
                    cs.setdefault(m, []).extend(cs.get(slot, []))
            self.slots = slots
            self._call_sites = cs
        return self._call_sites

    def field_stores(self):
        """attr name -> list of (fd, value expr, kind) for `X.attr = v`, `X.attr.append(v)`, `X.attr[k] = v`, `X.attr.set(k, v)` ..."""
        if self._field_stores is None:
            fs = {}
            for fd in self.funcs:
                for n in self.body_nodes(fd):
                    if isinstance(n, ast.Assign):
                        for t in n.targets:
                            if isinstance(t, ast.Attribute):
                                fs.setdefault(t.attr, []).append((fd, n.value, 'whole'))
                            if isinstance(t, ast.Subscript) and isinstance(t.value, ast.Attribute):
                                fs.setdefault(t.value.attr, []).append((fd, n.value, 'elem'))
                    if isinstance(n, ast.Call) and isinstance(n.func, ast.Attribute) and isinstance(n.func.value, ast.Attribute) and n.func.attr in ('append', 'push', 'add', 'insert', 'unshift', 'set', 'extend', 'setdefault'):
                        for a in n.args[-1:]:
                            fs.setdefault(n.func.value.attr, []).append((fd, a, 'elem'))
                    # self.hash_map[key].append(x)
                    if isinstance(n, ast.Call) and isinstance(n.func, ast.Attribute) and isinstance(n.func.value, ast.Subscript) and isinstance(n.func.value.value, ast.Attribute) and n.func.attr in ('append', 'push'):
                        fs.setdefault(n.func.value.value.attr, []).append((fd, n.args[0], 'elemelem'))
            self._field_stores = fs
        return self._field_stores

    # ------------------------------------------------------------------ origins
    def origins(self, e, fd, depth=0, elem=0, stack=()):
        """set of origin atoms of expression e evaluated in function fd; elem = how many element levels below e we look.
        Cycles (recursion through parameters/fields) are solved as a least fixpoint: an in-progress query answers with its
        approximation from the previous round; `solve` repeats until nothing changes."""
        key = (id(e), id(fd), elem)
        if key in self._memo:
            return self._memo[key]
        if elem > 4:
            return {('imm', e)}      # nothing in RBQL nests deeper than table -> row -> cell -> sub-array -> scalar
        if depth > 80:
            return {('unknown', e)}
        if key in self._inprogress:
            return self._approx.get(key, set())
        self._inprogress.add(key)
        try:
            res = self._origins(e, fd, depth, elem, stack)
        finally:
            self._inprogress.discard(key)
        if res != self._approx.get(key):
            self._approx[key] = res
            self._changed = True
        self._memo[key] = res
        return res

    def solve(self, queries):
        """queries: list of (expr, func).  Returns list of atom sets (least fixpoint)."""
        out = []
        for _ in range(12):
            self._memo = {}
            self._changed = False
            out = [self.origins(e, fd) for (e, fd) in queries]
            if not self._changed:
                break
        return out

    def _elem_of_atoms(self, atoms, node):
        out = set()
        for a in atoms:
            if a[0] in ('input', 'output', 'unknown', 'hole'):
                out.add(a)
            else:
                out.add(('imm', node))
        return out

    def _origins(self, e, fd, depth, elem, stack):
        rec = lambda x, el=elem: self.origins(x, fd, depth + 1, el, stack)  # noqa: E731
        if e is None or isinstance(e, (ast.Constant, ast.JoinedStr, ast.Compare, ast.Lambda, ast.UnaryOp)):
            return {('imm', e)}
        if isinstance(e, ast.Name):
            return self._name(e, fd, depth, elem, stack)
        if isinstance(e, (ast.List, ast.Tuple, ast.Set)):
            if elem == 0:
                return {('fresh', e)}
            out = set()
            for x in e.elts:
                if isinstance(x, ast.Starred):
                    out |= rec(x.value, elem)       # spread: elements of the spread value at the same depth
                else:
                    out |= rec(x, elem - 1)
            return out or {('imm', e)}
        if isinstance(e, ast.Dict):
            if elem == 0:
                return {('fresh', e)}
            out = set()
            for v in e.values:
                out |= rec(v, elem - 1)
            return out or {('imm', e)}
        if isinstance(e, (ast.ListComp, ast.SetComp, ast.GeneratorExp)):
            if elem == 0:
                return {('fresh', e)}
            return self._comp_elt(e, fd, depth, elem - 1, stack)
        src = copy_source(e)
        if src is not None:
            if elem == 0:
                return {('fresh', e)}
            return rec(src, elem)
        ops = concat_operands(e)
        if ops is not None:
            if elem == 0:
                return {('fresh', e)}
            out = set()
            for o in ops:
                out |= rec(o, elem)
            return out
        if isinstance(e, ast.BinOp):
            return {('imm', e)}
        if isinstance(e, ast.BoolOp):
            out = set()
            for v in e.values:
                out |= rec(v)
            return out
        if isinstance(e, ast.IfExp):
            return rec(e.body) | rec(e.orelse)
        if isinstance(e, ast.NamedExpr):
            return rec(e.value)
        if isinstance(e, ast.Starred):
            return rec(e.value, elem + 1)
        if isinstance(e, ast.Subscript):
            if isinstance(e.slice, ast.Slice):
                if elem == 0:
                    return {('fresh', e)}
                return rec(e.value, elem)
            return rec(e.value, elem + 1)
        if isinstance(e, ast.Attribute):
            return self._attribute(e, fd, depth, elem, stack)
        if isinstance(e, ast.Call):
            return self._call(e, fd, depth, elem, stack)
        if isinstance(e, ast.Await):
            return rec(e.value)
        return {('unknown', e)}

    def _comp_elt(self, e, fd, depth, elem, stack):
        # bind generator targets as element-of-iter: handled through _name via the comprehension's parent chain
        return self.origins(e.elt, fd, depth + 1, elem, stack)

    def _name(self, e, fd, depth, elem, stack):
        from .skeleton import hole_of
        h = hole_of(e)
        if h:
            return {('hole', h)}
        name = e.id
        params = func_params(fd) if isinstance(fd, ast.FunctionDef) else []
        out = set()
        if name in params:
            out |= self._param(fd, name, depth, elem, stack)
        # comprehension targets enclosing e
        p = getattr(e, 'parent', None)
        while p is not None and p is not fd:
            if isinstance(p, (ast.ListComp, ast.SetComp, ast.GeneratorExp, ast.DictComp)):
                for g in p.generators:
                    hit = self._target_hit(g.target, name)
                    if hit is not None:
                        out |= self.origins(g.iter, fd, depth + 1, elem + 1 + hit, stack)
            p = getattr(p, 'parent', None)
        for n in self.body_nodes(fd):
            if isinstance(n, ast.Assign):
                for t in n.targets:
                    hit = self._target_hit(t, name)
                    if hit is not None:
                        out |= self.origins(n.value, fd, depth + 1, elem + hit, stack)
            elif isinstance(n, ast.AugAssign) and isinstance(n.target, ast.Name) and n.target.id == name:
                # x += y extends/rebinds: for lists the object stays the one x already was (in-place extend); only elements are added
                if elem >= 1 and isinstance(n.op, ast.Add):
                    out |= self.origins(n.value, fd, depth + 1, elem, stack)
            elif isinstance(n, (ast.For, ast.AsyncFor)):
                hit = self._target_hit(n.target, name)
                if hit is not None:
                    out |= self.origins(n.iter, fd, depth + 1, elem + 1 + hit, stack)
            elif isinstance(n, ast.NamedExpr) and n.target.id == name:
                out |= self.origins(n.value, fd, depth + 1, elem, stack)
            elif isinstance(n, (ast.With, ast.AsyncWith)):
                for it in n.items:
                    if it.optional_vars is not None and self._target_hit(it.optional_vars, name) is not None:
                        out.add(('imm', n))
            elif isinstance(n, ast.ExceptHandler) and n.name == name:
                out.add(('imm', n))
        if not out:
            # closure variable of an enclosing function?
            enc = getattr(fd, 'parent', None)
            while enc is not None and not isinstance(enc, (ast.FunctionDef, ast.AsyncFunctionDef)):
                enc = getattr(enc, 'parent', None)
            if enc is not None:
                return self._name(e, enc, depth + 1, elem, stack)
            g = self._module_binding(e.id, fd)
            if g is not None:
                return {('global', g)}   # module-level mutable object (or something stored in it): shared by all queries
            return {('imm', e)}   # module-level constant / builtin / function
        return out

    def _module_binding(self, name, fd):
        """module-level statement binding `name` to a mutable container, in the module that contains fd"""
        mod = fd
        while mod is not None and not isinstance(mod, ast.Module):
            mod = getattr(mod, 'parent', None)
        if mod is None:
            return None
        for st in mod.body:
            if isinstance(st, ast.Assign) and any(isinstance(t, ast.Name) and t.id == name for t in st.targets):
                v = st.value
                if isinstance(v, (ast.Dict, ast.List, ast.Set, ast.ListComp, ast.DictComp, ast.SetComp)):
                    return st
                if isinstance(v, ast.Call) and (dotted(v.func) or '') in ('dict', 'list', 'set', 'defaultdict', 'OrderedDict', 'collections.defaultdict', 'collections.OrderedDict', 'Map', 'Set', 'Array', 'Object', 'WeakMap'):
                    return st
        return None

    def _target_hit(self, t, name):
        """None if name is not bound by target t; otherwise the number of element levels (0 = whole value, 1 = element of a tuple)"""
        if isinstance(t, ast.Name):
            return 0 if t.id == name else None
        if isinstance(t, (ast.Tuple, ast.List)):
            for x in t.elts:
                h = self._target_hit(x, name)
                if h is not None:
                    return h + 1
        if isinstance(t, ast.Starred):
            return self._target_hit(t.value, name)
        return None

    def _param(self, fd, name, depth, elem, stack):
        q = self.qual(fd)
        if name in INPUT_PARAMS.get(q, ()):
            # tables: the table and its rows are the caller's objects, cells are immutable strings; name lists: only the list itself
            deep = 1 if ('table' in name and 'infos' not in name) or 'dataframe' in name else (2 if 'infos' in name else 0)
            return {('input', fd)} if elem <= deep else {('imm', fd)}
        if name in OUTPUT_PARAMS.get(q, ()):
            return {('output', fd)}
        if name == 'self':
            return {('imm', fd)}
        params = func_params(fd)
        idx = params.index(name)
        is_method = bool(params) and params[0] == 'self'
        sites = self.call_sites().get(fd.name, [])
        if fd.name == '__init__':
            c = self.cls_of.get(id(fd))
            sites = self.call_sites().get(c.name, []) if c is not None else []
        out = set()
        n_sites = 0
        for (caller, call) in sites:
            if caller is fd and False:
                continue
            ai = idx - 1 if is_method else idx
            kw = [k.value for k in call.keywords if k.arg == name]
            arg = None
            if kw:
                arg = kw[0]
            elif 0 <= ai < len(call.args):
                arg = call.args[ai]
                if isinstance(arg, ast.Starred):
                    arg = None
            if arg is None:
                continue
            n_sites += 1
            out |= self.origins(arg, caller, depth + 1, elem, stack)
        if not n_sites:
            # default value or an entry point nobody calls inside the library: opaque caller
            # ('external'): the object belongs to whoever calls this function from outside the library (not a query source declared in INPUT_PARAMS)
            return {('external', fd)} if not self._has_default(fd, name) else {('imm', fd)}
        return out

    def _has_default(self, fd, name):
        params = [a.arg for a in fd.args.args]
        nd = len(fd.args.defaults)
        return name in params[len(params) - nd:] if nd else False

    def _attribute(self, e, fd, depth, elem, stack):
        base = dotted(e.value)
        stores = self.field_stores().get(e.attr, [])
        if base == 'self':
            c = self._class_of_nested(fd)
            if c is not None:
                fam = self._family(c)
                stores = [s for s in stores if (self._class_of_nested(s[0]) is not None and self._class_of_nested(s[0]).name in fam)]
        if not stores:
            return {('imm', e)}
        out = set()
        for (sfd, val, kind) in stores:
            if kind == 'whole':
                out |= self.origins(val, sfd, depth + 1, elem, stack)
            elif kind == 'elem' and elem >= 1:
                out |= self.origins(val, sfd, depth + 1, elem - 1, stack)
            elif kind == 'elemelem' and elem >= 2:
                out |= self.origins(val, sfd, depth + 1, elem - 2, stack)
        if elem == 0 and not any(k == 'whole' for _, _, k in stores):
            out.add(('fresh', e))
        return out or {('imm', e)}

    def _class_of_nested(self, fd):
        p = fd
        while p is not None:
            c = self.cls_of.get(id(p))
            if c is not None:
                return c
            p = getattr(p, 'parent', None)
            while p is not None and not isinstance(p, (ast.FunctionDef, ast.AsyncFunctionDef)):
                p = getattr(p, 'parent', None)
        return None

    def _family(self, c):
        """names of c, its ancestors and its descendants (by simple name, within the analysed program)"""
        if not hasattr(self, '_fam_cache'):
            self._fam_cache = {}
            self._classes = {}
            for g in self.funcs:
                cc = self.cls_of.get(id(g))
                if cc is not None:
                    self._classes[cc.name] = cc
        if c.name in self._fam_cache:
            return self._fam_cache[c.name]
        classes = self._classes

        def bases_of(cc):
            return {(dotted(b) or '').split('.')[-1] for b in cc.bases} & set(classes)
        anc = set()
        work = [c.name]
        while work:
            n = work.pop()
            for b in bases_of(classes[n]) if n in classes else ():
                if b not in anc:
                    anc.add(b)
                    work.append(b)
        desc = set()
        changed = True
        while changed:
            changed = False
            for name, cc in classes.items():
                if name not in desc and name != c.name and (bases_of(cc) & (desc | {c.name})):
                    desc.add(name)
                    changed = True
        fam = {c.name} | anc | desc
        self._fam_cache[c.name] = fam
        return fam

    def _call(self, e, fd, depth, elem, stack):
        nm = call_name(e) or ''
        short = nm.split('.')[-1] if nm else (e.func.id if isinstance(e.func, ast.Name) else None)
        if short in INPUT_METHODS and isinstance(e.func, ast.Attribute):
            # a record / header list is the source's own object; its cells are immutable strings
            return {('input', e)} if elem == 0 else {('imm', e)}
        d = dotted(e.func)
        if d in FRESH_CALLS or (isinstance(e.func, ast.Name) and e.func.id in FRESH_CALLS):
            if elem == 0 or d not in ELEMENT_PRESERVING_CALLS or not e.args:
                return {('fresh', e)} if elem == 0 else {('imm', e)}
            extra = 1 if d == 'enumerate' and elem >= 1 else 0
            return self.origins(e.args[0], fd, depth + 1, max(elem - extra, 0) if extra else elem, stack)
        cands = [g for g in self.by_name.get(short, []) if g is not None] if short else []
        if short in getattr(self, 'slots', {}) or (short and not cands and short in self.call_sites() and False):
            pass
        if hasattr(self, 'slots') is False:
            self.call_sites()
        if short in self.slots:
            for m in self.slots[short]:
                cands += self.by_name.get(m, [])
        # class constructor
        if not cands and short:
            for g in self.funcs:
                c = self.cls_of.get(id(g))
                if c is not None and c.name == short and g.name == '__init__':
                    return {('fresh', e)} if elem == 0 else {('imm', e)}
        if cands:
            out = set()
            for g in cands:
                rets = [r for r in self.body_nodes(g) if isinstance(r, ast.Return) and r.value is not None]
                if not rets:
                    out.add(('imm', e))
                for r in rets:
                    out |= self.origins(r.value, g, depth + 1, elem, stack)
            return out
        if isinstance(e.func, ast.Attribute):
            m = e.func.attr
            if m in ELEMENT_PRESERVING_METHODS and elem >= 1:
                return self.origins(e.func.value, fd, depth + 1, elem if m not in ('get', 'pop', 'shift', 'popitem') else elem + 1, stack)
            if m in ('get', 'pop', 'shift') and elem == 0:
                return self.origins(e.func.value, fd, depth + 1, 1, stack)
            if m in FRESH_METHODS:
                return {('fresh', e)} if elem == 0 else {('imm', e)}
            if m in MUTATORS:
                return {('imm', e)}
        # unresolved callee (standard library, user-supplied callable such as post_proc): its result is not one of the query's
        # source objects, which enter the program only through get_record()/get_header() and the declared input parameters
        return {('external', e)}

    # ------------------------------------------------------------------ mutation sites
    def mutation_sites(self, fd):
        """(node, mutated expression, description) for in-place modifications performed directly in fd"""
        out = []
        for n in self.body_nodes(fd):
            if isinstance(n, (ast.Assign, ast.AugAssign)):
                tgts = n.targets if isinstance(n, ast.Assign) else [n.target]
                for t in tgts:
                    for tt in (t.elts if isinstance(t, (ast.Tuple, ast.List)) else [t]):
                        if isinstance(tt, ast.Subscript):
                            out.append((n, tt.value, 'item store'))
            elif isinstance(n, ast.Delete):
                for t in n.targets:
                    if isinstance(t, ast.Subscript):
                        out.append((n, t.value, 'item delete'))
            elif isinstance(n, ast.Call) and isinstance(n.func, ast.Attribute) and n.func.attr in MUTATORS:
                out.append((n, n.func.value, '.{}()'.format(n.func.attr)))
        return out
