"""Property -> rules registry.  Entries are (rule function, ports); ports None = the rule handles ports itself.

quick  = every rule serving the property (each is sub-second; the skeleton and configuration spaces are always enumerated in full)
thorough = quick + cross-port agreement (XP) rules and the neighbouring rule groups the property's behaviour also rests on.
"""
from .rules import ag, agfold, conf, cs, gs, hd, ifc, lk, ow, pa, rd, rs, sk, wr, xp

BOTH = ('py', 'js')
PY = ('py',)
JS = ('js',)

COMMON_ASSUMPTIONS = [
    'parsers are trusted: python ast/symtable/re._parser, acorn bundled with node',
    'language semantics: slicing/concatenation allocate, sorted/Array.sort are stable, dict/Map keep insertion order, re.escape escapes every metacharacter',
    'user expressions, init code and user-supplied iterator/writer objects are opaque and do not mutate engine or source objects',
    'python-2 branches are not analysed (PY3 folded to True)',
    'holes (user fragments) do not contain the generator\'s own placeholders',
]


def both(*fns):
    return [(f, BOTH) for f in fns]


def py(*fns):
    return [(f, PY) for f in fns]


def js(*fns):
    return [(f, JS) for f in fns]


def one(*fns):
    return [(f, None) for f in fns]


SK_LOOP = both(sk.rule_sk_mainrun, sk.rule_sk_parse, sk.rule_sk_eof, sk.rule_sk_nr, sk.rule_sk_nf, sk.rule_sk_vars, sk.rule_sk_where)
SK_SELECT = both(sk.rule_sk_emit, sk.rule_sk_unnest, sk.rule_sk_unnest_pos, sk.rule_sk_join, sk.rule_sk_paren, sk.rule_sk_relay)
SK_UPDATE = both(sk.rule_sk_copy, sk.rule_sk_upd, sk.rule_sk_nu, sk.rule_sk_paren)
SK_ALL = SK_LOOP + SK_SELECT + SK_UPDATE + both(sk.rule_sk_stop, sk.rule_sk_err, sk.rule_sk_alias) + py(sk.rule_sk_scope)
WR_ALL = both(wr.rule_wr_ret, wr.rule_wr_prop, wr.rule_wr_fin, wr.rule_wr_top, wr.rule_wr_uniq, wr.rule_wr_ucnt, wr.rule_wr_sort, wr.rule_wr_aggw, wr.rule_wr_afterfwd, wr.rule_wr_freshrow)
CONF_ALL = both(conf.rule_pa_conf, conf.rule_wr_order, conf.rule_pa_excl, conf.rule_pa_hdrcall, conf.rule_hd_arity, conf.rule_pa_with, conf.rule_rs_proto)
AG_ALL = one(agfold.rule_ag_numparse_js) + both(ag.rule_ag_route, ag.rule_ag_init, ag.rule_ag_stage, ag.rule_ag_const, ag.rule_ag_sib, ag.rule_ag_starcount, ag.rule_ag_keyord, agfold.rule_ag_fold, agfold.rule_ag_median) + one(ag.rule_ag_mad, agfold.rule_ag_parse, agfold.rule_ag_numparse)
JN_ALL = both(ag.rule_jn_dispatch, ag.rule_jn_joiners, ag.rule_jn_build, ag.rule_pa_join)
HD_ALL = both(hd.rule_hd_table, hd.rule_hd_startwin, hd.rule_hd_except, hd.rule_hd_update, hd.rule_hd_emit, conf.rule_hd_countpos) + one(hd.rule_hd_shapes, hd.rule_hd_spantrim)
VA_ALL = both(hd.rule_va_index, hd.rule_va_enum, hd.rule_va_esc) + one(hd.rule_va_record)
PA_ALL = both(pa.rule_pa_case, pa.rule_pa_withcase, pa.rule_pa_groups, pa.rule_pa_litorder, pa.rule_pa_cleanorder, pa.rule_pa_lit, pa.rule_pa_litflow, pa.rule_pa_subst, pa.rule_pa_litcheck, pa.rule_pa_top, pa.rule_pa_zero, pa.rule_pa_asc, pa.rule_pa_redund, pa.rule_rx_guard)
CS_ALL = both(cs.rule_rx_field, cs.rule_rx_newline, cs.rule_rx_ws, cs.rule_cs_trigger, cs.rule_cs_accept, cs.rule_cs_width, cs.rule_cs_extws, cs.rule_cs_dispatch, cs.rule_cs_writer, cs.rule_cs_reader)
XP_ALL = one(xp.rule_rx_xp, xp.rule_xp_keywords, xp.rule_xp_roles, xp.rule_xp_messages, xp.rule_xp_verdicts, cs.rule_xp_trigger)
OW_ALL = both(ow.rule_ow_mut, ow.rule_ow_fresh, ow.rule_ow_selwrap, ow.rule_ow_open, ow.rule_ow_fs, ow.rule_ow_brecords) + one(ow.rule_ow_sql, ow.rule_ow_conn, ow.rule_ow_pandas)
RD_PY = one(rd.rule_rd_mustflow, rd.rule_rd_partition, rd.rule_rd_crla) + py(rd.rule_rd_decode, rd.rule_rd_eof, rd.rule_rd_bom, rd.rule_rd_comment, rd.rule_rd_rfc, rd.rule_rd_hdrflag, rd.rule_rd_replay, cs.rule_rx_newline)
RD_JS = one(rd.rule_rd_jschunk, rd.rule_rd_chunkstate) + js(rd.rule_rd_decode, rd.rule_rd_eof, rd.rule_rd_bom, rd.rule_rd_comment, rd.rule_rd_rfc, rd.rule_rd_hdrflag, rd.rule_rd_replay, cs.rule_rx_newline)
GS_ALL = one(gs.rule_gs_modstate, gs.rule_gs_classattr, gs.rule_gs_defaults, gs.rule_gs_ctxescape, gs.rule_gs_exec, gs.rule_gs_procstate, gs.rule_gs_debugflag)
LK_ALL = both(lk.rule_lk_taint, lk.rule_lk_map, lk.rule_lk_anchor, lk.rule_lk_part, lk.rule_lk_cache) + one(lk.rule_rx_jsesc)
RS_ALL = one(rs.rule_rs_close, rs.rule_rs_epipe, rs.rule_rs_decerr, rs.rule_rs_nullderef)
FL_ALL = both(rs.rule_fl_flags, rs.rule_fl_fields, rs.rule_fl_none_complete, rs.rule_fl_collect)
IF_ALL = one(ifc.rule_if_layer, ifc.rule_if_conf, ifc.rule_if_entry, ifc.rule_if_args, ifc.rule_if_joinopts, ifc.rule_if_df, ifc.rule_cl_stdout, ifc.rule_cl_exit, ifc.rule_cl_mode, ifc.rule_cl_presence, ifc.rule_cl_options, ifc.rule_if_eot, ifc.rule_cl_delim) + both(ifc.rule_if_regfresh, hd.rule_hd_emit, ifc.rule_if_varmap)


def only(rules, port):
    """restrict BOTH-port rules to one port"""
    out = []
    for f, ports in rules:
        if ports is None:
            out.append((f, ports))
        elif port in ports:
            out.append((f, (port,)))
    return out


PROPS = {
    'C01': {
        'rules': SK_LOOP + SK_SELECT + both(sk.rule_sk_stop, sk.rule_sk_err) + both(hd.rule_va_index, hd.rule_hd_startwin, hd.rule_hd_except, ow.rule_ow_fresh, ow.rule_ow_selwrap, pa.rule_pa_litflow, pa.rule_pa_subst) + both(pa.rule_pa_litorder) + one(ag.rule_ag_mad),
        'thorough_rules': both(sk.rule_sk_alias, wr.rule_wr_ret, wr.rule_wr_prop) + one(xp.rule_xp_verdicts),
        'explanation': 'Decides the loop structure of every generated SELECT program (all 16 select configurations per port, composed by partially evaluating the code generator from its own source): end-of-input test before NR, NR/NF definitions, variable initialisation dominating every user fragment and placed inside the join-match loop, WHERE control dependence, exactly one emission per evaluation selected by (aggregation stage, UNNEST), UNNEST reset on every cycle through the select fragment, join pairing order; plus aN/a[N] -> index N-1 with the safe_get guard, star/EXCEPT expansion as fresh lists. Text handling on the way into the program: structural matchers receive literal-free text (the extracted literal list counts as literal content), and every template-interpreting substitution (String.replace / re.sub) has a constant or functional replacement operand, so user text is never re-interpreted. max/min used as ordinary functions are told from aggregates by the argument count/type test (AG-MAD).',
        'not_decided': 'that the regex-based rewriting of an arbitrary select list preserves its meaning (comma structure inside nested brackets, AS inside expressions); values computed by user expressions.',
    },
    'C02': {
        'rules': WR_ALL + both(conf.rule_pa_conf, conf.rule_wr_order, conf.rule_pa_excl) + both(sk.rule_sk_stop, sk.rule_sk_relay, sk.rule_sk_unnest_pos, pa.rule_pa_top, pa.rule_pa_zero, pa.rule_pa_asc),
        'thorough_rules': both(sk.rule_sk_emit, conf.rule_rs_proto) + one(xp.rule_xp_verdicts, xp.rule_xp_roles),
        'explanation': 'Decides the composition sort -> dedup -> truncate on the exhaustive configuration table of the shallow parser (1024 keyword configurations): wrapping order Top, Uniq|UniqCount, Sorted and presence iff keyword; per writer: stable ascending sort on the key only with DESC = reversal of that result, first-occurrence dedup on the immutable record image, insertion-ordered multiplicity map with count prefix, TOP refusing iff NW >= N and counting forwarded records; termination: every write() returns a boolean, every downstream verdict is propagated, a false verdict sets stop_flag, the loop tests it and inner loops break. The sort dominates the emission (it cannot be skipped by a test that does not use the ORDER BY comparator) and every arrival is buffered exactly once. select_simple relays the writer\'s verdict; comparators do not use locale collation. A chain writer never reads a record again after forwarding it (output writers normalise the list in place), and a record emitted from a loop is bound anew in every iteration.',
        'not_decided': 'that user sort keys are mutually comparable; stability of sorted()/Array.sort (trusted language semantics).',
    },
    'C03': {
        'rules': AG_ALL + both(wr.rule_wr_aggw, wr.rule_wr_freshrow, sk.rule_sk_alias, sk.rule_sk_emit, conf.rule_pa_excl),
        'thorough_rules': both(sk.rule_sk_where, wr.rule_wr_prop) + one(xp.rule_xp_roles),
        'explanation': 'Decides routing and grouping: each aggregate entry point (and every alias spelling bound in the generated prologue) registers the aggregator class of the same name, COUNT passes 1, token ids equal registration order, stage 1 installs one aggregator or constant-group verifier per output column and feeds the first record, stage 2 increments aggregator i with value i, group keys are collected in a set and emitted in ascending component-wise order, one get_final per column; constant-group verifier raises on a differing value and tests absence by membership; lower-case min/max/sum dispatch; COUNT(*) rewrite; ORDER BY/UPDATE/DISTINCT rejected. rbql-js parse_number hands back only values tested with isNaN on that path. Python NumHandler.parse makes ints from the text itself (never via float, which is exact only up to 2**53) and reaches float(text) only behind the int attempt or the is_int flag. rbql-js parse_number rejects a value exactly when Number(val) is NaN (a gating pattern is tested on exponent / sign / leading-dot numerals); the aggregate row handed to the next writer is a fresh list per group.',
        'not_decided': 'floating-point rounding of the accumulators and the order of additions (AG-FOLD decides the fold expressions up to algebraic identity over the rationals, AG-MEDIAN the even/odd selection; bit-exact results are statements about runtime values).',
    },
    'C04': {
        'rules': JN_ALL + both(sk.rule_sk_join, sk.rule_sk_vars, sk.rule_sk_unnest, pa.rule_pa_groups, hd.rule_va_index) + both(sk.rule_sk_stop, sk.rule_sk_copy, sk.rule_sk_mainrun),
        'thorough_rules': both(sk.rule_sk_where, sk.rule_sk_emit, sk.rule_sk_unnest, sk.rule_sk_upd, sk.rule_sk_err) + one(xp.rule_xp_keywords, xp.rule_rx_xp),
        'explanation': 'Decides join pairing structure: longest join keyword wins, keyword -> joiner table total and name-consistent, B map appended in read order with 1-based bNR and (bNR, bNF, record) triples, build() before joiner construction, LEFT null record of max_record_len Nones, STRICT != 1 raises, A-side and B-side key representations switch on the same condition, ON accepts = and == in either operand order, NR keys -> index -1; in the generated program each A record is paired with get_rhs(key) matches in order and the whole select block (variables, WHERE, SELECT, sort/group key) is inside the match loop; UPDATE JOIN: >1 raises, 1 binds, 0 binds Nones and skips assignments. The ON-pair resolution is checked against a table of ways to write a pair (either order, record-number keys on either side) on path summaries; the B-side key functions are evaluated on the index classes {-1, inside, outside the record}; the JS join table is a Map; the stop flag of the main loop starts out False.',
        'not_decided': 'equality of key values (hashing of user data) - trusted to dict/Map semantics.',
    },
    'C05': {
        'rules': SK_LOOP + SK_UPDATE + both(sk.rule_sk_join, sk.rule_sk_err, sk.rule_sk_stop, hd.rule_va_index, ow.rule_ow_mut, pa.rule_pa_litflow, pa.rule_pa_subst),
        'thorough_rules': both(hd.rule_hd_update, conf.rule_pa_excl, ow.rule_ow_fresh) + one(xp.rule_rx_xp),
        'explanation': 'Decides the UPDATE programs (4 configurations per port): up_fields is a fresh copy of record_a made each iteration before assignments and write; variables are bound from the original record before any assignment (so right-hand sides see original values); exactly one writer.write(up_fields) per input record on every normal path, not control-dependent on WHERE; NU += 1 under the same guard immediately before the assignments; generated assignments are safe_set(up_fields, index, value) whose out-of-range store raises the bad-field error that the per-record handler reports with the record number. Literal-free matching and literal substitution as for C01.',
        'not_decided': 'splitting of an arbitrary assignment list by the assignment regex (a statement about all strings).',
    },
    'C06': {
        'rules': OW_ALL + both(sk.rule_sk_copy),
        'thorough_rules': both(sk.rule_sk_upd, hd.rule_hd_startwin, hd.rule_hd_except) + one(ifc.rule_if_conf),
        'explanation': 'Decides non-destructiveness as an ownership property: an interprocedural value-origin analysis over the library modules and all composed skeletons shows that no in-place modification site can receive a source object (result of get_record()/get_header() or a declared input parameter), that every record handed to a writer is freshly allocated (so output never aliases input and writers that normalise in place are safe), and that headers reaching a header-modifying set_header are not the caller\'s; files are opened for writing only through output_path; no destructive file-system call; sqlite only ever receives SELECT with identifiers validated by an anchored pattern whose language is within [A-Za-z0-9_]* (regex inclusion by automata); the dataframe is accessed through a read-only API and rows leave as fresh lists. The sqlite connection is the caller\'s: the adapter only creates cursors on it (no commit/rollback/close, no `with connection:`). The code generator embeds the stored select fragment verbatim. select_except allocates every list it returns (no fast path may hand the record back).',
        'not_decided': 'effects of user expressions themselves (assumed not to mutate; cells are immutable strings).',
    },
    'C07': {
        'rules': HD_ALL + both(conf.rule_hd_arity, conf.rule_pa_hdrcall, conf.rule_pa_conf, ow.rule_ow_mut, pa.rule_rx_guard),
        'thorough_rules': both(sk.rule_sk_copy, pa.rule_pa_case) + one(xp.rule_xp_verdicts),
        'explanation': 'Decides header/record arity agreement and the naming table: in every parser configuration the arity delta of the installed writers (DISTINCT COUNT: +1) is applied to the header before set_header; set_header is called exactly once on the unwrapped sink with nothing that can raise afterwards; UPDATE hands the unchanged input header; EXCEPT header and records use select_except with the same indices; naming decision table total and ordered (unnamed -> colK by output position, star forms, column name, alias, in-range index -> source name); subscript shapes of this interpreter\'s ast are covered; the two star-rewriting patterns agree; no input header and no alias -> no header. The CSV writer emits the header at once, or - if deferred - on every normal path through finish(); the width test dominates every stream write. The naming table is decided by evaluating the per-column code (inline or in a helper) on all 257 abstract column infos. select_output_header is also evaluated as a whole on abstract select lists (every kind of column info, indices inside / outside the header of their own table, an empty header name, no header with / without aliases).',
        'not_decided': 'that the header-side parse (python ast / JS bracket scanner) and the record-side evaluation of an arbitrary select list agree on the number of items.',
    },
    'C08': {
        'rules': PA_ALL + both(ag.rule_jn_dispatch, ag.rule_pa_join, hd.rule_va_index),
        'thorough_rules': both(conf.rule_pa_conf, conf.rule_pa_excl) + one(xp.rule_rx_xp, xp.rule_xp_keywords),
        'explanation': 'Decides spelling invariance structurally: every keyword-matching pattern of the parser is case-insensitive (flag, inline flag or per-letter classes; alternations of fixed casings are recognised as not case-insensitive), the WITH modifier is captured in any case and lower-cased, statement groups order longer keywords first and location is position-sorted (clause order free), cleanup acts on whole lines / the final semicolon only, tabs are rewritten only after literal extraction, structural matchers receive literal-free text and every stored fragment has its literals re-inserted, TOP/LIMIT/ASC/DESC/FROM a/UPDATE a SET/= vs == handling; a taint analysis shows which functions receive raw query text and flags every raise that depends on it. Marker numbering (marker i <-> literal i, whole literal stored) and comment/empty-line handling are decided on the dataflow of separate/combine/cleanup, find_top on its path summaries (LIMIT present -> its integer, absent -> TOP; never chosen by truthiness).',
        'not_decided': 'the exact language of Python/JS string literals accepted by the literal regex.',
    },
    'C09': {
        'rules': VA_ALL + both(rd.rule_rd_hdrflag, rd.rule_rd_replay, conf.rule_pa_with, sk.rule_sk_nr, pa.rule_pa_withcase, pa.rule_pa_subst, ifc.rule_if_varmap) + one(ifc.rule_if_joinopts),
        'thorough_rules': both(sk.rule_sk_eof, sk.rule_sk_vars) + one(xp.rule_rx_xp),
        'explanation': 'Decides variable binding structure: name -> index maps are built from header positions, a.name / a["name"] / direct names store that position, the escape function doubles backslashes first and covers quote/LF/CR with the same quote character as the generated key text, the candidate filter only searches for segments the escape leaves unchanged; header line replay flag is always the negation of has_header, WITH (header/noheader) reaches both iterators before their variable maps are built; NR is counted by the engine loop. Column names are substituted into generated text only through literal (non template-interpreting) operations. Join tables are read with the same reading options (delimiter, policy, encoding, header flag, comment prefix) as the input table. Every iterator registers the name-based variables on every path on which column names are present, whatever else holds (IF-VARMAP).',
        'not_decided': 'completeness of the candidate filter for spellings of a name other than the canonical escaped one.',
    },
    'C10': {
        'rules': both(cs.rule_cs_trigger, cs.rule_cs_dispatch, cs.rule_cs_width, cs.rule_cs_writer, cs.rule_rx_field, rs.rule_fl_flags, rs.rule_fl_none_complete, rd.rule_rd_bom) + one(rd.rule_rd_jschunk) + both(cs.rule_rx_ws, cs.rule_cs_reader),
        'thorough_rules': both(cs.rule_cs_accept, cs.rule_cs_extws, cs.rule_rx_newline) + one(xp.rule_rx_xp),
        'explanation': 'Decides necessary conditions of the round trip (stated as such): the characters that trigger quoting include every character the reader treats specially under the same policy, inner quotes are doubled (globally) and the field enclosed, reader/writer dispatch tables are total over the five policies and pair matching split/join, delimiter comparisons and position steps use the delimiter length, one separator per record, and lossy output (None, delimiter in simple output) always sets its warning flag which get_warnings reports. On every path of CSVWriter.write() that writes a record line while the separator check is switched on, the check ran. The CSV reader\'s records come from smart_split(line, own delimiter, own policy) and no part of the CSV layer splits on generic whitespace.',
        'not_decided': 'equality of the table read back for any table (a round-trip statement over all strings); encoding behaviour of io.TextIOWrapper.',
    },
    'C11': {
        'rules': CS_ALL,
        'thorough_rules': one(xp.rule_rx_xp),
        'explanation': 'Decides the dialect pieces exactly where they are regular or structural: the quoted-field regex denotes exactly "([^"]|"")*" (DFA equivalence), greedy, group 1 = content; acceptance iff end of line or delimiter follows, otherwise the field runs to the next delimiter with the warning set; unquoted fields warn iff they contain a quote; external spaces iff delimiter is not a space; trailing delimiter -> final empty field; fast path only without quotes; whitespace regexes; policy dispatch; warning accumulation by OR. An unquoted field is delimited by the next delimiter searched from the field start. The reader dispatch table is obtained by evaluating smart_split per policy name (if chains, switch, membership tests alike); the CSV reader splits with smart_split only.',
        'not_decided': 'conformance of the composed splitter on every line (a transducer-equivalence argument outside this family).',
    },
    'C12': {
        'rules': RD_PY,
        'thorough_rules': py(cs.rule_cs_dispatch, rs.rule_fl_flags) + one(rs.rule_rs_decerr),
        'explanation': 'Decides, on a bounded family, that chunking does not matter to the Python reader: get_row_simple, get_row_rfc and get_record (with a comment prefix) are evaluated by the abstract interpreter of DESIGN 3.6 on every text of at most 4 (thorough: 5) characters over {letter, LF, CR} / {letter, quote, LF, CR} / {letter, #, LF}, delivered 1, 2 or 3 characters per read (read(1) look-aheads honoured), and on lines longer than every integer constant in the reader; the rows / records must be the lines of the text (LF, CR, CRLF each one break; quoted_rfc grouping by quote parity; comment lines skipped), NL must count the physical lines, None must repeat at the end, and the nesting of calls must not grow with the number of reads. When the reader is outside the interpreter the older statement-level rules apply (every chunk read reaches the buffer; buffer stores are append / remainder of the partition / emptying after return; one-character look-ahead after a trailing CR) and report UNDECIDED for layouts they do not know. Further: bytes are decoded only by an incremental strict decoder; chunk_size occurs only as the read size; non-empty remainder at EOF is a row; BOM removal on the first physical line with the flag; comment lines skipped before the record counter; quoted_rfc continuation by quote parity; newline language {CRLF, CR, LF} with CRLF first. quoted_rfc record assembly is decided by exploring every sequence of up to four abstract line reads (end of input / even / odd number of quotes; comment or not) of get_row_rfc: which lines are consumed and what is returned.',
        'not_decided': 'equality of results over all partitions of inputs beyond the bound (a statement about schedules x strings); the bounded family is exhaustive only up to its bound.',
    },
    'C13': {
        'rules': IF_ALL + one(ow.rule_ow_pandas) + py(rd.rule_rd_comment),
        'thorough_rules': both(conf.rule_rs_proto) + py(cs.rule_cs_dispatch),
        'explanation': 'Decides that the engine cannot tell adapters apart and the CLI channel discipline: the engine imports no adapter and never inspects an adapter type; every adapter implements the interface with the engine\'s arity and hands the engine lists; every entry point delegates the unchanged query to rbql_engine.query; on the non-interactive path nothing but --version prints to stdout, errors are `Error [type]: msg` and warnings `Warning: msg` on stderr, every failure ends in sys.exit(1), success falls off main; error type map and out-format/default-policy tables. An option to which the CLI assigns a falsy legal value is tested by presence only; every registry returns an iterator constructed by that call; the runner maps any exception to show_error + False and success to True (path summaries, helper followed); the CSV header is emitted on every path. Every iterator\'s get_variables_map registers positional variables always and name-based ones whenever column names are present and on nothing else (an empty table, a record count), so a query binds the same way through every front end; comment-prefix handling of the CSV reader (empty prefix = none). Every args.<name> read on the path from an entry point is declared by that entry point\'s parser (calls followed with constant arguments); option-or-default selections take the option when present; a runner reports success only after running the query; every result frame of the pandas writer carries the header. All iterators write bare column names and positional variables into the variable map in the same order.',
        'not_decided': 'equality of results across back-ends (depends on pandas/sqlite value conversion).',
    },
    'C14': {
        'rules': both(sk.rule_sk_err, sk.rule_sk_nr, conf.rule_pa_hdrcall, conf.rule_pa_excl, hd.rule_va_index, rd.rule_rd_bom, agfold.rule_ag_fold) + one(agfold.rule_ag_parse) + FL_ALL + one(rs.rule_rs_decerr, ifc.rule_cl_exit, ifc.rule_if_errclass) + both(ifc.rule_if_finishpath) + js(rd.rule_rd_decode) + both(rd.rule_rd_comment),
        'thorough_rules': both(sk.rule_sk_eof, rd.rule_rd_bom, cs.rule_cs_accept, ag.rule_ag_const),
        'explanation': 'Decides error/warning structure: one try covers every user fragment in every generated program; handlers never fall through (first offending record ends the query); bad field -> runtime error with index+1 and NR, bad key with the key and NR, parsing errors re-raised unchanged, anything else -> runtime error with NR; text-detectable conflicts raise the parsing class before the header is handed over and nothing can raise after it; decode faults map to the IO class; each warning flag has one neutral initialisation, set-sites only under its condition and one guarding read in get_warnings; field-count warning records the first record per count and cites the two smallest. Non-numeric aggregate arguments raise at their record: parse_number never returns an untested value. Comment lines never reach the record counter; JS bulk decoding through a streaming decoder must be flushed in the same function. query() collects the warnings of iterator, join table and writer on every normal path (the writer\'s after finish); the next input record is fetched outside the per-record try.',
        'not_decided': '"iff the condition occurred" for conditions defined over string contents (e.g. exactness of the delimiter-count heuristic).',
    },
    'C15': {
        'rules': RS_ALL + py(wr.rule_wr_ret, wr.rule_wr_prop, wr.rule_wr_fin, sk.rule_sk_stop, sk.rule_sk_relay, sk.rule_sk_unnest_pos, sk.rule_sk_err, conf.rule_rs_proto, conf.rule_pa_hdrcall),
        'thorough_rules': py(rs.rule_fl_flags, rd.rule_rd_decode) + js(sk.rule_sk_err),
        'explanation': 'Decides fault handling structure (Python): the broken-pipe handler covers every stream write, sets the flag and returns False, finish() is a no-op afterwards; the False propagates through every chain writer to stop_flag and the loops; every stream.read is reachable only through the try that maps UnicodeDecodeError to the IO error; every open() in the CSV/sqlite front-ends is closed on all paths (with / flag-coupled try-finally / object closed in the creator\'s finally); protocol: parser calls only set_header (once, unwrapped, first), the run only write, query() calls finish exactly once after a successful run, not in a finally. In the broken-pipe handlers a re-raise is possible only under a test that is false when the caught class is BrokenPipeError itself; no path that leaves a chain writer\'s finish() exceptionally has finished the sink. File handles: opened into a local and flagged at once inside try/finally, or stored on the object before anything that can raise runs. select_simple returns false exactly when the writer refused and writes once per call. A fresh file handle is never passed straight into a call that can fail.',
        'not_decided': 'OS-level behaviour of pipes and the text wrapper\'s flushing.',
    },
    'C16': {
        'rules': GS_ALL + py(sk.rule_sk_scope, lk.rule_lk_cache, ow.rule_ow_mut, ow.rule_ow_open, ow.rule_ow_conn) + one(hd.rule_va_record) + py(ifc.rule_if_regfresh),
        'thorough_rules': py(sk.rule_sk_alias),
        'explanation': 'Decides isolation as absence of shared mutable state (hence independence of every schedule and history): inventory of module-level bindings with every mutable one never the receiver of a mutating operation; `global` writes allow-listed (two debug flags); no class-level mutable attribute, no mutable default; the per-query context is created per call, only passed down or captured by per-run closures; exec receives explicit globals and a per-call locals mapping and runs the composed skeleton whose every binding is local to the wrapper function; the LIKE cache lives in the context. Module-level tables filled only as pure memos (value computed from the key alone by side-effect free operations) are accepted; module-level instances of classes whose methods change them are shared state; registries hand out fresh iterators. The sqlite adapter sets no attribute of the connection, which belongs to the caller.',
        'not_decided': 'stdlib-internal caches (re) and whatever user expressions touch; the JavaScript module-global query_context is outside this property\'s anchors and reported only as evidence.',
    },
    'C17': {
        'rules': LK_ALL,
        'thorough_rules': one(xp.rule_xp_roles),
        'explanation': 'Decides the LIKE translation: every piece of the pattern appended to the result passes through the escape function (only the constants ., .*, ^, $ bypass it); exactly _ and % are special and map to . and .*; the scan advances by one unconditionally, flushes [p,i) at a wildcard, resets p = i+1 and flushes the tail; the result is ^...$, compiled without flags, matched against the whole text and turned into a boolean; rbql-js: the escape class contains every ECMAScript SyntaxCharacter (checked on the regex language), global flag, replacement \\$&. The matcher applied is the one obtained for this call\'s pattern (a matcher remembered between calls must be replaced whenever the remembered pattern is).',
        'not_decided': 'nothing further for single-line texts once re.escape / RegExp semantics are trusted (`.` and `$` treat LF specially - outside the quantifier).',
    },
    'C18': {
        'rules': XP_ALL + both(cs.rule_rx_field, cs.rule_rx_ws, cs.rule_rx_newline, cs.rule_cs_trigger, cs.rule_cs_accept, cs.rule_cs_width, cs.rule_cs_extws, cs.rule_cs_dispatch, cs.rule_cs_reader, hd.rule_hd_table, rd.rule_rd_bom) + one(rd.rule_rd_jschunk) + both(conf.rule_hd_countpos) + js(ow.rule_ow_mut),
        'thorough_rules': both(rd.rule_rd_bom, rd.rule_rd_comment, rd.rule_rd_rfc, rs.rule_fl_flags, rs.rule_fl_fields, cs.rule_rx_newline, cs.rule_rx_ws),
        'explanation': 'Decides agreement of canonical facts extracted independently from each port: 27 paired regexes language-equal (or allow-listed with reason), both quoted-field regexes equal to the reference language, same quote trigger sets, same acceptance rule and delimiter-width handling, same policy dispatch, same statement keywords and groups (FROM only in Python), same reader warning and IO error message templates, same header naming decision table; both ports are held to the same rule for BOM/comment/RFC handling. Both ports leave a field unquoted under the same set of absent characters (delimiter as a substring, not character by character).',
        'not_decided': 'header inference on arbitrary select lists (python ast vs JS text spans are different algorithms); behavioural equality of the two reader architectures.',
    },
    'C19': {
        'rules': only(SK_ALL, 'js') + only(WR_ALL, 'js') + only(CONF_ALL, 'js') + only(AG_ALL, 'js') + only(JN_ALL, 'js') + only(HD_ALL, 'js') + js(ow.rule_ow_mut, ow.rule_ow_fresh, ow.rule_ow_selwrap, pa.rule_pa_subst, pa.rule_pa_litflow, ifc.rule_if_finishpath) + one(xp.rule_xp_verdicts, xp.rule_xp_roles) + only(LK_ALL, 'js'),
        'thorough_rules': only(PA_ALL, 'js') + only(VA_ALL, 'js') + one(xp.rule_rx_xp, xp.rule_xp_keywords),
        'explanation': 'Applies to rbql.js every rule that defines the reference semantics of C01-C05 and C07 (same rule = same semantics): all skeleton rules on the 20 composed JS programs, writer chain, configuration table, aggregates, joins, header rules, and the ownership analysis for the caller\'s arrays; plus cross-port agreement of parser outcomes and class sets.',
        'not_decided': 'meaning of user expressions in two languages.',
    },
    'C20': {
        'rules': RD_JS,
        'thorough_rules': js(rs.rule_fl_flags, rs.rule_fl_fields, cs.rule_cs_dispatch) + one(xp.rule_xp_messages),
        'explanation': 'Decides the chunk pipeline of the JS stream reader: bytes decoded only by one TextDecoder created fatal and ignoreBOM, every chunk decoded with {stream: true}, decoder flushed at end of stream, decode failures mapped to the IO error; the carried partial line is prepended to the first line of the next chunk and the last line kept, every complete line processed once in order; a chunk starting with LF right after a chunk ending in CR skips the empty first line, the ends-with-CR flag recomputed per chunk after use; end of stream flushes the partial line and an unfinished multi-line record; multi-line aggregation by quote parity; FIFO record queue. In bulk mode the test that rejects input compares against the raw bytes (the decoded text alone cannot tell a substituted U+FFFD from a genuine one). What the chunk handler stores about a chunk is read only by itself, the end-of-stream handler and the constructor; bulk mode drops exactly one final line break.',
        'not_decided': 'equality over all byte partitions.',
    },
}
