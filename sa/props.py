"""Property -> rules registry.  (rule function, ports) ; ports None = rule handles ports itself."""
from .rules import sk

BOTH = ('py', 'js')
PY = ('py',)
JS = ('js',)

COMMON_ASSUMPTIONS = [
    'parsers are trusted: python ast/symtable/re._parser, acorn bundled with node',
    'language semantics: slicing/concatenation allocate, sorted/Array.sort are stable, dict/Map keep insertion order',
    'user expressions, init code and user-supplied iterator/writer objects are opaque and do not mutate engine or source objects',
    'python-2 branches are not analysed (PY3 folded to True)',
]

SK_CORE = [(sk.rule_sk_parse, BOTH), (sk.rule_sk_eof, BOTH), (sk.rule_sk_nr, BOTH), (sk.rule_sk_nf, BOTH), (sk.rule_sk_vars, BOTH), (sk.rule_sk_where, BOTH)]

PROPS = {
    'C01': {
        'rules': SK_CORE + [(sk.rule_sk_emit, BOTH), (sk.rule_sk_unnest, BOTH), (sk.rule_sk_join, BOTH), (sk.rule_sk_stop, BOTH), (sk.rule_sk_copy, BOTH), (sk.rule_sk_upd, BOTH), (sk.rule_sk_nu, BOTH), (sk.rule_sk_err, BOTH), (sk.rule_sk_alias, BOTH), (sk.rule_sk_scope, PY)],
        'explanation': 'x',
        'not_decided': 'y',
    },
}
