"""Property -> rules registry.  (rule function, ports) ; ports None = rule handles ports itself."""
from .rules import sk, wr, conf, lk, cs, ow, gs, rd, rs, ag, hd, pa, ifc

BOTH = ('py', 'js')
PY = ('py',)
JS = ('js',)

COMMON_ASSUMPTIONS = [
    'parsers are trusted: python ast/symtable/re._parser, acorn bundled with node',
    'language semantics: slicing/concatenation allocate, sorted/Array.sort are stable, dict/Map keep insertion order',
    'user expressions, init code and user-supplied iterator/writer objects are opaque and do not mutate engine or source objects',
    'python-2 branches are not analysed (PY3 folded to True)',
]

SK_CORE = [(sk.rule_sk_parse, BOTH), (sk.rule_sk_eof, BOTH), (sk.rule_sk_nr, BOTH), (sk.rule_sk_nf, BOTH), (sk.rule_sk_vars, BOTH), (sk.rule_sk_where, BOTH)]

PROPS = {
    'C02': {
        'rules': [(wr.rule_wr_ret, BOTH), (wr.rule_wr_prop, BOTH), (wr.rule_wr_fin, BOTH), (wr.rule_wr_top, BOTH), (wr.rule_wr_uniq, BOTH), (wr.rule_wr_ucnt, BOTH), (wr.rule_wr_sort, BOTH), (wr.rule_wr_aggw, BOTH),
                  (conf.rule_pa_conf, BOTH), (conf.rule_wr_order, BOTH), (conf.rule_pa_excl, BOTH), (conf.rule_pa_hdrcall, BOTH), (conf.rule_hd_arity, BOTH), (conf.rule_pa_with, BOTH), (conf.rule_rs_proto, BOTH)],
        'explanation': 'x',
        'not_decided': 'y',
    },
    'C17': {
        'rules': [(lk.rule_lk_taint, BOTH), (lk.rule_lk_map, BOTH), (lk.rule_lk_anchor, BOTH), (lk.rule_lk_part, BOTH), (lk.rule_lk_cache, BOTH), (lk.rule_rx_jsesc, None)],
        'explanation': 'x',
        'not_decided': 'y',
    },
    'C11': {
        'rules': [(cs.rule_rx_field, BOTH), (cs.rule_rx_newline, BOTH), (cs.rule_rx_ws, BOTH), (cs.rule_cs_trigger, BOTH), (cs.rule_cs_accept, BOTH), (cs.rule_cs_width, BOTH), (cs.rule_cs_extws, BOTH), (cs.rule_cs_dispatch, BOTH), (cs.rule_cs_writer, BOTH)],
        'explanation': 'x',
        'not_decided': 'y',
    },
    'C06': {
        'rules': [(ow.rule_ow_mut, BOTH), (ow.rule_ow_fresh, BOTH), (ow.rule_ow_open, BOTH), (ow.rule_ow_fs, BOTH), (ow.rule_ow_sql, None), (ow.rule_ow_pandas, None)],
        'explanation': 'x',
        'not_decided': 'y',
    },
    'C16': {
        'rules': [(gs.rule_gs_modstate, None), (gs.rule_gs_classattr, None), (gs.rule_gs_defaults, None), (gs.rule_gs_ctxescape, None), (gs.rule_gs_exec, None)],
        'explanation': 'x',
        'not_decided': 'y',
    },
    'C12': {
        'rules': [(rd.rule_rd_mustflow, None), (rd.rule_rd_partition, None), (rd.rule_rd_crla, None), (rd.rule_rd_decode, PY), (rd.rule_rd_eof, PY), (rd.rule_rd_bom, PY), (rd.rule_rd_comment, PY), (rd.rule_rd_rfc, PY), (rd.rule_rd_hdrflag, PY), (rd.rule_rd_replay, PY), (cs.rule_rx_newline, PY)],
        'explanation': 'x',
        'not_decided': 'y',
    },
    'C20': {
        'rules': [(rd.rule_rd_jschunk, None), (rd.rule_rd_decode, JS), (rd.rule_rd_eof, JS), (rd.rule_rd_bom, JS), (rd.rule_rd_comment, JS), (rd.rule_rd_rfc, JS), (rd.rule_rd_hdrflag, JS), (rd.rule_rd_replay, JS), (cs.rule_rx_newline, JS)],
        'explanation': 'x',
        'not_decided': 'y',
    },
    'C15': {
        'rules': [(rs.rule_rs_close, None), (rs.rule_rs_epipe, None), (rs.rule_rs_decerr, None), (rs.rule_fl_flags, BOTH), (rs.rule_fl_fields, BOTH)],
        'explanation': 'x',
        'not_decided': 'y',
    },
    'C03': {
        'rules': [(ag.rule_ag_route, BOTH), (ag.rule_ag_init, BOTH), (ag.rule_ag_stage, BOTH), (ag.rule_ag_const, BOTH), (ag.rule_ag_sib, BOTH), (ag.rule_ag_mad, None), (ag.rule_ag_starcount, BOTH), (ag.rule_ag_keyord, BOTH)],
        'explanation': 'x',
        'not_decided': 'y',
    },
    'C04': {
        'rules': [(ag.rule_jn_dispatch, BOTH), (ag.rule_jn_joiners, BOTH), (ag.rule_jn_build, BOTH), (ag.rule_pa_join, BOTH)],
        'explanation': 'x',
        'not_decided': 'y',
    },
    'C07': {
        'rules': [(hd.rule_hd_table, BOTH), (hd.rule_hd_shapes, None), (hd.rule_hd_startwin, BOTH), (hd.rule_hd_except, BOTH), (hd.rule_hd_update, BOTH)],
        'explanation': 'x',
        'not_decided': 'y',
    },
    'C09': {
        'rules': [(hd.rule_va_index, BOTH), (hd.rule_va_enum, BOTH), (hd.rule_va_esc, BOTH), (hd.rule_va_record, None)],
        'explanation': 'x',
        'not_decided': 'y',
    },
    'C08': {
        'rules': [(pa.rule_pa_case, BOTH), (pa.rule_pa_withcase, BOTH), (pa.rule_pa_groups, BOTH), (pa.rule_pa_litorder, BOTH), (pa.rule_pa_lit, BOTH), (pa.rule_pa_top, BOTH), (pa.rule_pa_asc, BOTH), (pa.rule_pa_redund, BOTH)],
        'explanation': 'x',
        'not_decided': 'y',
    },
    'C13': {
        'rules': [(ifc.rule_if_layer, None), (ifc.rule_if_conf, None), (ifc.rule_if_entry, None), (ifc.rule_cl_stdout, None), (ifc.rule_cl_exit, None)],
        'explanation': 'x',
        'not_decided': 'y',
    },
    'C01': {
        'rules': SK_CORE + [(sk.rule_sk_emit, BOTH), (sk.rule_sk_unnest, BOTH), (sk.rule_sk_join, BOTH), (sk.rule_sk_stop, BOTH), (sk.rule_sk_copy, BOTH), (sk.rule_sk_upd, BOTH), (sk.rule_sk_nu, BOTH), (sk.rule_sk_err, BOTH), (sk.rule_sk_alias, BOTH), (sk.rule_sk_scope, PY)],
        'explanation': 'x',
        'not_decided': 'y',
    },
}
