"""Undoing "extract function" refactorings.

The rule tables describe what the repository's functions do *with the helper structure they have today*.  When a maintainer moves a
piece of such a function into a new helper (function, method or nested function), the behaviour is unchanged but the shape a rule
looks for is gone.  Instead of teaching every rule to look through calls, the loader inlines helpers that are **new with respect
to the reference inventory** (sa/alpha_ref.json lists every function of the tree the tables were written against): each call of a
new helper inside another function is replaced, in the analysed copy only, by the helper's body with parameters substituted.

 * expression level: a loop-free helper made of local assignments, if/else and returns is an expression
   (`if c: return a` ... `return b`  ==  `a if c else b`), so its call can be replaced wherever it occurs;
 * statement level: `x = h(..)`, `x op= h(..)`, `h(..)`, `return h(..)`, `y.m(h(..))` for helpers that also raise or perform
   effects; returns become assignments in an if/else chain (helpers returning from inside loops or try blocks are left alone).

Functions that exist in the reference are never inlined, so the reference tree itself is analysed as written.  The inlined copy
is only analysed, never executed: duplicated argument expressions are harmless.  What was inlined is listed in the evidence."""
import ast

from .snippet import _fcopy

MAX_DEPTH = 3


class _Sub(ast.NodeTransformer):
    def __init__(self, env):
        self.env = env

    def visit_Name(self, node):
        if node.id in self.env:
            if isinstance(node.ctx, ast.Load):
                return _fcopy(self.env[node.id])
            if isinstance(self.env[node.id], ast.Name):
                return ast.Name(id=self.env[node.id].id, ctx=node.ctx)
        return node


class _Beta(ast.NodeTransformer):
    """(lambda x: body)(arg)  ->  body[x := arg]   (arises when a callback parameter is substituted by the lambda passed for it)"""

    def visit_Call(self, node):
        self.generic_visit(node)
        f = node.func
        if isinstance(f, ast.Lambda) and not node.keywords and len(node.args) == len(f.args.args) and not f.args.vararg and not f.args.kwarg:
            env = {a.arg: arg for a, arg in zip(f.args.args, node.args)}
            return ast.copy_location(_Sub(env).visit(_fcopy(f.body)), node)
        return node


class _FoldConst(ast.NodeTransformer):
    """conditionals decided by a constant that was substituted for a parameter keep only the arm that is taken"""

    def visit_IfExp(self, node):
        self.generic_visit(node)
        if isinstance(node.test, ast.Constant) and isinstance(node.test.value, bool):
            return node.body if node.test.value else node.orelse
        return node

    def visit_If(self, node):
        self.generic_visit(node)
        if isinstance(node.test, ast.Constant) and isinstance(node.test.value, bool):
            res = node.body if node.test.value else node.orelse
            return res if res else ast.Pass()
        return node

    def visit_UnaryOp(self, node):
        self.generic_visit(node)
        if isinstance(node.op, ast.Not) and isinstance(node.operand, ast.Constant) and isinstance(node.operand.value, bool):
            return ast.copy_location(ast.Constant(value=not node.operand.value), node)
        return node


def _subst(node, env):
    res = _FoldConst().visit(_Beta().visit(_Sub(env).visit(_fcopy(node))))
    return res


def _flat(items):
    out = []
    for it in items:
        if isinstance(it, list):
            out.extend(it)
        else:
            out.append(it)
    return out


def _has(node_or_list, types):
    nodes = node_or_list if isinstance(node_or_list, list) else [node_or_list]
    for n in nodes:
        for x in ast.walk(n):
            if isinstance(x, types) and not (x is n and isinstance(n, (ast.FunctionDef, ast.Lambda))):
                return True
    return False


def _final_loop_with_returns(fd):
    """the helper ends in one loop (`while True:` / `for`) whose returns are not inside a further loop or try: returns can become
    `target = value; break`"""
    body = [s for s in fd.body if not (isinstance(s, ast.Expr) and isinstance(s.value, ast.Constant))]
    if not body or not isinstance(body[-1], (ast.While, ast.For)):
        return None
    lp = body[-1]
    if isinstance(lp, ast.While) and not (isinstance(lp.test, ast.Constant) and lp.test.value is True):
        return None
    if isinstance(lp, ast.For):
        return None
    for s_ in body[:-1]:
        if any(isinstance(x, ast.Return) for x in ast.walk(s_)) and isinstance(s_, (ast.For, ast.While, ast.Try, ast.With)):
            return None
    for x in ast.walk(lp):
        if x is not lp and isinstance(x, (ast.For, ast.While, ast.Try, ast.With)) and any(isinstance(y, ast.Return) for y in ast.walk(x)):
            return None
    return lp


def _returns_in_loops_or_try(fd):
    lp = _final_loop_with_returns(fd)
    for n in ast.walk(fd):
        if n is lp:
            continue
        if isinstance(n, (ast.For, ast.While, ast.Try, ast.With)) and any(isinstance(x, ast.Return) for x in ast.walk(n)):
            return True
    return False


class _RetToBreak(ast.NodeTransformer):
    def __init__(self, target):
        self.target = target

    def visit_FunctionDef(self, node):
        return node

    def visit_Return(self, node):
        out = []
        if self.target is not None:
            out.append(ast.Assign(targets=[_fcopy(self.target)], value=node.value if node.value is not None else ast.Constant(value=None)))
        elif node.value is not None and _has(node.value, ast.Call):
            out.append(ast.Expr(value=node.value))
        out.append(ast.Break())
        return out


def _locals_of(fd):
    out = set()
    for n in ast.walk(fd):
        if isinstance(n, ast.Name) and isinstance(n.ctx, (ast.Store, ast.Del)):
            out.add(n.id)
        if isinstance(n, ast.ExceptHandler) and n.name:
            out.add(n.name)
    return out


def _param_env(fd, call, is_method, counter, keep=()):
    """parameter -> argument expression (defaults for missing ones); None when the call shape is not simple"""
    params = [a.arg for a in fd.args.args]
    if is_method and params and params[0] == 'self':
        params = params[1:]
    if fd.args.vararg or fd.args.kwarg or fd.args.kwonlyargs:
        return None
    if any(isinstance(a, ast.Starred) for a in call.args) or len(call.args) > len(params):
        return None
    env = {}
    for p, a in zip(params, call.args):
        env[p] = a
    for k in call.keywords:
        if k.arg is None or k.arg not in params or k.arg in env:
            return None
        env[k.arg] = k.value
    defaults = fd.args.defaults
    for p, d in zip(params[len(params) - len(defaults):], defaults):
        env.setdefault(p, d)
    if set(params) - set(env):
        return None
    # helper locals get fresh names
    assigned = _locals_of(fd)
    pre = []
    for loc in sorted(assigned):
        # helper locals keep their spelling (extracted code usually keeps the names it had in the caller) unless the caller
        # binds the same name elsewhere
        fresh = ast.Name(id=loc if loc in keep else '__h{}_{}'.format(counter, loc), ctx=ast.Load())
        if loc in env:
            # a parameter that the helper rebinds: it becomes a local copy initialised from the argument
            pre.append(ast.Assign(targets=[ast.Name(id=fresh.id, ctx=ast.Store())], value=env[loc]))
        env[loc] = fresh
    env['__pre__'] = pre
    return env


def _as_expression(stmts, env_locals):
    """loop-free `assign / if / return` body as one expression; None if it is not of that form"""
    if not stmts:
        return ast.Constant(value=None)
    st, rest = stmts[0], stmts[1:]
    if isinstance(st, ast.Return):
        return _Sub(env_locals).visit(_fcopy(st.value)) if st.value is not None else ast.Constant(value=None)
    if isinstance(st, ast.Assign) and len(st.targets) == 1 and isinstance(st.targets[0], ast.Name):
        e2 = dict(env_locals)
        e2[st.targets[0].id] = _Sub(env_locals).visit(_fcopy(st.value))
        return _as_expression(rest, e2)
    if isinstance(st, ast.If):
        a = _as_expression(st.body + rest, env_locals)
        b = _as_expression(st.orelse + rest, env_locals)
        if a is None or b is None:
            return None
        return ast.IfExp(test=_Sub(env_locals).visit(_fcopy(st.test)), body=a, orelse=b)
    if isinstance(st, (ast.Pass,)) or (isinstance(st, ast.Expr) and isinstance(st.value, ast.Constant)):
        return _as_expression(rest, env_locals)
    return None


def _as_statements(stmts, target, keep_returns):
    """body with every `return e` turned into `target = e` (or kept), later statements moved into the arms that fall through"""
    if not stmts:
        return []
    st, rest = stmts[0], stmts[1:]
    if not keep_returns and not rest and isinstance(st, ast.While) and isinstance(st.test, ast.Constant) and st.test.value is True and any(isinstance(x, ast.Return) for x in ast.walk(st)):
        # the final `while True:` of the helper: its returns leave the loop with the result assigned
        return [_RetToBreak(target).visit(st)]
    if isinstance(st, ast.Return):
        if keep_returns:
            return [st]
        if target is None:
            return [ast.Expr(value=st.value)] if st.value is not None and _has(st.value, ast.Call) else []
        if isinstance(target, ast.Name) and isinstance(st.value, ast.Name) and st.value.id == target.id:
            return []      # `x = x`
        if isinstance(target, (ast.Tuple, ast.List)) and isinstance(st.value, (ast.Tuple, ast.List)) and len(target.elts) == len(st.value.elts) and all(isinstance(t_, ast.Name) for t_ in target.elts):
            # `a, b = (e1, e2)`: component-wise, when no component reads a name another component binds
            pairs = [(t_, v_) for t_, v_ in zip(target.elts, st.value.elts) if not (isinstance(v_, ast.Name) and v_.id == t_.id)]
            bound = {t_.id for t_, _ in pairs}
            clash = any(isinstance(x, ast.Name) and x.id in bound and x.id != t_.id for t_, v_ in pairs for x in ast.walk(v_))
            if not clash:
                return [ast.Assign(targets=[ast.Name(id=t_.id, ctx=ast.Store())], value=v_) for t_, v_ in pairs]
        return [ast.Assign(targets=[_fcopy(target)], value=st.value if st.value is not None else ast.Constant(value=None))]
    if isinstance(st, ast.Raise):
        return [st]
    if isinstance(st, ast.If) and (_has(st.body, ast.Return) or _has(st.orelse, ast.Return)):
        body = _as_statements(st.body + ([] if _ends(st.body) else rest), target, keep_returns)
        orelse = _as_statements(st.orelse + ([] if _ends(st.orelse) else rest), target, keep_returns)
        if not body and orelse:
            # `if c: (nothing) else: X`  ->  `if not c: X`  (keeps the familiar shape `if row is None: ...`)
            t = st.test
            if isinstance(t, ast.Compare) and len(t.ops) == 1 and type(t.ops[0]) in _NEG:
                nt = ast.Compare(left=t.left, ops=[_NEG[type(t.ops[0])]()], comparators=t.comparators)
            elif isinstance(t, ast.UnaryOp) and isinstance(t.op, ast.Not):
                nt = t.operand
            else:
                nt = ast.UnaryOp(op=ast.Not(), operand=t)
            return [ast.If(test=nt, body=orelse, orelse=[])]
        return [ast.If(test=st.test, body=body or [ast.Pass()], orelse=orelse)]
    return [st] + _as_statements(rest, target, keep_returns)


_NEG = {ast.Is: ast.IsNot, ast.IsNot: ast.Is, ast.Eq: ast.NotEq, ast.NotEq: ast.Eq, ast.Lt: ast.GtE, ast.GtE: ast.Lt, ast.Gt: ast.LtE, ast.LtE: ast.Gt, ast.In: ast.NotIn, ast.NotIn: ast.In}


def _ends(stmts):
    """does the block always leave (return/raise) at its end?"""
    if not stmts:
        return False
    last = stmts[-1]
    if isinstance(last, (ast.Return, ast.Raise)):
        return True
    if isinstance(last, ast.If) and last.orelse:
        return _ends(last.body) and _ends(last.orelse)
    return False


def _unroll_const_loops(stmts):
    """`for x in (a, b, c): body` over a short tuple/list display, with x not rebound in the body, is the sequence of its iterations
    (arises when a helper iterates over a sequence that the caller passes as a display)"""
    out = []
    for st in stmts:
        for fld in ('body', 'orelse', 'finalbody'):
            blk = getattr(st, fld, None)
            if isinstance(blk, list) and blk and isinstance(blk[0], ast.stmt):
                setattr(st, fld, _unroll_const_loops(blk))
        if isinstance(st, ast.For) and isinstance(st.iter, (ast.Tuple, ast.List)) and 1 <= len(st.iter.elts) <= 8 and isinstance(st.target, ast.Name) and not st.orelse and not any(isinstance(x, (ast.Break, ast.Continue)) for x in ast.walk(st)) and not any(isinstance(x, ast.Name) and x.id == st.target.id and isinstance(x.ctx, ast.Store) for b in st.body for x in ast.walk(b)):
            for e in st.iter.elts:
                for b in st.body:
                    nb = _Sub({st.target.id: e}).visit(_fcopy(b))
                    for x in ast.walk(nb):
                        if not hasattr(x, 'lineno'):
                            x.lineno, x.col_offset, x.end_lineno, x.end_col_offset = st.lineno, 0, st.lineno, 0
                        if not hasattr(x, 'src_file'):
                            x.src_file = getattr(st, 'src_file', None)
                    out.append(nb)
        else:
            out.append(st)
    return out


class Inliner(object):
    def __init__(self, port, ref):
        self.port = port
        self.ref = ref           # {'mod:Qual': {'names': [...]}}
        self.counter = 0
        self.log = []
        self.caller_names = set()

    # ---- which helpers are new
    def new_helpers(self, mname, mod):
        funcs, methods = {}, {}
        for st in mod.body:
            if isinstance(st, ast.FunctionDef) and '{}:{}'.format(mname, st.name) not in self.ref and not st.name.startswith('__fn_'):
                funcs[st.name] = st
            elif isinstance(st, ast.ClassDef):
                cls_known = any(k.startswith('{}:{}.'.format(mname, st.name)) for k in self.ref)
                if not cls_known:
                    continue
                for m in st.body:
                    if isinstance(m, ast.FunctionDef) and '{}:{}.{}'.format(mname, st.name, m.name) not in self.ref:
                        methods[(st.name, m.name)] = m
        return funcs, methods

    def run(self):
        if not self.ref:
            return []
        for mname, mod in self.port.modules.items():
            funcs, methods = self.new_helpers(mname, mod)
            for st in mod.body:
                if isinstance(st, ast.FunctionDef):
                    self._function(mname, st.name, st, funcs, {}, None)
                elif isinstance(st, ast.ClassDef):
                    cm = {m: fd for (c, m), fd in methods.items() if c == st.name}
                    for m in st.body:
                        if isinstance(m, ast.FunctionDef):
                            self._function(mname, '{}.{}'.format(st.name, m.name), m, funcs, cm, st.name)
            # a new helper whose every use was inlined is no longer part of the analysed program
            self._drop_unused(mname, mod, funcs, methods)
        return self.log

    def _drop_unused(self, mname, mod, funcs, methods):
        def referenced(name, is_method, skip):
            for n in ast.walk(mod):
                if n is skip:
                    continue
                if is_method and isinstance(n, ast.Attribute) and n.attr == name and not any(n is x for x in ast.walk(skip)):
                    return True
                if not is_method and isinstance(n, ast.Name) and n.id == name and isinstance(n.ctx, ast.Load) and not any(n is x for x in ast.walk(skip)):
                    return True
            if not is_method:
                # used from another module: `csv_utils.helper(..)`, `from .csv_utils import helper`
                for oname, omod in self.port.modules.items():
                    if omod is mod:
                        continue
                    for n in ast.walk(omod):
                        if (isinstance(n, ast.Attribute) and n.attr == name) or (isinstance(n, ast.Name) and n.id == name) or (isinstance(n, ast.alias) and n.name == name):
                            return True
            return False
        for name, fd in list(funcs.items()):
            if fd in mod.body and not referenced(name, False, fd) and not any(name == getattr(e, 'id', None) for st in mod.body if isinstance(st, ast.Assign) for e in ast.walk(st)):
                mod.body.remove(fd)
                self.log.append('{}: new helper {}() has no remaining use and is left out of the analysed module'.format(mname, name))
        for (cname, name), fd in list(methods.items()):
            cls = next((c for c in mod.body if isinstance(c, ast.ClassDef) and c.name == cname), None)
            if cls is not None and fd in cls.body and not referenced(name, True, fd):
                cls.body.remove(fd)
                self.log.append('{}: new method {}.{}() has no remaining use and is left out of the analysed class'.format(mname, cname, name))

    def _function(self, mname, qual, fd, funcs, methods, cls):
        # nested helpers that the reference version of this function did not have
        known = set(self.ref.get('{}:{}'.format(mname, qual), {}).get('names', [])) if '{}:{}'.format(mname, qual) in self.ref else None
        nested = {}
        if known is not None:
            for st in fd.body:
                if isinstance(st, ast.FunctionDef) and st.name not in known and not st.name.startswith('__fn_'):
                    nested[st.name] = st
        table = dict(funcs)
        table.update(nested)
        table.pop(fd.name, None)
        # closures handed to a new helper as callbacks (JS: hoisted anonymous functions) are called by the inlined body
        if table or methods:
            closures = {st.name: st for st in ast.walk(fd) if isinstance(st, ast.FunctionDef) and st is not fd and st.name.startswith('__fn_')}
            for c in ast.walk(fd):
                if isinstance(c, ast.Call) and self._resolve(c, table, methods)[0] is not None:
                    for a in c.args:
                        if isinstance(a, ast.Name) and a.id in closures:
                            table[a.id] = closures[a.id]
        if not table and not methods:
            return
        if self._expand_table_dispatch(mname, fd, table):
            self.log.append('{}:{}: dispatch through a module-level table of new helpers rewritten as an if-chain'.format(mname, qual))
        for _ in range(MAX_DEPTH):
            changed = self._block_owner(fd, table, methods, '{}:{}'.format(mname, qual))
            if not changed:
                break
        # a hoisted closure (callback handed to an inlined helper) whose every call was spliced in is no longer part of the function
        for blk_owner in list(ast.walk(fd)):
            for fld in ('body', 'orelse', 'finalbody'):
                blk = getattr(blk_owner, fld, None)
                if not (isinstance(blk, list) and blk and isinstance(blk[0], ast.stmt)):
                    continue
                for st in list(blk):
                    if isinstance(st, ast.FunctionDef) and st.name.startswith('__fn_') and st.name in table:
                        used = any(isinstance(x, ast.Name) and x.id == st.name and not any(x is y for y in ast.walk(st)) for x in ast.walk(fd))
                        if not used and len(blk) > 1:
                            blk.remove(st)
        for st in fd.body:
            if isinstance(st, ast.FunctionDef) and st.name not in nested:
                # nested functions of the reference (closures): inline into them too
                for _ in range(MAX_DEPTH):
                    if not self._block_owner(st, table, methods, '{}:{}.{}'.format(mname, qual, st.name)):
                        break

    def _resolve(self, call, table, methods):
        if isinstance(call.func, ast.Name) and call.func.id in table:
            return table[call.func.id], False
        if isinstance(call.func, ast.Attribute) and isinstance(call.func.value, ast.Name) and call.func.value.id == 'self' and call.func.attr in methods:
            return methods[call.func.attr], True
        return None, False

    def _block_owner(self, owner, table, methods, where):
        changed = False
        self.caller_names = _locals_of(owner) | {a.arg for a in owner.args.args}
        for node in list(ast.walk(owner)):
            if node is not owner and isinstance(node, (ast.FunctionDef, ast.ClassDef)) and node.name in table:
                continue
            for fld in ('body', 'orelse', 'finalbody'):
                blk = getattr(node, fld, None)
                if isinstance(blk, list) and blk and isinstance(blk[0], ast.stmt):
                    new = self._block(blk, table, methods, where)
                    if new is not None:
                        setattr(node, fld, new)
                        changed = True
            if isinstance(node, ast.ExceptHandler):
                new = self._block(node.body, table, methods, where)
                if new is not None:
                    node.body = new
                    changed = True
        return changed

    def _block(self, blk, table, methods, where):
        # `g = (v for x in it)` ... `for T in g:` with g used nowhere else: the loop runs over the generator expression itself
        for i, st in enumerate(list(blk)):
            if isinstance(st, ast.For) and isinstance(st.iter, ast.Name):
                nm = st.iter.id
                defs = [(j, a) for j, a in enumerate(blk[:i]) if isinstance(a, ast.Assign) and len(a.targets) == 1 and isinstance(a.targets[0], ast.Name) and a.targets[0].id == nm and isinstance(a.value, ast.GeneratorExp)]
                if len(defs) == 1:
                    j, a = defs[0]
                    uses = sum(1 for s_ in blk for x in ast.walk(s_) if isinstance(x, ast.Name) and x.id == nm)
                    free = {x.id for x in ast.walk(a.value) if isinstance(x, ast.Name)}
                    rebinds = any(isinstance(x, ast.Name) and isinstance(x.ctx, ast.Store) and x.id in free for s_ in blk[j + 1:i] for x in ast.walk(s_))
                    if uses == 2 and not rebinds:
                        st.iter = a.value
                        blk.remove(a)
                        return self._block(blk, table, methods, where) or list(blk)
        out = []
        changed = False
        for st in blk:
            rep = self._stmt(st, table, methods, where)
            if rep is None:
                out.append(st)
            else:
                out.extend(rep)
                changed = True
        return out if changed else None

    def _calls_in(self, node, table, methods):
        found = []
        for x in ast.walk(node):
            if isinstance(x, (ast.FunctionDef, ast.Lambda)) and x is not node:
                continue
            if isinstance(x, ast.Call) and self._resolve(x, table, methods)[0] is not None:
                found.append(x)
        return found

    def _stmt(self, st, table, methods, where):
        if isinstance(st, (ast.FunctionDef, ast.ClassDef, ast.For, ast.While, ast.If, ast.Try, ast.With)):
            # compound statements: only their header expressions are handled here (bodies are visited as blocks)
            hdr = st.test if isinstance(st, (ast.If, ast.While)) else (st.iter if isinstance(st, ast.For) else None)
            if hdr is None:
                return None
            if isinstance(st, ast.For):
                fused = self._fuse_generator(st, table, methods, where)
                if fused is not None:
                    return fused
            new = self._expr_level(hdr, table, methods, where)
            if new is None and isinstance(st, ast.For) and isinstance(hdr, ast.Call) and self._resolve(hdr, table, methods)[0] is not None:
                # for x in helper(..):  ->  tmp = <helper body>; for x in tmp:
                fd, is_m = self._resolve(hdr, table, methods)
                if _returns_in_loops_or_try(fd) or _has(fd, (ast.Yield, ast.YieldFrom)):
                    return None
                self.counter += 1
                env = _param_env(fd, hdr, is_m, self.counter)
                if env is None:
                    return None
                pre_stmts = env.pop('__pre__')
                body = pre_stmts + _flat([_subst(s_, env) for s_ in fd.body if not (isinstance(s_, ast.Expr) and isinstance(s_.value, ast.Constant))])
                tmp = '__inl{}'.format(self.counter)
                pre = _as_statements(body, ast.Name(id=tmp, ctx=ast.Store()), False)
                st.iter = ast.Name(id=tmp, ctx=ast.Load())
                for s_ in pre + [st.iter]:
                    for x in ast.walk(s_):
                        if not hasattr(x, 'lineno'):
                            x.lineno, x.col_offset, x.end_lineno, x.end_col_offset = getattr(st, 'lineno', 0), 0, getattr(st, 'lineno', 0), 0
                        x.src_file = getattr(st, 'src_file', None)
                self.log.append('{}: call of new helper {}() in the loop header at line {} inlined (statement level)'.format(where, fd.name, getattr(st, 'lineno', '?')))
                return pre + [st]
            if new is None and isinstance(st, ast.If):
                # if <test that always evaluates helper(..) first>:  ->  tmp = <helper body>; if <test with tmp>:
                calls_ = self._calls_in(hdr, table, methods)
                if len(calls_) == 1 and _evaluated_unconditionally(hdr, calls_[0]):
                    call_ = calls_[0]
                    fd, is_m = self._resolve(call_, table, methods)
                    if not (_returns_in_loops_or_try(fd) or _has(fd, (ast.Yield, ast.YieldFrom))):
                        self.counter += 1
                        keep = _locals_of(fd) - self.caller_names
                        env = _param_env(fd, call_, is_m, self.counter, keep)
                        if env is not None:
                            pre_stmts = env.pop('__pre__')
                            body = pre_stmts + _flat([_subst(s_, env) for s_ in fd.body if not (isinstance(s_, ast.Expr) and isinstance(s_.value, ast.Constant))])
                            tmp = '__inl{}'.format(self.counter)
                            pre = _as_statements(body, ast.Name(id=tmp, ctx=ast.Store()), False)

                            class Rp(ast.NodeTransformer):
                                def visit_Call(self, node):
                                    if node is call_:
                                        return ast.Name(id=tmp, ctx=ast.Load())
                                    return self.generic_visit(node)
                            st.test = Rp().visit(st.test)
                            for s_ in pre + [st.test]:
                                for x in ast.walk(s_):
                                    if not hasattr(x, 'lineno'):
                                        x.lineno, x.col_offset, x.end_lineno, x.end_col_offset = getattr(st, 'lineno', 0), 0, getattr(st, 'lineno', 0), 0
                                    x.src_file = getattr(st, 'src_file', None)
                            self.log.append('{}: call of new helper {}() in the condition at line {} inlined (statement level)'.format(where, fd.name, getattr(st, 'lineno', '?')))
                            return pre + [st]
            if new is None:
                return None
            if isinstance(st, ast.For):
                st.iter = new
            else:
                st.test = new
            return [st]
        calls = self._calls_in(st, table, methods)
        if not calls:
            return None
        call = calls[0]
        fd, is_m = self._resolve(call, table, methods)
        direct = (isinstance(st, (ast.Assign, ast.Return, ast.AugAssign)) and getattr(st, 'value', None) is call) or (isinstance(st, ast.Expr) and st.value is call)
        has_locals = any(isinstance(x, ast.Assign) for x in ast.walk(fd))
        # 1. expression-level wherever possible - except that a helper with local variables called as a whole statement is
        #    spliced in as statements (an expression would repeat the definition of each local at every use)
        if not (direct and has_locals and len(calls) == 1):
            new_st = self._expr_level(st, table, methods, where)
            if new_st is not None:
                return [new_st]
        # 2. statement-level for the recognised call sites
        # the call is the element of a list comprehension: write the comprehension as the loop it abbreviates first
        for lc in [x for x in ast.walk(st) if isinstance(x, ast.ListComp) and len(x.generators) == 1 and not x.generators[0].ifs and any(y is call for y in ast.walk(x.elt))]:
            self.counter += 1
            acc = '__lc{}'.format(self.counter)
            loop = ast.For(target=lc.generators[0].target, iter=lc.generators[0].iter, orelse=[], body=[ast.Expr(value=ast.Call(func=ast.Attribute(value=ast.Name(id=acc, ctx=ast.Load()), attr='append', ctx=ast.Load()), args=[lc.elt], keywords=[]))])
            init = ast.Assign(targets=[ast.Name(id=acc, ctx=ast.Store())], value=ast.List(elts=[], ctx=ast.Load()))

            class Rp(ast.NodeTransformer):
                def visit_ListComp(self, node):
                    if node is lc:
                        return ast.Name(id=acc, ctx=ast.Load())
                    return self.generic_visit(node)
            st2 = Rp().visit(st)
            for s_ in (init, loop, st2):
                for x in ast.walk(s_):
                    if not hasattr(x, 'lineno'):
                        x.lineno, x.col_offset, x.end_lineno, x.end_col_offset = getattr(st, 'lineno', 0), 0, getattr(st, 'end_lineno', 0), 0
                    x.src_file = getattr(st, 'src_file', None)
            self.log.append('{}: list comprehension around a call of new helper {}() at line {} written as a loop'.format(where, fd.name, getattr(st, 'lineno', '?')))
            return [init, loop, st2]
        tail_call = isinstance(st, ast.Return) and st.value is call      # `return h(..)`: the helper's returns stay returns
        if (_returns_in_loops_or_try(fd) and not tail_call) or _has(fd, (ast.Yield, ast.YieldFrom)):
            return None
        self.counter += 1
        targets = set()
        if isinstance(st, ast.Assign):
            targets = {x.id for t_ in st.targets for x in ast.walk(t_) if isinstance(x, ast.Name)}
        keep = (_locals_of(fd) - self.caller_names) | (_locals_of(fd) & targets)
        env = _param_env(fd, call, is_m, self.counter, keep)
        if env is None:
            return None
        pre_stmts = env.pop('__pre__')
        body = pre_stmts + _flat([_subst(s, env) for s in fd.body if not (isinstance(s, ast.Expr) and isinstance(s.value, ast.Constant))])
        for b in body:
            ast.fix_missing_locations(b)

        def done(stmts):
            for s in stmts:
                for x in ast.walk(s):
                    if not hasattr(x, 'lineno'):
                        x.lineno = getattr(st, 'lineno', 0)
                        x.col_offset = 0
                        x.end_lineno = getattr(st, 'end_lineno', x.lineno)
                        x.end_col_offset = 0
                    x.src_file = getattr(st, 'src_file', None)
            self.log.append('{}: call of new helper {}() at line {} inlined (statement level)'.format(where, fd.name, getattr(st, 'lineno', '?')))
            return _unroll_const_loops(stmts)
        if tail_call:
            return done(body + ([] if _ends(body) else [ast.Return(value=ast.Constant(value=None))]))
        if isinstance(st, ast.Expr) and st.value is call:
            return done(_as_statements(body, None, False) or [ast.Pass()])
        if isinstance(st, ast.Assign) and st.value is call and len(st.targets) == 1:
            res = _as_statements(body, st.targets[0], False)
            if not _ends(body):
                pass
            return done(res)
        # the call is a direct operand of the statement's expression: compute it into a temporary first
        tmp = ast.Name(id='__inl{}'.format(self.counter), ctx=ast.Load())
        holder = None
        for x in ast.walk(st):
            if isinstance(x, ast.Call) and x is not call and any(a is call for a in x.args):
                holder = x
            if isinstance(x, (ast.AugAssign, ast.Assign, ast.Return)) and getattr(x, 'value', None) is call:
                holder = x
            if isinstance(x, (ast.List, ast.Tuple)) and any(e is call for e in x.elts):
                holder = x
        if holder is None:
            return None
        if isinstance(holder, ast.Call):
            holder.args = [tmp if a is call else a for a in holder.args]
        elif isinstance(holder, (ast.List, ast.Tuple)):
            holder.elts = [tmp if e is call else e for e in holder.elts]
        else:
            holder.value = tmp
        pre = _as_statements(body, ast.Name(id=tmp.id, ctx=ast.Store()), False)
        return done(pre + [st])

    def _expand_table_dispatch(self, mname, fd, table):
        """`h = TABLE.get(key)` / `if h is not None: ... h(args) ...` with TABLE a module-level dict literal whose values are new helper
        functions  ->  `if key == K1: ... helper1(args) ... elif key == K2: ...` (what the code did before the table was introduced), so
        that the helpers can be inlined like any other"""
        mod = self.port.modules[mname]
        tables = {}
        for st in mod.body:
            if isinstance(st, ast.Assign) and len(st.targets) == 1 and isinstance(st.targets[0], ast.Name) and isinstance(st.value, ast.Dict) and st.value.keys \
                    and all(isinstance(v, ast.Name) and v.id in table for v in st.value.values) and all(isinstance(k, (ast.Name, ast.Constant)) for k in st.value.keys):
                tables[st.targets[0].id] = st.value
        if not tables:
            return False
        changed = False
        for owner in list(ast.walk(fd)):
            for fld in ('body', 'orelse', 'finalbody'):
                blk = getattr(owner, fld, None)
                if not (isinstance(blk, list) and len(blk) >= 2):
                    continue
                for i in range(len(blk) - 1):
                    a, b = blk[i], blk[i + 1]
                    if not (isinstance(a, ast.Assign) and len(a.targets) == 1 and isinstance(a.targets[0], ast.Name) and isinstance(a.value, ast.Call) and isinstance(a.value.func, ast.Attribute)
                            and a.value.func.attr == 'get' and isinstance(a.value.func.value, ast.Name) and a.value.func.value.id in tables and len(a.value.args) == 1 and not a.value.keywords):
                        continue
                    h = a.targets[0].id
                    if not (isinstance(b, ast.If) and not b.orelse and isinstance(b.test, ast.Compare) and len(b.test.ops) == 1 and isinstance(b.test.ops[0], ast.IsNot)
                            and isinstance(b.test.left, ast.Name) and b.test.left.id == h and isinstance(b.test.comparators[0], ast.Constant) and b.test.comparators[0].value is None):
                        continue
                    # the handler variable is used nowhere else
                    uses = [x for x in ast.walk(fd) if isinstance(x, ast.Name) and x.id == h]
                    inside = [x for x in ast.walk(b) if isinstance(x, ast.Name) and x.id == h]
                    if len(uses) != len(inside) + 1:
                        continue
                    key = a.value.args[0]
                    tbl = tables[a.value.func.value.id]
                    chain = None
                    for k_, v_ in reversed(list(zip(tbl.keys, tbl.values))):
                        body = [_subst(s_, {h: ast.Name(id=v_.id, ctx=ast.Load())}) for s_ in b.body]
                        test = ast.Compare(left=_subst(key, {}), ops=[ast.Eq()], comparators=[_subst(k_, {})])
                        chain = ast.If(test=test, body=_flat(body), orelse=[chain] if chain is not None else [])
                    if chain is None:
                        continue
                    self._loc(chain, b)
                    blk[i:i + 2] = [chain]
                    changed = True
                    break
        return changed

    def _fuse_generator(self, st, table, methods, where):
        """`for T in G(args): BODY` with G a new generator helper of the form `pre; for x in it: stmts; yield v`, or
        `for T in (v for x in it if c): BODY`  ->  the producer loop with `T = v; BODY` in place of the yield.  Sound because the
        yield is the last statement of the only loop and nothing follows the loop: `break` / `continue` / `else` of the consumer
        mean the same on the producer loop."""
        hdr = st.iter
        loc = lambda nodes: [self._loc(x, st) for x in nodes]  # noqa: E731
        if isinstance(hdr, ast.GeneratorExp) and len(hdr.generators) == 1 and not getattr(hdr.generators[0], 'is_async', 0):
            g = hdr.generators[0]
            self.counter += 1
            names = sorted({x.id for x in ast.walk(g.target) if isinstance(x, ast.Name)})
            env = {n_: ast.Name(id='__g{}_{}'.format(self.counter, n_), ctx=ast.Load()) for n_ in names}
            tgt = _subst(g.target, env)
            for x in ast.walk(tgt):
                if isinstance(x, (ast.Name, ast.Tuple, ast.List)):
                    x.ctx = ast.Store()
            body = [ast.Assign(targets=[st.target], value=_subst(hdr.elt, env))] + list(st.body)
            for c_ in reversed(g.ifs):
                body = [ast.If(test=_subst(c_, env), body=body, orelse=[])]
            newfor = ast.For(target=tgt, iter=g.iter, body=body, orelse=list(st.orelse))
            loc([newfor])
            self.log.append('{}: loop over a generator expression at line {} fused with its consumer'.format(where, getattr(st, 'lineno', '?')))
            return [newfor]
        if not (isinstance(hdr, ast.Call) and self._resolve(hdr, table, methods)[0] is not None):
            return None
        fd, is_m = self._resolve(hdr, table, methods)
        body = [s_ for s_ in fd.body if not (isinstance(s_, ast.Expr) and isinstance(s_.value, ast.Constant))]
        ys = [x for x in ast.walk(fd) if isinstance(x, (ast.Yield, ast.YieldFrom))]
        if len(ys) != 1 or not isinstance(ys[0], ast.Yield) or ys[0].value is None or not body or _has(fd, (ast.Return,)):
            return None
        lp = body[-1]
        if not (isinstance(lp, ast.For) and not lp.orelse and lp.body and isinstance(lp.body[-1], ast.Expr) and lp.body[-1].value is ys[0]):
            return None
        if any(isinstance(x, (ast.For, ast.While, ast.Try, ast.With)) for s_ in body[:-1] for x in ast.walk(s_)):
            return None
        self.counter += 1
        keep = _locals_of(fd) - self.caller_names
        env = _param_env(fd, hdr, is_m, self.counter, keep)
        if env is None:
            return None
        pre_stmts = env.pop('__pre__')
        pre = pre_stmts + _flat([_subst(s_, env) for s_ in body[:-1]])
        tgt = _subst(lp.target, env)
        inner = _flat([_subst(s_, env) for s_ in lp.body[:-1]]) + [ast.Assign(targets=[st.target], value=_subst(ys[0].value, env))] + list(st.body)
        newfor = ast.For(target=tgt, iter=_subst(lp.iter, env), body=inner, orelse=list(st.orelse))
        loc(pre + [newfor])
        self.log.append('{}: loop over new generator {}() at line {} fused with its consumer'.format(where, fd.name, getattr(st, 'lineno', '?')))
        return pre + [newfor]

    def _loc(self, node, like):
        for x in ast.walk(node):
            if not hasattr(x, 'lineno'):
                x.lineno, x.col_offset, x.end_lineno, x.end_col_offset = getattr(like, 'lineno', 0), 0, getattr(like, 'lineno', 0), 0
            if getattr(x, 'src_file', None) is None:
                x.src_file = getattr(like, 'src_file', None)
        return node

    def _expr_level(self, node, table, methods, where):
        """replaces, inside node, every call of a new helper whose body is an expression; returns the new node or None"""
        inl = self
        hit = []

        class T(ast.NodeTransformer):
            def visit_FunctionDef(self, n):
                return n

            def visit_Lambda(self, n):
                return n

            def visit_Call(self, n):
                self.generic_visit(n)
                fd, is_m = inl._resolve(n, table, methods)
                if fd is None:
                    return n
                inl.counter += 1
                env = _param_env(fd, n, is_m, inl.counter)
                if env is None or env.pop('__pre__'):
                    return n
                locals_ = _locals_of(fd)
                penv = {k: v for k, v in env.items() if k not in locals_}
                body = [s for s in fd.body if not (isinstance(s, ast.Expr) and isinstance(s.value, ast.Constant))]
                e = _as_expression(body, penv)
                if e is None:
                    return n
                hit.append(fd.name)
                ast.copy_location(e, n)
                for x in ast.walk(e):
                    if not hasattr(x, 'lineno'):
                        ast.copy_location(x, n)
                    x.src_file = getattr(n, 'src_file', None)
                return e
        new = T().visit(node)
        if not hit:
            return None
        self.log.append('{}: call(s) of new helper {}() at line {} inlined (expression level)'.format(where, ', '.join(sorted(set(hit))), getattr(node, 'lineno', '?')))
        return new


def flatten_new_bases(port, ref):
    """Undoing "extract base class": a class of the reference that now inherits from a class the reference did not have gets, in the
    analysed copy, its own copies of the methods it inherits from that base (nearest definition wins), and calls through
    class-level function attributes (`pick = staticmethod(min)` ... `self.pick(a, b)`) are resolved to the function.  The new base
    classes themselves are marked so that role inventories do not count them."""
    log = []
    if not ref:
        return log
    for mname, mod in port.modules.items():
        classes = {st.name: st for st in mod.body if isinstance(st, ast.ClassDef)}
        known = {c for c in classes if any(k.startswith('{}:{}.'.format(mname, c)) for k in ref)}
        new = set(classes) - known
        for c in new:
            classes[c].verif_new_base = any(any(isinstance(b, ast.Name) and b.id == c for b in k.bases) for k in classes.values())

        def mro_new(cls, depth=0):
            out = []
            if depth > 4:
                return out
            for b in cls.bases:
                if isinstance(b, ast.Name) and b.id in new:
                    out.append(classes[b.id])
                    out.extend(mro_new(classes[b.id], depth + 1))
            return out
        for cname in sorted(known):
            cls = classes[cname]
            bases = mro_new(cls)
            if not bases:
                continue
            own = {m.name for m in cls.body if isinstance(m, ast.FunctionDef)}
            attrs = {}
            for src in [cls] + bases:
                for st in src.body:
                    if isinstance(st, ast.Assign) and len(st.targets) == 1 and isinstance(st.targets[0], ast.Name) and st.targets[0].id not in attrs:
                        v = st.value
                        if isinstance(v, ast.Call) and isinstance(v.func, ast.Name) and v.func.id == 'staticmethod' and len(v.args) == 1:
                            v = v.args[0]
                        if isinstance(v, (ast.Name, ast.Attribute)):
                            attrs[st.targets[0].id] = v
            copied = []
            for b in bases:
                for m in b.body:
                    if isinstance(m, ast.FunctionDef) and m.name not in own:
                        own.add(m.name)
                        twin = _fcopy(m)
                        for x in ast.walk(twin):
                            x.src_file = getattr(m, 'src_file', None)
                        cls.body.append(twin)
                        copied.append('{}.{}'.format(b.name, m.name))
            # the subclass constructor's call of a new base constructor: replaced by that constructor's body
            def super_call(st):
                if not (isinstance(st, ast.Expr) and isinstance(st.value, ast.Call)):
                    return None
                c_ = st.value
                if isinstance(c_.func, ast.Name) and c_.func.id == 'super':
                    return c_.args                                   # JS: super(a, b)
                if isinstance(c_.func, ast.Attribute) and c_.func.attr == '__init__':
                    v_ = c_.func.value
                    if isinstance(v_, ast.Call) and isinstance(v_.func, ast.Name) and v_.func.id == 'super':
                        return c_.args                               # super().__init__(a, b) / super(C, self).__init__(a, b)
                    if isinstance(v_, ast.Name) and v_.id in new and c_.args and isinstance(c_.args[0], ast.Name) and c_.args[0].id == 'self':
                        return c_.args[1:]                           # Base.__init__(self, a, b)
                return None
            init = next((m for m in cls.body if isinstance(m, ast.FunctionDef) and m.name == '__init__'), None)
            base_inits = [next((m for m in b.body if isinstance(m, ast.FunctionDef) and m.name == '__init__'), None) for b in bases]
            base_inits = [b for b in base_inits if b is not None]
            for _ in range(3):
                if init is None or not base_inits:
                    break
                new_body, hit = [], False
                for st in init.body:
                    args_ = super_call(st)
                    if args_ is None or hit:
                        new_body.append(st)
                        continue
                    bi = base_inits[0]
                    prm = [a.arg for a in bi.args.args][1:]
                    env_ = {p_: a_ for p_, a_ in zip(prm, args_)}
                    for p_, d_ in zip(prm[len(prm) - len(bi.args.defaults):], bi.args.defaults):
                        env_.setdefault(p_, d_)
                    new_body.extend(_flat([_subst(x, env_) for x in bi.body]))
                    hit = True
                    copied.append('{}.__init__ (through super)'.format(bases[0].name))
                if not hit:
                    break
                init.body = new_body
                base_inits = base_inits[1:]
                for x in ast.walk(init):
                    if not hasattr(x, 'lineno'):
                        x.lineno, x.col_offset, x.end_lineno, x.end_col_offset = init.lineno, 0, init.lineno, 0
                    if not hasattr(x, 'src_file'):
                        x.src_file = getattr(init, 'src_file', None)
            # function-valued attributes set once in the constructor (`self.fold = Math.min`) resolve like class-level ones
            if init is not None:
                sets = {}
                for n_ in ast.walk(cls):
                    if isinstance(n_, ast.Assign) and len(n_.targets) == 1 and isinstance(n_.targets[0], ast.Attribute) and isinstance(n_.targets[0].value, ast.Name) and n_.targets[0].value.id == 'self':
                        sets.setdefault(n_.targets[0].attr, []).append(n_)
                iparams = {a.arg for a in init.args.args}
                for attr_, ns in sets.items():
                    if len(ns) == 1 and any(ns[0] is x for x in ast.walk(init)) and isinstance(ns[0].value, (ast.Name, ast.Attribute)) and attr_ not in attrs:
                        root = ns[0].value
                        while isinstance(root, ast.Attribute):
                            root = root.value
                        if isinstance(root, ast.Name) and root.id not in iparams and root.id != 'self' and any(isinstance(c_, ast.Call) and isinstance(c_.func, ast.Attribute) and c_.func.attr == attr_ and isinstance(c_.func.value, ast.Name) and c_.func.value.id == 'self' for c_ in ast.walk(cls)):
                            attrs[attr_] = ns[0].value
            if attrs:
                class R(ast.NodeTransformer):
                    def visit_Attribute(self, node):
                        self.generic_visit(node)
                        if isinstance(node.value, ast.Name) and node.value.id == 'self' and node.attr in attrs and isinstance(node.ctx, ast.Load):
                            return ast.copy_location(_fcopy(attrs[node.attr]), node)
                        return node
                for m in cls.body:
                    if isinstance(m, ast.FunctionDef):
                        R().visit(m)
            # base-class attribute lines of the subclass are not state of its own
            cls.body = [st for st in cls.body if not (isinstance(st, ast.Assign) and len(st.targets) == 1 and isinstance(st.targets[0], ast.Name) and st.targets[0].id in attrs)] or [ast.Pass()]
            if copied:
                log.append('{}:{} inherits from new base class(es) {}: {} copied into the analysed class'.format(mname, cname, ', '.join(b.name for b in bases), ', '.join(copied)))
    return log


def _evaluated_unconditionally(root, target):
    """is `target` (a sub-expression of root) evaluated whenever root is, before anything that could be skipped?"""
    if root is target:
        return True
    if isinstance(root, ast.BoolOp):
        return _evaluated_unconditionally(root.values[0], target)
    if isinstance(root, ast.IfExp):
        return _evaluated_unconditionally(root.test, target)
    if isinstance(root, (ast.Lambda, ast.ListComp, ast.GeneratorExp, ast.DictComp, ast.SetComp)):
        return False
    for ch in ast.iter_child_nodes(root):
        if any(x is target for x in ast.walk(ch)):
            return _evaluated_unconditionally(ch, target)
    return False


def inline_new_helpers(port):
    from . import alpha
    ref = alpha.load_ref().get(port.name, {})
    log = flatten_new_bases(port, ref)
    return log + Inliner(port, ref).run()
