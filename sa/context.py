"""Lazy analysis context shared by all rules of one check run."""
from . import model, skeleton
from .core import Undecided


class Cx(object):
    def __init__(self, tier='quick'):
        self.tier = tier
        self._ports = {}
        self._sk = {}
        self._cache = {}

    def port(self, name):
        if name not in self._ports:
            self._ports[name] = model.load_py() if name == 'py' else model.load_js()
        return self._ports[name]

    @property
    def py(self):
        return self.port('py')

    @property
    def js(self):
        return self.port('js')

    def engine_mod(self, port):
        return 'rbql_engine' if port == 'py' else 'rbql'

    def csv_mod(self, port):
        return 'rbql_csv'

    def skeletons(self, port):
        """(list of Skeleton, list of composition errors)"""
        if port not in self._sk:
            self._sk[port] = skeleton.build_skeletons(self.port(port))
        return self._sk[port]

    def cached(self, key, fn):
        if key not in self._cache:
            self._cache[key] = fn()
        return self._cache[key]

    def analysed_summary(self):
        out = {}
        for name, p in self._ports.items():
            out[name] = {'parser': p.parser, 'modules': {m: {'file': p.files[m], 'sha256': p.sha[m]} for m in p.modules}, 'functions': len(p.funcs), 'classes': len(p.classes), 'functions_with_locals_restored_to_reference_spelling': getattr(p, 'renamed', []), 'calls_of_new_helpers_inlined': getattr(p, 'inlined', [])}
        for name, (sks, errs) in self._sk.items():
            out.setdefault(name, {})['skeleton_configurations'] = [s.name for s in sks]
        return out
