"""Path summaries of small loop-free functions: every way through the function as (branch decisions, value returned / exception
raised), with locals substituted by their defining expressions along that path.  Lets a rule state *what* a function returns
under which condition instead of how its statements are laid out (early return vs. single exit, inverted tests, temporaries).

Only straight-line code, if/else, try/except and return/raise are followed; a loop or anything else that is not understood makes
`paths()` return None and the caller reports UNDECIDED."""
import ast

from .snippet import _fcopy


class Path(object):
    def __init__(self):
        self.conds = []      # (test expression with locals substituted, polarity)
        self.env = {}        # local name -> expression
        self.kind = None     # 'return' | 'raise' | 'fall'
        self.value = None    # returned expression (substituted) / raised expression
        self.node = None
        self.in_handler = []  # exception types of enclosing handlers the path went through
        self.calls = []      # expression statements (calls) executed on the path, substituted
        self.stores = []     # (target expression, value expression) of assignments to attributes / subscripts, substituted
        self.decided = {}    # dump of a test over plain names -> polarity already taken on this path (the same test again goes the same way)

    def copy(self):
        q = Path()
        q.conds = list(self.conds)
        q.env = dict(self.env)
        q.in_handler = list(self.in_handler)
        q.calls = list(self.calls)
        q.stores = list(self.stores)
        q.decided = dict(self.decided)
        return q

    def forget(self, names):
        """names were (re)bound: tests that mention them are open again"""
        if self.decided and names:
            for k in [k for k, (pol, ns) in self.decided.items() if ns & names]:
                del self.decided[k]


class _Subst(ast.NodeTransformer):
    def __init__(self, env):
        self.env = env

    def visit_Name(self, node):
        if isinstance(node.ctx, ast.Load) and node.id in self.env:
            return _fcopy(self.env[node.id])
        return node


def subst(e, env):
    if e is None:
        return None
    return _Subst(env).visit(_fcopy(e))


MAX_PATHS = 400


def paths(fd, params_opaque=True):
    out = []
    try:
        live = _block(fd.body, [Path()], out)
    except _Unsupported:
        return None
    for p in live:      # falling off the end returns None
        p.kind, p.value, p.node = 'return', ast.Constant(value=None), fd
        out.append(p)
    return out


class _Unsupported(Exception):
    pass


def _is_num_const(e):
    return isinstance(e, ast.Constant) or (isinstance(e, ast.UnaryOp) and isinstance(e.op, ast.USub) and isinstance(e.operand, ast.Constant) and isinstance(e.operand.value, (int, float)) and not isinstance(e.operand.value, bool))


def _num_const(e):
    return e.value if isinstance(e, ast.Constant) else -e.operand.value


def _const_truth(e):
    """truth value of a test that is a constant, or a comparison / negation / conjunction of constants; None otherwise"""
    if isinstance(e, ast.Constant) and (isinstance(e.value, (bool, int, str)) or e.value is None):
        return bool(e.value)
    if isinstance(e, ast.UnaryOp) and isinstance(e.op, ast.Not):
        r = _const_truth(e.operand)
        return None if r is None else not r
    if isinstance(e, ast.Compare) and len(e.ops) == 1 and _is_num_const(e.left) and _is_num_const(e.comparators[0]):
        a, b = _num_const(e.left), _num_const(e.comparators[0])
        op = e.ops[0]
        if isinstance(op, (ast.Is, ast.Eq)):
            return a is b if isinstance(op, ast.Is) and (a is None or b is None) else a == b
        if isinstance(op, (ast.IsNot, ast.NotEq)):
            return not (a is b) if isinstance(op, ast.IsNot) and (a is None or b is None) else a != b
    if isinstance(e, ast.BoolOp):
        rs = [_const_truth(v) for v in e.values]
        if isinstance(e.op, ast.And):
            if any(r is False for r in rs):
                return False
            return True if all(r is True for r in rs) else None
        if any(r is True for r in rs):
            return True
        return False if all(r is False for r in rs) else None
    return None


def _block(stmts, live, out):
    """advances every live path through stmts; finished paths are appended to out; returns the paths that fall through"""
    for st in stmts:
        if not live:
            return []
        if len(live) + len(out) > MAX_PATHS:
            raise _Unsupported()
        live = _stmt(st, live, out)
    return live


def _split_conditional(st):
    """`x = a if c else b`, `return a if c else b`, `x += ...`, `y.append(a if c else b)`  ->  the equivalent if statement (so a
    conditional expression and a conditional statement give the same paths); None if st has no conditional value"""
    def rebuild(make):
        return None
    if isinstance(st, ast.Return) and isinstance(st.value, ast.IfExp):
        e = st.value
        return ast.If(test=e.test, body=[ast.Return(value=e.body)], orelse=[ast.Return(value=e.orelse)])
    if isinstance(st, ast.Assign) and isinstance(st.value, ast.IfExp):
        e = st.value
        return ast.If(test=e.test, body=[ast.Assign(targets=st.targets, value=e.body)], orelse=[ast.Assign(targets=st.targets, value=e.orelse)])
    if isinstance(st, ast.Assign) and isinstance(st.value, ast.Call) and len(st.value.args) == 1 and isinstance(st.value.args[0], ast.IfExp) and not st.value.keywords \
            and isinstance(st.value.func, (ast.Attribute, ast.Name)) and not any(isinstance(x, (ast.Call, ast.Subscript)) for x in ast.walk(st.value.func)):
        # x = acc.concat(a if c else b): the callee expression is a plain (dotted) name, so evaluating the test first changes nothing
        e = st.value.args[0]
        mk = lambda a: ast.Assign(targets=st.targets, value=ast.Call(func=st.value.func, args=[a], keywords=[]))  # noqa: E731
        return ast.If(test=e.test, body=[mk(e.body)], orelse=[mk(e.orelse)])
    if isinstance(st, ast.AugAssign) and isinstance(st.value, ast.IfExp):
        e = st.value
        return ast.If(test=e.test, body=[ast.AugAssign(target=st.target, op=st.op, value=e.body)], orelse=[ast.AugAssign(target=st.target, op=st.op, value=e.orelse)])
    if isinstance(st, ast.Expr) and isinstance(st.value, ast.Call) and len(st.value.args) == 1 and isinstance(st.value.args[0], ast.IfExp) and not st.value.keywords and isinstance(st.value.func, ast.Attribute) and not any(isinstance(x, ast.Call) for x in ast.walk(st.value.func)):
        e = st.value.args[0]
        mk = lambda a: ast.Expr(value=ast.Call(func=st.value.func, args=[a], keywords=[]))  # noqa: E731
        return ast.If(test=e.test, body=[mk(e.body)], orelse=[mk(e.orelse)])
    return None


def _stmt(st, live, out):
    sp = _split_conditional(st)
    if sp is not None:
        for x in ast.walk(sp):
            if not hasattr(x, 'lineno'):
                x.lineno, x.col_offset, x.end_lineno, x.end_col_offset = getattr(st, 'lineno', 0), getattr(st, 'col_offset', 0), getattr(st, 'end_lineno', 0), getattr(st, 'end_col_offset', 0)
        return _stmt(sp, live, out)
    if isinstance(st, ast.Return):
        for p in live:
            p.kind, p.value, p.node = 'return', subst(st.value, p.env) if st.value is not None else ast.Constant(value=None), st
            out.append(p)
        return []
    if isinstance(st, ast.Raise):
        for p in live:
            p.kind, p.value, p.node = 'raise', subst(st.exc, p.env) if st.exc is not None else None, st
            out.append(p)
        return []
    if isinstance(st, ast.Assign):
        for p in live:
            v = subst(st.value, p.env)
            p.forget({x.id for t in st.targets for x in ast.walk(t) if isinstance(x, ast.Name) and isinstance(x.ctx, ast.Store)})
            for t in st.targets:
                if isinstance(t, ast.Name):
                    p.env[t.id] = v
                elif isinstance(t, (ast.Tuple, ast.List)) and isinstance(st.value, (ast.Tuple, ast.List)) and len(t.elts) == len(st.value.elts):
                    vals = [subst(b, p.env) for b in st.value.elts]
                    for a, b in zip(t.elts, vals):
                        if isinstance(a, ast.Name):
                            p.env[a.id] = b
                        elif isinstance(a, (ast.Attribute, ast.Subscript)):
                            p.stores.append((subst(a, p.env), b))
                elif isinstance(t, (ast.Tuple, ast.List)) and all(isinstance(a, (ast.Name, ast.Attribute, ast.Subscript)) for a in t.elts):
                    # unpacking of an opaque value: component i
                    for i, a in enumerate(t.elts):
                        comp = ast.Subscript(value=_fcopy(v), slice=ast.Constant(value=i), ctx=ast.Load())
                        if isinstance(a, ast.Name):
                            p.env[a.id] = comp
                        else:
                            p.stores.append((subst(a, p.env), comp))
                else:
                    if isinstance(t, (ast.Attribute, ast.Subscript)):
                        p.stores.append((subst(t, p.env), v))
                    for x in ast.walk(t):
                        if isinstance(x, ast.Name) and isinstance(x.ctx, ast.Store):
                            p.env.pop(x.id, None)
        return live
    if isinstance(st, ast.AugAssign):
        for p in live:
            if isinstance(st.target, ast.Name):
                p.forget({st.target.id})
                old = p.env.get(st.target.id, ast.Name(id=st.target.id, ctx=ast.Load()))
                p.env[st.target.id] = ast.BinOp(left=_fcopy(old), op=st.op, right=subst(st.value, p.env))
        return live
    if isinstance(st, ast.Expr):
        for p in live:
            p.calls.append(subst(st.value, p.env))
        return live
    if isinstance(st, (ast.Pass, ast.Global, ast.Nonlocal, ast.Import, ast.ImportFrom, ast.FunctionDef, ast.Assert)):
        return live
    if isinstance(st, ast.If):
        t_live, f_live = [], []
        for p in live:
            t = subst(st.test, p.env)
            k = _const_truth(t)
            if k is not None:
                # the decision is fixed by what this path already assigned (e.g. a flag set to False): only one arm is feasible
                (t_live if k else f_live).append(p)
                continue
            pure = not any(isinstance(x, (ast.Call, ast.Attribute, ast.Subscript, ast.Await, ast.Yield, ast.Lambda)) for x in ast.walk(t))
            if pure:
                key = ast.dump(t)
                if key in p.decided:
                    # the same test over the same unchanged names was already taken on this path
                    pol0 = p.decided[key][0]
                    p.conds.append((t, pol0))
                    (t_live if pol0 else f_live).append(p)
                    continue
            a, b = p, p.copy()
            a.conds.append((t, True))
            b.conds.append((t, False))
            if pure:
                ns = {x.id for x in ast.walk(t) if isinstance(x, ast.Name)}
                a.decided[key] = (True, ns)
                b.decided[key] = (False, ns)
            t_live.append(a)
            f_live.append(b)
        return _block(st.body, t_live, out) + _block(st.orelse, f_live, out)
    if isinstance(st, ast.Try):
        res = []
        # normal execution of the body (followed by the else block, which the handlers' paths do not run)
        body_live = [p.copy() for p in live]
        normal = _block(st.body, body_live, out)
        if st.orelse:
            normal = _block(st.orelse, normal, out)
        res.extend(normal)
        # each handler: entered from the state at the beginning of the try (assignments of the body are not trusted)
        for h in st.handlers:
            hl = []
            for p in live:
                q = p.copy()
                q.in_handler.append(ast.dump(h.type) if h.type is not None else '*')
                q.conds.append((ast.Name(id='__exception__{}'.format(getattr(h.type, 'id', getattr(h.type, 'attr', '*')) if h.type is not None else '*'), ctx=ast.Load()), True))
                hl.append(q)
            res.extend(_block(h.body, hl, out))
        if st.finalbody:
            res = _block(st.finalbody, res, out)
        return res
    if isinstance(st, ast.For) and isinstance(st.iter, ast.Name) and live and not st.orelse and all(isinstance(p.env.get(st.iter.id), (ast.Tuple, ast.List)) for p in live) \
            and len({ast.dump(p.env[st.iter.id]) for p in live}) == 1 and 0 < len(live[0].env[st.iter.id].elts) <= 4 \
            and not any(isinstance(x, (ast.Break, ast.Continue)) for b in st.body for x in ast.walk(b)):
        # a loop over a local bound to a written-out list: its unrolling
        for e in live[0].env[st.iter.id].elts:
            live = _block([ast.copy_location(ast.Assign(targets=[st.target], value=e), st)] + list(st.body), live, out)
        return live
    if isinstance(st, ast.For) and isinstance(st.iter, (ast.Tuple, ast.List)) and 0 < len(st.iter.elts) <= 4 and isinstance(st.target, ast.Name) and not st.orelse \
            and not any(isinstance(x, (ast.Break, ast.Continue, ast.Starred)) for b in st.body + [st.iter] for x in ast.walk(b)):
        # a loop over a written-out tuple is its unrolling
        for e in st.iter.elts:
            live = _block([ast.copy_location(ast.Assign(targets=[ast.Name(id=st.target.id, ctx=ast.Store())], value=e), st)] + list(st.body), live, out)
        return live
    if isinstance(st, (ast.For, ast.While)) and not any(isinstance(x, (ast.Return, ast.Raise)) for b in st.body for x in ast.walk(b)):
        # a loop that cannot leave the function: what it calls is recorded (as possibly executed), what it assigns becomes unknown
        for p in live:
            for b in st.body:
                for x in ast.walk(b):
                    if isinstance(x, ast.Expr):
                        p.calls.append(subst(x.value, p.env))
                    if isinstance(x, ast.Name) and isinstance(x.ctx, ast.Store):
                        p.env.pop(x.id, None)
                        p.forget({x.id})
            if isinstance(st, ast.For):
                for x in ast.walk(st.target):
                    if isinstance(x, ast.Name):
                        p.env.pop(x.id, None)
                        p.forget({x.id})
        return live
    if isinstance(st, ast.With):
        return _block(st.body, live, out)
    if isinstance(st, (ast.Continue, ast.Break)):
        # only met when a loop body is summarised on its own (paths_of_block): the path ends this iteration here
        for p in live:
            p.kind, p.value, p.node = ('continue' if isinstance(st, ast.Continue) else 'break'), None, st
            out.append(p)
        return []
    raise _Unsupported()


def atoms(conds):
    """flattens the path condition into (atom, polarity) pairs: `a and b` true -> both true; `a or b` false -> both false; `not`
    flips; anything else (a disjunction that holds, a conjunction that fails) is kept whole"""
    out = []

    def go(e, pol):
        if isinstance(e, ast.UnaryOp) and isinstance(e.op, ast.Not):
            go(e.operand, not pol)
        elif isinstance(e, ast.BoolOp) and ((isinstance(e.op, ast.And) and pol) or (isinstance(e.op, ast.Or) and not pol)):
            for v in e.values:
                go(v, pol)
        elif isinstance(e, ast.Compare) and len(e.ops) == 1 and isinstance(e.ops[0], (ast.NotIn, ast.IsNot, ast.NotEq)):
            flip = {ast.NotIn: ast.In, ast.IsNot: ast.Is, ast.NotEq: ast.Eq}[type(e.ops[0])]
            out.append((ast.Compare(left=e.left, ops=[flip()], comparators=e.comparators), not pol))
        else:
            out.append((e, pol))
    for t, pol in conds:
        go(t, pol)
    return out


def paths_of_block(stmts, env=None):
    """paths through a statement list (e.g. a loop body): finished ones (return/raise) and those that fall off the end (kind 'fall')"""
    out = []
    p0 = Path()
    p0.env = dict(env or {})
    try:
        live = _block(stmts, [p0], out)
    except _Unsupported:
        return None
    for p in live:
        p.kind = 'fall'
        out.append(p)
    return out


def paths_with_env(fd, env):
    out = []
    p0 = Path()
    p0.env = dict(env or {})
    try:
        live = _block(fd.body, [p0], out)
    except _Unsupported:
        return None
    for p in live:
        p.kind, p.value = 'return', ast.Constant(value=None)
        out.append(p)
    return out


def eval_cond(e, leaf):
    """three-valued evaluation of a condition: leaf(expr) gives True/False/None for atomic expressions; and/or/not and the
    negated comparison operators are interpreted (short-circuit)"""
    if isinstance(e, ast.BoolOp):
        unknown = False
        for v in e.values:
            r = eval_cond(v, leaf)
            if r is None:
                unknown = True
                continue
            if isinstance(e.op, ast.And) and not r:
                return False
            if isinstance(e.op, ast.Or) and r:
                return True
        return None if unknown else isinstance(e.op, ast.And)
    if isinstance(e, ast.UnaryOp) and isinstance(e.op, ast.Not):
        r = eval_cond(e.operand, leaf)
        return None if r is None else not r
    if isinstance(e, ast.Compare) and len(e.ops) == 1 and isinstance(e.ops[0], (ast.IsNot, ast.NotEq, ast.NotIn)):
        flip = {ast.IsNot: ast.Is, ast.NotEq: ast.Eq, ast.NotIn: ast.In}[type(e.ops[0])]
        r = eval_cond(ast.Compare(left=e.left, ops=[flip()], comparators=e.comparators), leaf)
        return None if r is None else not r
    if isinstance(e, ast.Constant) and isinstance(e.value, bool):
        return e.value
    return leaf(e)


def consistent(path, leaf):
    """can the path be taken under the valuation described by leaf? (False only when some branch decision is contradicted)"""
    for t, pol in path.conds:
        r = eval_cond(t, leaf)
        if r is not None and r != pol:
            return False
    return True
