"""Configuration table of `shallow_parse_input_query` (DESIGN.md 3.3): exhaustive enumeration of keyword
configurations with opaque condition atoms.

For every truth assignment of the keyword atoms the parser's body is walked statement by statement
(no repository code is run).  Conditions are evaluated in three-valued logic over the atoms; an `if`
whose condition is unknown is
  * an *error guard* when its taken arm always raises: the walk records a potential raise of that
    class and continues on the non-error arm;
  * otherwise forked both ways (the decision is remembered by the condition's source text).
The result is, per configuration, either the error class raised unconditionally or the ordered
list of events (writer wrapping, calls on sink and iterators, stores into query_context, potential raises).
"""
import ast
import itertools

from .core import Undecided, node_text
from .model import call_name, dotted, names_in, walk_no_nested, const_value, NOCONST

KEYWORD_ATOMS = ['SELECT', 'UPDATE', 'JOIN', 'WHERE', 'ORDER BY', 'GROUP BY', 'LIMIT', 'EXCEPT', 'WITH', 'SELECT.top', 'SELECT.distinct', 'SELECT.distinct_count', 'FROM']


class Event(object):
    __slots__ = ('kind', 'what', 'node', 'extra')

    def __init__(self, kind, what, node, extra=None):
        self.kind, self.what, self.node, self.extra = kind, what, node, extra

    def __repr__(self):
        return '{}:{}@{}'.format(self.kind, self.what, getattr(self.node, 'lineno', '?'))

    def brief(self):
        return '{}:{}'.format(self.kind, self.what)


class PathResult(object):
    def __init__(self, atoms, opaque, events, error):
        self.atoms = atoms        # dict keyword atom -> bool
        self.opaque = opaque      # dict cond text -> bool
        self.events = events
        self.error = error        # None or (class name, node)

    def name(self):
        on = [k for k, v in sorted(self.atoms.items()) if v]
        return '{' + ','.join(on) + '}'

    def wraps(self):
        return [e.what for e in self.events if e.kind == 'wrap']


class ParserWalker(object):
    def __init__(self, port, modname, funcname='shallow_parse_input_query'):
        self.port = port
        self.modname = modname
        self.fd = port.func(modname, funcname)
        self.consts = port.module_consts(modname)
        self.may_raise = may_raise_summary(port, modname)
        self.ctx_param = 'query_context'
        self.actions_var = self._find_actions_var()
        self.flag_aliases = {}
        self.action_aliases = self._find_action_aliases()

    def _find_actions_var(self):
        for st in self.fd.body:
            if isinstance(st, ast.Assign) and isinstance(st.value, ast.Call) and call_name(st.value) == 'separate_actions' and isinstance(st.targets[0], ast.Name):
                return st.targets[0].id
        raise Undecided('anchor vanished: shallow_parse_input_query does not call separate_actions', self.fd)

    def _find_action_aliases(self):
        """locals bound exactly once to `<actions>[KEY]` (e.g. `select_action = rb_actions[SELECT]`): name -> KEY"""
        defs = {}
        for n in walk_no_nested(self.fd):
            if isinstance(n, (ast.Assign, ast.AugAssign, ast.For, ast.NamedExpr)):
                tgts = n.targets if isinstance(n, ast.Assign) else [n.target]
                for t in tgts:
                    for x in ast.walk(t):
                        if isinstance(x, ast.Name):
                            defs.setdefault(x.id, []).append(n)
        out = {}
        for name, ds in defs.items():
            if len(ds) != 1 or not isinstance(ds[0], ast.Assign) or len(ds[0].targets) != 1 or not isinstance(ds[0].targets[0], ast.Name):
                continue
            v = ds[0].value
            if isinstance(v, ast.Subscript) and isinstance(v.value, ast.Name) and v.value.id == self.actions_var:
                k = const_value(v.slice, self.consts)
                if isinstance(k, str):
                    out[name] = k
            elif isinstance(v, (ast.Compare, ast.BoolOp)) or (isinstance(v, ast.UnaryOp) and isinstance(v.op, ast.Not)) or (isinstance(v, ast.Call) and isinstance(v.func, ast.Attribute) and v.func.attr == 'hasOwnProperty'):
                # a flag holding a test computed once (`count_distinct = 'distinct_count' in select_action`): evaluated through its definition
                self.flag_aliases[name] = v
        return out

    # ---- atoms
    def key_of(self, e):
        v = const_value(e, self.consts)
        if isinstance(v, str):
            return v
        return None

    def atom(self, e):
        """Returns (atom name) if e is a recognised keyword-presence test, else None."""
        av = self.actions_var
        if isinstance(e, ast.Compare) and len(e.ops) == 1 and isinstance(e.ops[0], (ast.In, ast.NotIn)):
            k = self.key_of(e.left)
            c = e.comparators[0]
            neg = isinstance(e.ops[0], ast.NotIn)
            if k is not None and isinstance(c, ast.Name) and c.id == av:
                return (k, neg)
            if k is not None and isinstance(c, ast.Subscript) and isinstance(c.value, ast.Name) and c.value.id == av:
                base = self.key_of(c.slice)
                if base is not None:
                    return ('{}.{}'.format(base, k), neg)
            if k is not None and isinstance(c, ast.Name) and c.id in self.action_aliases:
                return ('{}.{}'.format(self.action_aliases[c.id], k), neg)
        if isinstance(e, ast.Call) and isinstance(e.func, ast.Attribute) and e.func.attr == 'hasOwnProperty' and len(e.args) == 1:
            k = self.key_of(e.args[0])
            r = e.func.value
            if k is not None and isinstance(r, ast.Name) and r.id == av:
                return (k, False)
            if k is not None and isinstance(r, ast.Subscript) and isinstance(r.value, ast.Name) and r.value.id == av:
                base = self.key_of(r.slice)
                if base is not None:
                    return ('{}.{}'.format(base, k), False)
            if k is not None and isinstance(r, ast.Name) and r.id in self.action_aliases:
                return ('{}.{}'.format(self.action_aliases[r.id], k), False)
        # query_context.top_count is not None
        if isinstance(e, ast.Compare) and len(e.ops) == 1 and (dotted(e.left) or '').endswith('.top_count') and isinstance(e.comparators[0], ast.Constant) and e.comparators[0].value is None:
            if isinstance(e.ops[0], (ast.IsNot, ast.NotEq)):
                return ('TOP', False)
            if isinstance(e.ops[0], (ast.Is, ast.Eq)):
                return ('TOP', True)
        return None

    def eval_cond(self, e, atoms, opaque):
        if isinstance(e, ast.Name) and e.id in self.flag_aliases:
            return self.eval_cond(self.flag_aliases[e.id], atoms, opaque)
        a = self.atom(e)
        if a is not None:
            name, neg = a
            if name in atoms:
                return (not atoms[name]) if neg else atoms[name]
            return None
        if isinstance(e, ast.UnaryOp) and isinstance(e.op, ast.Not):
            v = self.eval_cond(e.operand, atoms, opaque)
            return None if v is None else (not v)
        if isinstance(e, ast.BoolOp):
            vals = [self.eval_cond(v, atoms, opaque) for v in e.values]
            if isinstance(e.op, ast.And):
                if any(v is False for v in vals):
                    return False
                if all(v is True for v in vals):
                    return True
                return None
            if any(v is True for v in vals):
                return True
            if all(v is False for v in vals):
                return False
            return None
        if isinstance(e, ast.Constant):
            return bool(e.value)
        key = node_text(e, 200)
        if key in opaque:
            return opaque[key]
        return None

    # ---- walking
    def always_raises(self, stmts):
        """every path through stmts ends in raise (syntactic)"""
        if not stmts:
            return None
        last = stmts[-1]
        if isinstance(last, ast.Raise):
            return self.raise_class(last)
        if isinstance(last, ast.If) and last.orelse:
            a, b = self.always_raises(last.body), self.always_raises(last.orelse)
            if a and b:
                return a
        return None

    def raise_class(self, st):
        if st.exc is None:
            return 'reraise'
        if isinstance(st.exc, ast.Call):
            return (dotted(st.exc.func) or '?').split('.')[-1]
        return dotted(st.exc) or '?'

    def run(self, atoms):
        """All paths for one keyword configuration."""
        results = []
        self._walk(self.fd.body, 0, atoms, {}, [], results)
        return results

    def _walk(self, stmts, i, atoms, opaque, events, results, cont=None):
        """Walk stmts[i:], then continuation `cont` (list of (stmts, index) frames)."""
        cont = cont or []
        while True:
            if i >= len(stmts):
                if not cont:
                    results.append(PathResult(dict(atoms), dict(opaque), list(events), None))
                    return
                (stmts, i), cont = cont[-1], cont[:-1]
                continue
            st = stmts[i]
            i += 1
            if isinstance(st, ast.If):
                v = self.eval_cond(st.test, atoms, opaque)
                if v is True:
                    cont = cont + [(stmts, i)]
                    stmts, i = st.body, 0
                    continue
                if v is False:
                    if st.orelse:
                        cont = cont + [(stmts, i)]
                        stmts, i = st.orelse, 0
                    continue
                # unknown
                rc = self.always_raises(st.body)
                if rc and not st.orelse:
                    events.append(Event('may_raise', rc, st, node_text(st.test, 120)))
                    self._note_calls(st.test, events)
                    continue
                key = node_text(st.test, 200)
                for val in (True, False):
                    op2 = dict(opaque)
                    op2[key] = val
                    ev2 = list(events)
                    self._note_calls(st.test, ev2)
                    branch = st.body if val else st.orelse
                    self._walk(branch, 0, atoms, op2, ev2, results, cont + [(stmts, i)])
                return
            if isinstance(st, ast.Raise):
                events.append(Event('raise', self.raise_class(st), st))
                results.append(PathResult(dict(atoms), dict(opaque), list(events), (self.raise_class(st), st)))
                return
            if isinstance(st, ast.Return):
                results.append(PathResult(dict(atoms), dict(opaque), list(events), None))
                return
            if isinstance(st, ast.Assert):
                v = self.eval_cond(st.test, atoms, opaque)
                if v is False:
                    events.append(Event('raise', 'AssertionError', st))
                    results.append(PathResult(dict(atoms), dict(opaque), list(events), ('AssertionError', st)))
                    return
                continue
            if isinstance(st, (ast.Assign, ast.AugAssign, ast.Expr)):
                self._simple(st, events)
                continue
            if isinstance(st, ast.Pass):
                continue
            raise Undecided('statement kind {} in the shallow parser is outside the enumerated idioms'.format(type(st).__name__), st)

    def _note_calls(self, expr, events):
        for c in walk_no_nested(expr):
            if isinstance(c, ast.Call):
                self._call_event(c, events, None)

    def _call_event(self, c, events, st):
        nm = call_name(c) or ''
        last = nm.split('.')[-1]
        if last in ('set_header', 'write', 'finish', 'get_warnings') and 'writer' in nm:
            events.append(Event('sink', last, c, {'receiver': dotted(c.func.value), 'args': [node_text(a, 80) for a in c.args]}))
        elif last in ('handle_query_modifier', 'get_variables_map', 'get_header', 'get_record', 'get_iterator_by_table_id', 'build'):
            events.append(Event('call', nm, c, {'args': [node_text(a, 80) for a in c.args]}))
        elif nm in self.may_raise and self.may_raise[nm]:
            events.append(Event('may_raise_call', nm, c, sorted(self.may_raise[nm])))

    def _simple(self, st, events):
        value = st.value
        # nested calls first (evaluation order: arguments before the store)
        for c in walk_no_nested(value):
            if isinstance(c, ast.Call):
                self._call_event(c, events, st)
        if isinstance(st, ast.Assign) and len(st.targets) == 1:
            t = st.targets[0]
            d = dotted(t)
            if d == self.ctx_param + '.writer':
                v = st.value
                if isinstance(v, ast.Call) and isinstance(v.func, ast.Name) and v.args and dotted(v.args[0]) == self.ctx_param + '.writer':
                    events.append(Event('wrap', v.func.id, st, {'args': [node_text(a, 60) for a in v.args[1:]] + ['{}={}'.format(k.arg, node_text(k.value, 60)) for k in v.keywords]}))
                else:
                    events.append(Event('writer_store', node_text(v, 80), st))
            elif d and d.startswith(self.ctx_param + '.'):
                events.append(Event('store', d.split('.', 1)[1], st, st.value))
            elif d:
                events.append(Event('def', d, st, st.value))
            elif isinstance(t, (ast.Tuple, ast.List)):
                for el in t.elts:
                    dd = dotted(el)
                    if dd:
                        events.append(Event('def', dd, st, st.value))
        elif isinstance(st, ast.Expr) and isinstance(st.value, ast.Call):
            c = st.value
            if isinstance(c.func, ast.Attribute) and c.func.attr in ('insert', 'unshift', 'append', 'push', 'remove', 'extend') and dotted(c.func.value):
                events.append(Event('mutate', '{}.{}'.format(dotted(c.func.value), c.func.attr), st, c))


def may_raise_summary(port, modname):
    """function name -> set of Rbql* error classes it may raise, transitively (module-local call graph by name)."""
    direct = {}
    calls = {}
    for key, fd in port.funcs.items():
        m, q = key.split(':')
        if m != modname:
            continue
        name = q
        rs = set()
        cs = set()
        for n in walk_no_nested(fd):
            if isinstance(n, ast.Raise) and n.exc is not None and isinstance(n.exc, ast.Call):
                d = (dotted(n.exc.func) or '').split('.')[-1]
                if d.startswith('Rbql'):
                    rs.add(d)
            if isinstance(n, ast.Call):
                cn = call_name(n)
                if cn:
                    cs.add(cn)
        direct[name] = rs
        calls[name] = cs
    changed = True
    while changed:
        changed = False
        for f in direct:
            for c in calls[f]:
                if c in direct and not direct[c] <= direct[f]:
                    direct[f] |= direct[c]
                    changed = True
    return direct


def callee_constraints(port, modname, walker):
    """Postconditions of separate_actions over the keyword atoms, imported from its own raise guards / asserts.
    Returns list of (ast cond over `result`, error class, node): configuration is infeasible (raises) when cond is true."""
    fd = port.func(modname, 'separate_actions')
    res_var = None
    for st in reversed(fd.body):
        if isinstance(st, ast.Return) and isinstance(st.value, ast.Name):
            res_var = st.value.id
            break
    out = []
    if res_var is None:
        return out, None
    # boolean flags bound once at the top level to a test over the result (`has_select = SELECT in result`) stand for that test
    from .pathsem import subst as _subst
    flags = {}
    for st in fd.body:
        if isinstance(st, ast.Assign) and len(st.targets) == 1 and isinstance(st.targets[0], ast.Name) and isinstance(st.value, (ast.Compare, ast.BoolOp, ast.UnaryOp, ast.Call)) and res_var in names_in(st.value):
            nm = st.targets[0].id
            if sum(1 for x in ast.walk(fd) if isinstance(x, ast.Name) and x.id == nm and isinstance(x.ctx, ast.Store)) == 1:
                flags[nm] = st.value
    for st in fd.body:
        if isinstance(st, ast.If) and not st.orelse and walker.always_raises(st.body) and flags and (names_in(st.test) & set(flags)):
            t_ = _subst(st.test, flags)
            if res_var in names_in(t_):
                out.append((t_, walker.always_raises(st.body), st))
                continue
        if isinstance(st, ast.If) and not st.orelse and walker.always_raises(st.body) and res_var in names_in(st.test):
            out.append((st.test, walker.always_raises(st.body), st))
        if isinstance(st, ast.Assert) and res_var in names_in(st.test):
            out.append((ast.UnaryOp(op=ast.Not(), operand=st.test), 'AssertionError', st))
    return out, res_var


def eval_xor_aware(walker, e, atoms):
    """eval_cond extended with `a != b` / `a == b` over atoms (JS asserts hasOwnProperty(SELECT) != hasOwnProperty(UPDATE))."""
    if isinstance(e, ast.Compare) and len(e.ops) == 1 and isinstance(e.ops[0], (ast.NotEq, ast.Eq)):
        a = walker.eval_cond(e.left, atoms, {})
        b = walker.eval_cond(e.comparators[0], atoms, {})
        if a is not None and b is not None:
            return (a != b) if isinstance(e.ops[0], ast.NotEq) else (a == b)
    if isinstance(e, ast.UnaryOp) and isinstance(e.op, ast.Not):
        v = eval_xor_aware(walker, e.operand, atoms)
        return None if v is None else (not v)
    return walker.eval_cond(e, atoms, {})


def build_table(port, modname):
    """Returns (walker, rows) where rows = list of PathResult over all keyword configurations."""
    w = ParserWalker(port, modname)
    constraints, res_var = callee_constraints(port, modname, w)
    saved = w.actions_var
    atoms_list = ['SELECT', 'UPDATE', 'JOIN', 'WHERE', 'ORDER BY', 'GROUP BY', 'EXCEPT', 'WITH', 'TOP', 'SELECT.distinct', 'SELECT.distinct_count']
    has_from = 'FROM' in w.consts.values()
    rows = []
    n_configs = 0
    for bits in itertools.product([False, True], repeat=len(atoms_list)):
        atoms = dict(zip(atoms_list, bits))
        atoms['FROM'] = False
        atoms['LIMIT'] = False  # LIMIT only feeds find_top -> the TOP atom
        if atoms['SELECT.distinct_count'] and not atoms['SELECT.distinct']:
            continue  # separate_actions sets distinct_count only together with distinct
        if not atoms['SELECT'] and (atoms['SELECT.distinct'] or atoms['SELECT.distinct_count']):
            continue
        n_configs += 1
        # constraints imported from separate_actions
        infeasible = None
        w.actions_var = res_var
        for cond, cls, node in constraints:
            if eval_xor_aware(w, cond, atoms) is True:
                infeasible = (cls, node)
                break
        w.actions_var = saved
        if infeasible:
            rows.append(PathResult(dict(atoms), {}, [Event('raise', infeasible[0], infeasible[1])], infeasible))
            continue
        if not atoms['SELECT'] and atoms['TOP']:
            # top_count stays None without SELECT (it is only assigned under the SELECT arm); the walker handles that itself
            pass
        rows.extend(w.run(atoms))
    return w, rows, n_configs
