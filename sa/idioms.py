"""Idiom tables: accepted and contradicting spellings recognised by the rules (one line of reason each)."""
import ast

from .model import dotted, is_none

# mutating method names (receiver is modified in place)
PY_MUTATORS = {'append', 'extend', 'insert', 'pop', 'remove', 'clear', 'sort', 'reverse', 'update', 'add', 'discard', 'setdefault', 'popitem', '__setitem__', '__delitem__'}
JS_MUTATORS = {'push', 'pop', 'shift', 'unshift', 'splice', 'sort', 'reverse', 'fill', 'set', 'add', 'delete', 'clear', 'copyWithin'}
MUTATORS = PY_MUTATORS | JS_MUTATORS


def is_name(e, name):
    return isinstance(e, ast.Name) and e.id == name


def copy_source(e):
    """If `e` is a recognised *fresh shallow copy* of some expression x, return x; else None.
       x[:]            slicing allocates                      list(x)      constructor copies
       x.copy()        list.copy                              x + []       concatenation allocates
       x.slice()       Array.prototype.slice copies           x.concat()   concat without args copies
       [...x] / [*x]   spread into a new literal              Array.from(x)
    """
    if isinstance(e, ast.Subscript) and isinstance(e.slice, ast.Slice) and e.slice.lower is None and e.slice.upper is None and e.slice.step is None:
        return e.value
    if isinstance(e, ast.Call):
        d = dotted(e.func)
        if d in ('list', 'Array.from', 'tuple') and len(e.args) == 1 and not e.keywords:
            return e.args[0]
        if isinstance(e.func, ast.Attribute) and e.func.attr in ('copy', 'slice', 'concat') and not e.args:
            return e.func.value
        if d == 'copy.copy' and len(e.args) == 1:
            return e.args[0]
    if isinstance(e, ast.BinOp) and isinstance(e.op, ast.Add):
        if isinstance(e.right, ast.List) and not e.right.elts:
            return e.left
        if isinstance(e.left, ast.List) and not e.left.elts:
            return e.right
    if isinstance(e, ast.List) and len(e.elts) == 1 and isinstance(e.elts[0], ast.Starred):
        return e.elts[0].value
    return None


def concat_operands(e):
    """x + y  /  x.concat(y)  /  [...x, ...y]  ->  [x, y]; else None."""
    if isinstance(e, ast.BinOp) and isinstance(e.op, ast.Add):
        l = concat_operands(e.left) or [e.left]
        r = concat_operands(e.right) or [e.right]
        return l + r
    if isinstance(e, ast.Call) and isinstance(e.func, ast.Attribute) and e.func.attr == 'concat' and e.args:
        l = concat_operands(e.func.value) or [e.func.value]
        out = list(l)
        for a in e.args:
            out.extend(concat_operands(a) or [a])
        return out
    if isinstance(e, ast.List) and e.elts and all(isinstance(x, ast.Starred) for x in e.elts):
        return [x.value for x in e.elts]
    return None


def is_true(e):
    return isinstance(e, ast.Constant) and e.value is True


def is_false(e):
    return isinstance(e, ast.Constant) and e.value is False


def negated(e):
    """`not X` -> X ; else None"""
    if isinstance(e, ast.UnaryOp) and isinstance(e.op, ast.Not):
        return e.operand
    return None


def is_none_test(e, positive=True):
    """`x is None` (positive) / `x is not None` (negative): returns x or None.  Also `x == None` spellings."""
    if isinstance(e, ast.Compare) and len(e.ops) == 1 and is_none(e.comparators[0]):
        op = e.ops[0]
        if positive and isinstance(op, (ast.Is, ast.Eq)):
            return e.left
        if not positive and isinstance(op, (ast.IsNot, ast.NotEq)):
            return e.left
    return None


def increment_of(st, name):
    """`name += k` or `name = name + k` (k constant) -> k ; else None."""
    if isinstance(st, ast.AugAssign) and is_name(st.target, name) and isinstance(st.op, ast.Add) and isinstance(st.value, ast.Constant):
        return st.value.value
    if isinstance(st, ast.Assign) and len(st.targets) == 1 and is_name(st.targets[0], name) and isinstance(st.value, ast.BinOp) and isinstance(st.value.op, ast.Add):
        l, r = st.value.left, st.value.right
        if is_name(l, name) and isinstance(r, ast.Constant):
            return r.value
        if is_name(r, name) and isinstance(l, ast.Constant):
            return l.value
    return None


# ------------------------------------------------------------------------------------------------ pure memo tables
PURE_FUNCS = {'re.compile', 're.escape', 'str', 'int', 'float', 'bool', 'tuple', 'frozenset', 'len', 'repr', 'chr', 'ord', 'RegExp', 'String', 'Number'}
PURE_METHODS = {'join', 'format', 'replace', 'lower', 'upper', 'strip', 'lstrip', 'rstrip', 'encode', 'decode', 'get', 'startswith', 'endswith', 'toLowerCase', 'toUpperCase'}


def pure_memo_store(fd, store, table_name, module_consts):
    """Is `store` (TABLE[K] = V, or TABLE.set(K, V)) inside fd the filling of a pure memo table?  That is: everything V is computed from
    is also part of the key K (through the function's local definitions), the computation uses only side-effect free operations
    with immutable results, and every store into TABLE in this function has that shape.  Such a table is unobservable: a hit
    returns what a miss would compute.  (Whether a *mutable* cached value is modified by its users is the ownership analysis'
    question, not this one.)  Returns a short description, or None."""
    if isinstance(store, ast.Assign) and isinstance(store.targets[0], ast.Subscript):
        key, val = store.targets[0].slice, store.value
    elif isinstance(store, ast.Call) and isinstance(store.func, ast.Attribute) and store.func.attr == 'set' and len(store.args) == 2:
        key, val = store.args
    else:
        return None
    params = {a.arg for a in fd.args.args + fd.args.kwonlyargs}
    defs = {}
    for n in ast.walk(fd):
        if isinstance(n, ast.Assign) and len(n.targets) == 1 and isinstance(n.targets[0], ast.Name):
            v = n.value
            # a look-up in the table itself is not an input of the computation
            if isinstance(v, ast.Call) and isinstance(v.func, ast.Attribute) and v.func.attr == 'get' and isinstance(v.func.value, ast.Name) and v.func.value.id == table_name:
                continue
            if isinstance(v, ast.Subscript) and isinstance(v.value, ast.Name) and v.value.id == table_name:
                continue
            defs.setdefault(n.targets[0].id, []).append(v)
        elif isinstance(n, (ast.AugAssign, ast.For, ast.With, ast.NamedExpr)) or (isinstance(n, ast.Assign) and not isinstance(n.targets[0], ast.Name) and n is not store):
            if isinstance(n, ast.Assign) and isinstance(n.targets[0], ast.Subscript) and isinstance(n.targets[0].value, ast.Name) and n.targets[0].value.id == table_name:
                continue
            return None      # anything beyond straight-line definitions: not the idiom

    def deps(e, seen):
        out = set()
        for x in ast.walk(e):
            if isinstance(x, ast.Call):
                d = None
                if isinstance(x.func, ast.Name):
                    d = x.func.id
                elif isinstance(x.func, ast.Attribute) and isinstance(x.func.value, ast.Name) and x.func.value.id == 're':
                    d = 're.' + x.func.attr
                if d is not None:
                    if d not in PURE_FUNCS:
                        return None
                elif isinstance(x.func, ast.Attribute):
                    if x.func.attr not in PURE_METHODS:
                        return None
                else:
                    return None
            elif isinstance(x, ast.Attribute) and not isinstance(getattr(x, 'parent', None), ast.Call):
                if not (isinstance(x.value, ast.Name) and x.value.id == 're'):
                    return None      # object state is not part of the key
            elif isinstance(x, ast.Name) and isinstance(x.ctx, ast.Load):
                if x.id in params:
                    out.add(x.id)
                elif x.id in defs:
                    if x.id in seen:
                        continue
                    for v in defs[x.id]:
                        d = deps(v, seen | {x.id})
                        if d is None:
                            return None
                        out |= d
                elif x.id in module_consts or x.id in ('re', 'None', 'True', 'False') or x.id in PURE_FUNCS:
                    continue
                else:
                    return None
        return out
    dk, dv = deps(key, set()), deps(val, set())
    if dk is None or dv is None or not dv <= dk:
        return None
    return 'value computed only from the key components {}'.format(sorted(dk))


def difference_comparator(fn):
    """For a two-parameter comparator `(a, b) => K(a) - K(b)` (arrow / lambda with an expression body, or a function whose body is
    one return): ('asc', K-text) when the first parameter is the minuend, ('desc', K-text) when it is the subtrahend; None when the
    function has another shape.  K-text is the key expression with the parameter replaced by `_` (`_` for the value itself,
    `_[1]` for its second element)."""
    import ast as _ast
    params = body = None
    if isinstance(fn, _ast.Lambda):
        params, body = [a.arg for a in fn.args.args], fn.body
    else:
        ref = getattr(fn, 'js_function_ref', None) if not isinstance(fn, _ast.FunctionDef) else fn
        if ref is not None:
            sts = [s_ for s_ in ref.body if not isinstance(s_, _ast.Pass)]
            if len(sts) == 1 and isinstance(sts[0], _ast.Return) and sts[0].value is not None:
                params, body = [a.arg for a in ref.args.args], sts[0].value
    if params is None or len(params) != 2 or not (isinstance(body, _ast.BinOp) and isinstance(body.op, _ast.Sub)):
        return None

    def key_of(e, prm):
        names = {x.id for x in _ast.walk(e) if isinstance(x, _ast.Name)}
        if names != {prm}:
            return None
        return _ast.unparse(e).replace(prm, '_') if hasattr(_ast, 'unparse') else None
    l0, r1 = key_of(body.left, params[0]), key_of(body.right, params[1])
    if l0 is not None and l0 == r1:
        return ('asc', l0)
    l1, r0 = key_of(body.left, params[1]), key_of(body.right, params[0])
    if l1 is not None and l1 == r0:
        return ('desc', l1)
    return None


def exists_predicates(fd):
    """Names (and expressions) of fd that mean "some element of a sequence satisfies P":
         flag = False; for x in seq: flag = flag or P(x)          flag = False; for x in seq: if P(x): flag = True
         flag = any(P(x) for x in seq)                            flag = seq.some(x => P(x))
    -> {name: (P as an expression, element variable name, sequence expression)}."""
    import ast as _ast
    out = {}

    def lam(fn):
        if isinstance(fn, _ast.Lambda) and fn.args.args:
            return fn.args.args[0].arg, fn.body
        ref = getattr(fn, 'js_function_ref', None)
        if ref is not None and ref.args.args:
            sts = [s_ for s_ in ref.body if not isinstance(s_, _ast.Pass)]
            if len(sts) == 1 and isinstance(sts[0], _ast.Return) and sts[0].value is not None:
                return ref.args.args[0].arg, sts[0].value
        return None
    for n in _ast.walk(fd):
        if isinstance(n, _ast.Assign) and len(n.targets) == 1 and isinstance(n.targets[0], _ast.Name):
            v = n.value
            if isinstance(v, _ast.Call) and isinstance(v.func, _ast.Name) and v.func.id == 'any' and len(v.args) == 1 and isinstance(v.args[0], (_ast.GeneratorExp, _ast.ListComp)) and len(v.args[0].generators) == 1 and not v.args[0].generators[0].ifs and isinstance(v.args[0].generators[0].target, _ast.Name):
                g = v.args[0].generators[0]
                out[n.targets[0].id] = (v.args[0].elt, g.target.id, g.iter)
            if isinstance(v, _ast.Call) and isinstance(v.func, _ast.Attribute) and v.func.attr == 'some' and len(v.args) == 1 and lam(v.args[0]):
                prm, body = lam(v.args[0])
                out[n.targets[0].id] = (body, prm, v.func.value)
        if isinstance(n, _ast.For) and isinstance(n.target, _ast.Name):
            for st in n.body:
                # flag = flag or P(x)
                if isinstance(st, _ast.Assign) and len(st.targets) == 1 and isinstance(st.targets[0], _ast.Name) and isinstance(st.value, _ast.BoolOp) and isinstance(st.value.op, _ast.Or) and len(st.value.values) == 2 and is_name(st.value.values[0], st.targets[0].id):
                    out[st.targets[0].id] = (st.value.values[1], n.target.id, n.iter)
                # if P(x): flag = True
                if isinstance(st, _ast.If) and not st.orelse and len(st.body) == 1 and isinstance(st.body[0], _ast.Assign) and len(st.body[0].targets) == 1 and isinstance(st.body[0].targets[0], _ast.Name) and is_true(st.body[0].value):
                    out[st.body[0].targets[0].id] = (st.test, n.target.id, n.iter)
    # the loop forms need the flag to start False
    for name in list(out):
        inits = [a for a in _ast.walk(fd) if isinstance(a, _ast.Assign) and len(a.targets) == 1 and is_name(a.targets[0], name) and isinstance(a.value, _ast.Constant)]
        if inits and not all(is_false(a.value) for a in inits):
            out.pop(name)
    return out


def forall_predicates(fd):
    """names of fd bound to "every element of a sequence satisfies P": all(P(x) for x in seq) / seq.every(x => P(x))
    -> {name: (P, element variable, sequence)}"""
    import ast as _ast
    out = {}
    for n in _ast.walk(fd):
        if isinstance(n, _ast.Assign) and len(n.targets) == 1 and isinstance(n.targets[0], _ast.Name):
            v = n.value
            if isinstance(v, _ast.Call) and isinstance(v.func, _ast.Name) and v.func.id == 'all' and len(v.args) == 1 and isinstance(v.args[0], (_ast.GeneratorExp, _ast.ListComp)) and len(v.args[0].generators) == 1 and isinstance(v.args[0].generators[0].target, _ast.Name):
                g = v.args[0].generators[0]
                out[n.targets[0].id] = (v.args[0].elt, g.target.id, g.iter)
            if isinstance(v, _ast.Call) and isinstance(v.func, _ast.Attribute) and v.func.attr == 'every' and len(v.args) == 1:
                fn = v.args[0]
                prm = body = None
                if isinstance(fn, _ast.Lambda) and fn.args.args:
                    prm, body = fn.args.args[0].arg, fn.body
                else:
                    ref = getattr(fn, 'js_function_ref', None)
                    if ref is not None and ref.args.args and len(ref.body) == 1 and isinstance(ref.body[0], _ast.Return):
                        prm, body = ref.args.args[0].arg, ref.body[0].value
                if prm is not None and body is not None:
                    out[n.targets[0].id] = (body, prm, v.func.value)
    return out


def _minus_one(e):
    return (isinstance(e, ast.UnaryOp) and isinstance(e.op, ast.USub) and isinstance(e.operand, ast.Constant) and e.operand.value == 1) or (isinstance(e, ast.Constant) and e.value == -1)


def membership(e):
    """`key in box` in any spelling of either port -> (key, box, positive); None when e is not a membership test.
    Spellings: `k in b`, `k not in b`, `b.hasOwnProperty(k)`, `b.has(k)`, `b.includes(k)`, `b.__contains__(k)`, `b.indexOf(k) != -1 / >= 0 / > -1 / == -1 / < 0`,
    `b.get(k) is not None` is NOT one (a stored None would differ)."""
    pos = True
    while isinstance(e, ast.UnaryOp) and isinstance(e.op, ast.Not):
        e, pos = e.operand, not pos
    if isinstance(e, ast.Compare) and len(e.ops) == 1:
        op, l, r = e.ops[0], e.left, e.comparators[0]
        if isinstance(op, (ast.In, ast.NotIn)):
            return (l, r, pos == isinstance(op, ast.In))
        if isinstance(l, ast.Call) and isinstance(l.func, ast.Attribute) and l.func.attr in ('indexOf', 'find') and len(l.args) == 1 and not l.keywords:
            zero = isinstance(r, ast.Constant) and r.value == 0 and not isinstance(r.value, bool)
            if _minus_one(r) and isinstance(op, (ast.NotEq, ast.Gt, ast.IsNot)):
                return (l.args[0], l.func.value, pos)
            if _minus_one(r) and isinstance(op, (ast.Eq, ast.Is, ast.LtE)):
                return (l.args[0], l.func.value, not pos)
            if zero and isinstance(op, ast.GtE):
                return (l.args[0], l.func.value, pos)
            if zero and isinstance(op, ast.Lt):
                return (l.args[0], l.func.value, not pos)
        return None
    if isinstance(e, ast.Call) and isinstance(e.func, ast.Attribute) and e.func.attr in ('hasOwnProperty', 'has', 'includes', '__contains__') and len(e.args) == 1 and not e.keywords:
        return (e.args[0], e.func.value, pos)
    return None
