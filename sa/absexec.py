"""Bounded exploration of a small function over an abstract domain (DESIGN.md 3.x "abstract-domain model checking").

The function's IR (Python `ast`, either port) is interpreted over abstract values supplied by the rule: a hook answers the calls and
attribute reads that touch the environment (e.g. "read the next physical line" -> one of {end of input, line with an even number of
quotes, line with an odd number of quotes}).  Wherever the hook offers several abstract answers the exploration forks, so that every
sequence of abstract answers up to a bound is covered; each complete run yields the answers consumed and the outcome (value returned
or error raised).  The rule then compares each outcome with what the property requires for that sequence of answers.

Nothing of the repository is executed: the interpreter walks the AST, knows a small whitelist of pure operations, and gives up
(Undecided) on anything else.  Independent of statement layout: flags, early returns, `while True`/`break`, sentinel iterators and
helper methods all denote the same abstract transition system."""
import ast

from .core import Undecided


class Abs(object):
    """an abstract value: kind + properties (identity matters: the same line object is the same line)"""
    _n = 0

    def __init__(self, kind, **props):
        self.kind = kind
        self.props = props
        Abs._n += 1
        self.uid = Abs._n

    def __repr__(self):
        return '{}({})'.format(self.kind, ','.join('{}={}'.format(k, v) for k, v in sorted(self.props.items())))


class LazyIter(object):
    """iter(callable, sentinel)"""
    def __init__(self, fn, sentinel):
        self.fn, self.sentinel = fn, sentinel


class LazyGen(object):
    """a generator expression: its elements are computed when asked for (next(), a for loop, all() / any() stop early); handing it to
    any other operation takes all remaining elements"""
    def __init__(self, it):
        self.it = it

    def __iter__(self):
        return self.it

    def rest(self):
        return list(self.it)


class JSMatch(list):
    """the array RegExp.prototype.exec returns: the matched text, the groups, and the position as `.index`"""
    index = 0
    input = ''


class DepthBound(Undecided):
    pass


class Raised(Exception):
    def __init__(self, value, node):
        self.value, self.node = value, node


class _Return(Exception):
    def __init__(self, value, node):
        self.value, self.node = value, node


class _Break(Exception):
    pass


class _Continue(Exception):
    pass


class _NeedChoice(Exception):
    def __init__(self, n):
        self.n = n


class Cut(Exception):
    """the run needs more abstract answers than the bound allows: not an outcome"""


NOT_HANDLED = object()
_NO_SUPER = object()


class Run(object):
    def __init__(self):
        self.choices = []       # (label, index, value) in the order taken
        self.outcome = None     # ('return', value, node) | ('raise', value, node)
        self.effects = []       # whatever the hooks recorded
        self.state = {}         # attribute store of `self` / module state


class Explorer(object):
    """hooks:
         on_call(ex, node, fname, recv, args) -> value | NOT_HANDLED      (fname: dotted text of the callee, recv: evaluated receiver or None)
         on_attr(ex, node, obj, attr) -> value | NOT_HANDLED
       ex.choose(label, options) inside a hook forks the exploration."""

    def __init__(self, port, modname, on_call=None, on_attr=None, max_choices=6, max_steps=20000, follow=True, on_name=None):
        self.port, self.modname = port, modname
        self.on_call, self.on_attr, self.on_name = on_call, on_attr, on_name
        self.max_choices, self.max_steps = max_choices, max_steps
        self.follow = follow
        self.run = None
        self._script = []
        self._pos = 0
        self.steps = 0
        self.depth = 0

    # ---- exploration driver
    def explore(self, fd, args, cls=None):
        """all runs of fd(*args): list of Run (cut runs are dropped, their number is returned too)"""
        self.cls = cls
        runs, cut = [], 0
        todo = [[]]
        while todo:
            script = todo.pop()
            self._script, self._pos, self.steps, self.depth = script, 0, 0, 0
            self.run = Run()
            try:
                try:
                    v = self.call_fd(fd, list(args(self) if callable(args) else args))
                    self.run.outcome = ('return', v, fd)
                except Raised as r:
                    self.run.outcome = ('raise', r.value, r.node)
                runs.append(self.run)
            except _NeedChoice as nc:
                if len(script) >= self.max_choices:
                    cut += 1
                else:
                    for i in range(nc.n):
                        todo.append(script + [i])
            except Cut:
                cut += 1
            if len(runs) + cut > 5000:
                raise Undecided('abstract exploration exceeds 5000 runs', fd)
        return runs, cut

    def choose(self, label, options):
        if self._pos < len(self._script):
            i = self._script[self._pos]
            self._pos += 1
            v = options[i]() if callable(options[i]) else options[i]
            self.run.choices.append((label, i, v))
            return v
        raise _NeedChoice(len(options))

    # ---- functions
    def find_method(self, clsname, m, above=False):
        """the definition of method m that an instance of class clsname uses (own definition, else the bases' in order); with above=True
        the search starts in the bases (what `super` names)"""
        seen = set()

        def rec(cn, skip):
            if cn in seen or len(seen) > 8:
                return None
            seen.add(cn)
            if not skip:
                fd = self.port.func(self.modname, '{}.{}'.format(cn, m), required=False)
                if fd is not None:
                    return fd
            cdef = self.port.cls(self.modname, cn, required=False)
            for b in (cdef.bases if cdef is not None else []):
                if isinstance(b, ast.Name):
                    fd = rec(b.id, False)
                    if fd is not None:
                        return fd
            return None
        return rec(clsname, above)

    def _defining_class(self):
        fd = self._fd_stack[-1] if getattr(self, '_fd_stack', None) else None
        while fd is not None and not isinstance(fd, ast.ClassDef):
            fd = getattr(fd, 'parent', None)
        return fd.name if fd is not None else None

    def call_fd(self, fd, args, kwargs=None, outer=None):
        if not hasattr(self, '_fd_stack'):
            self._fd_stack = []
        self._fd_stack.append(fd)
        try:
            return self._call_fd(fd, args, kwargs, outer)
        finally:
            self._fd_stack.pop()

    def _call_fd(self, fd, args, kwargs=None, outer=None):
        self.depth += 1
        if self.depth > getattr(self, 'max_depth', 6):
            raise DepthBound('call depth bound reached in abstract exploration', fd)
        params = [a.arg for a in fd.args.args]
        env = dict(outer) if outer else {}       # a closure reads the variables of the function it was defined in (as they are now)
        defaults = fd.args.defaults
        kwargs = kwargs or {}
        for i, p in enumerate(params):
            if i < len(args):
                env[p] = args[i]
            elif p in kwargs:
                env[p] = kwargs[p]
            else:
                di = i - (len(params) - len(defaults))
                if di < 0:
                    raise Undecided('missing argument {} for {}'.format(p, fd.name), fd)
                env[p] = self.expr(defaults[di], {})
        is_gen = any(isinstance(x, (ast.Yield, ast.YieldFrom)) for st_ in fd.body for x in ast.walk(st_) if not isinstance(st_, (ast.FunctionDef, ast.ClassDef)))
        if is_gen:
            # a generator is run to its end and stands for the list of what it yields (the models consume generators completely and
            # the producers they meet have no effects of their own)
            if not hasattr(self, '_yields'):
                self._yields = []
            self._yields.append([])
        try:
            self.block(fd.body, env)
            return self._yields[-1] if is_gen else None
        except _Return as r:
            return self._yields[-1] if is_gen else r.value
        finally:
            self.depth -= 1
            if is_gen:
                self._yields.pop()
            if outer is not None and getattr(self.port, 'name', 'py') == 'js':
                # a JS closure assigns the variables of the enclosing function themselves (those it does not declare or take as parameters)
                own = set(params)
                for n_ in ast.walk(fd):
                    if isinstance(n_, ast.Assign) and getattr(n_, 'js_declared', False):
                        for t_ in n_.targets:
                            own |= {x.id for x in ast.walk(t_) if isinstance(x, ast.Name)}
                    elif isinstance(n_, ast.For):
                        own |= {x.id for x in ast.walk(n_.target) if isinstance(x, ast.Name)}
                for k_, v_ in env.items():
                    if k_ in outer and k_ not in own and outer[k_] is not v_:
                        outer[k_] = v_

    def tick(self, node):
        self.steps += 1
        if self.steps > self.max_steps:
            raise Cut()

    # ---- statements
    def block(self, stmts, env):
        for st in stmts:
            self.stmt(st, env)

    def stmt(self, st, env):
        self.tick(st)
        if isinstance(st, ast.Assign):
            v = self.expr(st.value, env)
            for t in st.targets:
                self.assign(t, v, env)
        elif isinstance(st, ast.AnnAssign):
            if st.value is not None:
                self.assign(st.target, self.expr(st.value, env), env)
        elif isinstance(st, ast.AugAssign):
            load = _as_load(st.target)
            cur, inc = self.expr(load, env), self.expr(st.value, env)
            if getattr(self.port, 'name', 'py') == 'py' and isinstance(st.op, ast.Add) and type(cur) is list and isinstance(inc, (list, tuple)):
                cur.extend(inc)          # list += iterable extends the list object itself
                v = cur
            else:
                v = self.binop(st.op, cur, inc, st)
            self.assign(st.target, v, env)
        elif isinstance(st, ast.Import) and all(al.name in ('heapq', 're', 'math', 'os', 'sys', 'itertools', 'functools', 'collections', 'traceback') for al in st.names):
            for al in st.names:
                env[al.asname or al.name] = ('global', al.name)       # a local import of a library module the interpreter knows by name
        elif isinstance(st, ast.Expr):
            self.expr(st.value, env)
        elif isinstance(st, ast.Return):
            raise _Return(self.expr(st.value, env) if st.value is not None else None, st)
        elif isinstance(st, ast.Raise):
            raise Raised(self.expr(st.exc, env) if st.exc is not None else None, st)
        elif isinstance(st, ast.If):
            self.block(st.body if self.truth(self.expr(st.test, env), st.test) else st.orelse, env)
        elif isinstance(st, ast.While):
            broke = False
            while self.truth(self.expr(st.test, env), st.test):
                self.tick(st)
                try:
                    self.block(st.body, env)
                except _Break:
                    broke = True
                    break
                except _Continue:
                    continue
            if not broke and st.orelse:
                self.block(st.orelse, env)
        elif isinstance(st, ast.For):
            it = self.expr(st.iter, env)
            broke = False
            for v in self.iterate(it, st):
                self.tick(st)
                self.assign(st.target, v, env)
                try:
                    self.block(st.body, env)
                except _Break:
                    broke = True
                    break
                except _Continue:
                    continue
            if not broke and st.orelse:
                self.block(st.orelse, env)
        elif isinstance(st, ast.Break):
            raise _Break()
        elif isinstance(st, ast.Continue):
            raise _Continue()
        elif isinstance(st, ast.Assert):
            if not self.truth(self.expr(st.test, env), st.test):
                raise Raised(Abs('AssertionError'), st)
        elif isinstance(st, (ast.Pass, ast.Global, ast.Nonlocal)):
            pass
        elif isinstance(st, ast.Delete) and all(isinstance(t, ast.Subscript) for t in st.targets):
            for t in st.targets:
                base = self.expr(t.value, env)
                idx = self.expr(t.slice, env) if not isinstance(t.slice, ast.Slice) else None
                if isinstance(base, list) and isinstance(idx, int):
                    if not -len(base) <= idx < len(base):
                        raise Raised(Abs('IndexError'), st)
                    del base[idx]
                elif isinstance(base, dict) and idx in base:
                    del base[idx]
                elif isinstance(base, list) and isinstance(t.slice, ast.Slice) and t.slice.step is None:
                    lo = self.expr(t.slice.lower, env) if t.slice.lower is not None else None
                    hi = self.expr(t.slice.upper, env) if t.slice.upper is not None else None
                    if not all(b_ is None or (isinstance(b_, int) and not isinstance(b_, bool)) for b_ in (lo, hi)):
                        raise Undecided('del of a slice with abstract bounds', st)
                    del base[lo:hi]
                else:
                    raise Undecided('del outside the abstract interpreter', st)
        elif isinstance(st, ast.Try):
            try:
                self.block(st.body, env)
            except Raised as r:
                for h in st.handlers:
                    hn = getattr(h.type, 'id', getattr(h.type, 'attr', None)) if h.type is not None else None
                    rk = r.value.kind if isinstance(r.value, Abs) else None
                    if hn is None or hn in ('Exception', 'BaseException') or hn == rk:
                        if h.name:
                            env[h.name] = r.value
                        self.block(h.body, env)
                        break
                else:
                    raise
            else:
                self.block(st.orelse, env)
            finally:
                if st.finalbody:
                    self.block(st.finalbody, env)
        elif isinstance(st, ast.FunctionDef):
            env[st.name] = ('closure', st, env)
        elif isinstance(st, ast.With):
            self.block(st.body, env)
        else:
            raise Undecided('statement kind {} is outside the abstract interpreter'.format(type(st).__name__), st)

    def iterate(self, it, node):
        if isinstance(it, LazyGen):
            return it
        if isinstance(it, LazyIter):
            def gen():
                while True:
                    v = it.fn()
                    if v is it.sentinel or (v == it.sentinel and not isinstance(v, Abs)):
                        return
                    yield v
            return gen()
        if isinstance(it, (list, tuple, range)):
            return list(it)
        if isinstance(it, set):
            return list(it)       # the iteration order of the interpreter the repository runs under
        if isinstance(it, dict):
            if getattr(self.port, 'name', 'py') == 'js':
                return [[k_, v_] for k_, v_ in it.items()]       # for-of over a Map: its entries (for-in goes through __keys__)
            return list(it.keys())
        raise Undecided('loop over {!r} in abstract exploration'.format(it), node)

    def assign(self, target, v, env):
        if isinstance(target, ast.Name):
            env[target.id] = v
        elif isinstance(target, (ast.Tuple, ast.List)):
            if not isinstance(v, (list, tuple)) or len(v) != len(target.elts):
                raise Undecided('destructuring mismatch', target)
            for t, x in zip(target.elts, v):
                self.assign(t, x, env)
        elif isinstance(target, ast.Attribute):
            obj = self.expr(target.value, env)
            if isinstance(obj, dict) and getattr(self.port, 'name', 'py') == 'js':
                obj[target.attr] = v
            elif isinstance(obj, Abs):
                self.run.state[(obj.uid, target.attr)] = v
            else:
                raise Undecided('attribute store on {!r}'.format(obj), target)
        elif isinstance(target, ast.Subscript):
            base = self.expr(target.value, env)
            idx = self.expr(target.slice, env)
            if isinstance(base, list) and isinstance(idx, int) and not isinstance(idx, bool):
                if -len(base) <= idx < len(base):
                    base[idx] = v
                elif getattr(self.port, 'name', 'py') == 'js' and idx >= 0:
                    while len(base) < idx:
                        list.append(base, None)          # a JS array grows (with holes) when a position beyond its end is assigned
                    list.append(base, v)
                else:
                    raise Raised(Abs('IndexError'), target)
            elif isinstance(base, dict):
                base[idx] = v
            else:
                raise Undecided('subscript store on {!r}'.format(base), target)
        else:
            raise Undecided('assignment target outside the abstract interpreter', target)

    def truth(self, v, node):
        if v is None or isinstance(v, (bool, int, float, str, list, tuple, dict, set)):
            return bool(v)
        if isinstance(v, Abs):
            if 'truth' in v.props:
                return v.props['truth']
            if v.kind == 'Env':
                # a flag of the environment the model does not track: either value (the choice is remembered for this run)
                key = ('truth', v.props['name'])
                if key not in self.run.state:
                    self.run.state[key] = self.choose('env:' + v.props['name'], [False, True])
                return self.run.state[key]
            return True
        raise Undecided('truth value of {!r} unknown'.format(v), node)

    # ---- expressions
    def expr(self, e, env):
        self.tick(e)
        if isinstance(e, ast.Constant):
            return e.value
        if isinstance(e, ast.Name):
            if e.id in env:
                return env[e.id]
            if self.on_name is not None:
                v = self.on_name(self, e, e.id)
                if v is not NOT_HANDLED:
                    return v
            if e.id in ('None', 'undefined', 'null'):
                return None
            if e.id == 'Infinity':
                return float('inf')
            if e.id in ('True', 'False'):
                return e.id == 'True'
            c = self.port.module_consts(self.modname).get(e.id, NOT_HANDLED) if hasattr(self.port, 'module_consts') else NOT_HANDLED
            if c is not NOT_HANDLED:
                return c
            if e.id in ('len', 'iter', 'str', 'int', 'bool', 'list', 'tuple', 'isinstance', 'range', 'enumerate', 'min', 'max', 'any', 'all', 'type', 'set', 'Set', 'sorted', 'sum', 'Map', 'dict', 'Array', '__regex__', 'reversed', 'Boolean', 'map', 'filter', 'zip', '__keys__', 'typeof', 'String', 'Number', 'next', 'RegExp', 'float'):
                return ('builtin', e.id)
            if e.id in getattr(self.port, 'modules', {}) or e.id in ('re', 'os', 'sys', 'math', 'ast', 'heapq', 'JSON', 'Math', 'Object', 'Buffer', 'csv_utils', 'rbql_engine', 'rbql'):
                return ('global', e.id)
            fd_ = self.port.func(self.modname, e.id, required=False) if hasattr(self.port, 'func') else None
            if fd_ is not None and isinstance(fd_, ast.FunctionDef):
                return ('closure', fd_, {})
            # a module-level table of constants (`WILDCARDS = new Map([['_', '.'], ...])`, a dict / list / tuple literal), bound once
            mod_ = getattr(self.port, 'modules', {}).get(self.modname)
            if mod_ is not None:
                defs_ = [st for st in mod_.body if isinstance(st, ast.Assign) and len(st.targets) == 1 and isinstance(st.targets[0], ast.Name) and st.targets[0].id == e.id]
                def plain_(x):
                    # names a module-level table may mention: container constructors, module functions, module constants
                    return x.id in ('Map', 'Set', 'dict', 'set', 'list', 'tuple', 'None', 'True', 'False', 'null', 'undefined', 'ast', 're', '__regex__') or x.id in self.port.module_consts(self.modname) \
                        or isinstance(self.port.func(self.modname, x.id, required=False), ast.FunctionDef)
                lam_params_ = {a_.arg for l_ in ast.walk(defs_[0].value) if isinstance(l_, ast.Lambda) for a_ in l_.args.args} if len(defs_) == 1 else set()
                in_lambda_ = {id(x) for l_ in ast.walk(defs_[0].value) if isinstance(l_, ast.Lambda) for x in ast.walk(l_)} if len(defs_) == 1 else set()
                if len(defs_) == 1 and isinstance(defs_[0].value, (ast.Dict, ast.List, ast.Tuple, ast.Set, ast.Call, ast.Constant)) and all(plain_(x) or id(x) in in_lambda_ or x.id in ('re',) for x in ast.walk(defs_[0].value) if isinstance(x, ast.Name)) \
                        and not any(isinstance(x, ast.Call) and not (isinstance(x.func, ast.Name) and x.func.id in ('Map', 'Set', 'dict', 'set', 'list', 'tuple', 'frozenset', '__regex__')) for x in ast.walk(defs_[0].value)
                                    if not any(x in list(ast.walk(l_)) for l_ in ast.walk(defs_[0].value) if isinstance(l_, ast.Lambda))):
                    return self.expr(defs_[0].value, {})
                if len(defs_) == 1 and isinstance(defs_[0].value, (ast.IfExp, ast.Name, ast.BoolOp, ast.Compare, ast.BinOp)) and not any(isinstance(x, (ast.Call, ast.Lambda)) for x in ast.walk(defs_[0].value)) \
                        and not any(isinstance(x, ast.Name) and x.id == e.id for x in ast.walk(defs_[0].value)):
                    return self.expr(defs_[0].value, {})      # a module-level alias / choice between constants, evaluated where it is defined
                if len(defs_) == 1 and isinstance(defs_[0].value, ast.Call) and isinstance(defs_[0].value.func, ast.Attribute) and isinstance(defs_[0].value.func.value, ast.Name) and defs_[0].value.func.value.id == 're' \
                        and defs_[0].value.func.attr == 'compile' and len(defs_[0].value.args) == 1 and isinstance(defs_[0].value.args[0], ast.Constant) and isinstance(defs_[0].value.args[0].value, str) and not defs_[0].value.keywords:
                    import re as _re
                    return _re.compile(defs_[0].value.args[0].value)        # a compiled pattern constant of the module
            raise Undecided('name {} unknown in abstract exploration'.format(e.id), e)
        if isinstance(e, (ast.List, ast.Tuple)):
            vals = [self.expr(x, env) for x in e.elts]
            return vals if isinstance(e, ast.List) else tuple(vals)
        if isinstance(e, ast.Dict):
            return {self.expr(k, env): self.expr(v, env) for k, v in zip(e.keys, e.values)}
        if isinstance(e, ast.Attribute):
            obj = self.expr(e.value, env)
            return self.attr(e, obj, e.attr)
        if isinstance(e, ast.Subscript):
            base = self.expr(e.value, env)
            if isinstance(e.slice, ast.Slice):
                lo = self.expr(e.slice.lower, env) if e.slice.lower is not None else None
                hi = self.expr(e.slice.upper, env) if e.slice.upper is not None else None
                if isinstance(base, (list, tuple, str)) and e.slice.step is None:
                    return base[lo:hi]
                raise Undecided('slice of {!r}'.format(base), e)
            idx = self.expr(e.slice, env)
            if getattr(self.port, 'name', 'py') == 'js' and isinstance(idx, str) and idx.isidentifier() and (isinstance(base, Abs) or (isinstance(base, tuple) and len(base) == 2 and base[0] == 'global')):
                return self.attr(e, base, idx)       # obj["name"] is obj.name
            if getattr(self.port, 'name', 'py') == 'js' and isinstance(base, (list, tuple, str)) and isinstance(idx, str) and idx.isdigit() and (idx == '0' or not idx.startswith('0')):
                idx = int(idx)       # array[ "3" ] is array[3]
            if isinstance(base, (list, tuple, str)) and isinstance(idx, int):
                if -len(base) <= idx < len(base):
                    return base[idx]
                if getattr(self.port, 'name', 'py') == 'js':
                    return None
                raise Raised(Abs('IndexError'), e)
            if isinstance(base, dict):
                if idx in base or hasattr(base, 'default_factory'):
                    return base[idx]
                raise Raised(Abs('KeyError'), e)
            raise Undecided('subscript of {!r}'.format(base), e)
        if isinstance(e, ast.BoolOp):
            v = None
            for x in e.values:
                v = self.expr(x, env)
                t = self.truth(v, x)
                if isinstance(e.op, ast.And) and not t:
                    return v
                if isinstance(e.op, ast.Or) and t:
                    return v
            return v
        if isinstance(e, ast.UnaryOp):
            v = self.expr(e.operand, env)
            if isinstance(e.op, ast.Not):
                return not self.truth(v, e.operand)
            if isinstance(e.op, ast.USub) and isinstance(v, (int, float)):
                return -v
            raise Undecided('unary operator on {!r}'.format(v), e)
        if isinstance(e, ast.IfExp):
            return self.expr(e.body if self.truth(self.expr(e.test, env), e.test) else e.orelse, env)
        if isinstance(e, ast.Compare):
            left = self.expr(e.left, env)
            for op, c in zip(e.ops, e.comparators):
                right = self.expr(c, env)
                if not self.compare(op, left, right, e):
                    return False
                left = right
            return True
        if isinstance(e, ast.BinOp):
            return self.binop(e.op, self.expr(e.left, env), self.expr(e.right, env), e)
        if isinstance(e, ast.Call):
            return self.call(e, env)
        if isinstance(e, ast.JoinedStr):
            parts = []
            for x in e.values:
                if isinstance(x, ast.Constant):
                    parts.append(x.value)
                else:
                    v_ = self.expr(x.value, env)
                    parts.append(str(v_) if isinstance(v_, int) and not isinstance(v_, bool) else v_)
            if all(isinstance(x, str) for x in parts):
                return ''.join(parts)
            return Abs('Text', parts=tuple(parts))
        if isinstance(e, ast.NamedExpr) and isinstance(e.target, ast.Name):
            v = self.expr(e.value, env)
            env[e.target.id] = v
            return v
        if isinstance(e, ast.Yield) and getattr(self, '_yields', None):
            self._yields[-1].append(self.expr(e.value, env) if e.value is not None else None)
            return None
        if isinstance(e, ast.Lambda):
            return ('lambda', e, env)
        if isinstance(e, ast.GeneratorExp) and len(e.generators) == 1:
            g = e.generators[0]
            src = self.expr(g.iter, env)         # the outermost iterable is evaluated where the generator expression stands

            def gen(env2=dict(env)):
                for v in self.iterate(src, e):
                    self.assign(g.target, v, env2)
                    if all(self.truth(self.expr(c, env2), c) for c in g.ifs):
                        yield self.expr(e.elt, env2)
            return LazyGen(gen())
        if isinstance(e, ast.DictComp) and len(e.generators) == 1:
            g = e.generators[0]
            outd = {}
            env2 = dict(env)
            for v in self.iterate(self.expr(g.iter, env), e):
                self.assign(g.target, v, env2)
                if all(self.truth(self.expr(c, env2), c) for c in g.ifs):
                    outd[self.expr(e.key, env2)] = self.expr(e.value, env2)
            return outd
        if isinstance(e, ast.ListComp) and len(e.generators) == 1:
            g = e.generators[0]
            out = []
            env2 = dict(env)
            for v in self.iterate(self.expr(g.iter, env), e):
                self.assign(g.target, v, env2)
                if all(self.truth(self.expr(c, env2), c) for c in g.ifs):
                    out.append(self.expr(e.elt, env2))
            return out
        raise Undecided('expression kind {} is outside the abstract interpreter'.format(type(e).__name__), e)

    def attr(self, node, obj, name):
        if isinstance(obj, tuple) and len(obj) == 2 and obj[0] == 'global':
            if obj[1] in getattr(self.port, 'modules', {}) and obj[1] != self.modname:
                # a name of another library module: its function, or its module-level value (evaluated in that module)
                fd_ = self.port.func(obj[1], name, required=False)
                if isinstance(fd_, ast.FunctionDef):
                    return ('modfunc', obj[1], fd_)
                keep = self.modname
                self.modname = obj[1]
                try:
                    return self.expr(ast.copy_location(ast.Name(id=name, ctx=ast.Load()), node), {})
                except Undecided:
                    pass
                finally:
                    self.modname = keep
            return ('global', obj[1] + '.' + name)
        if isinstance(obj, Abs) and (obj.uid, name) in self.run.state:
            return self.run.state[(obj.uid, name)]
        if self.on_attr is not None:
            v = self.on_attr(self, node, obj, name)
            if v is not NOT_HANDLED:
                if isinstance(obj, Abs) and not (isinstance(v, tuple) and v and v[0] == 'nomemo'):
                    self.run.state[(obj.uid, name)] = v
                return v[1] if isinstance(v, tuple) and v and v[0] == 'nomemo' else v
        if name == 'length' and isinstance(obj, (list, tuple, str)):
            return len(obj)
        import re as _re
        if isinstance(obj, JSMatch) and name in ('index', 'input'):
            return getattr(obj, name)
        if isinstance(obj, tuple) and len(obj) == 3 and obj[0] == 'regex' and name == 'lastIndex':
            return getattr(self, '_rx_last', {}).get(id(obj), (0, obj))[0]
        if isinstance(obj, tuple) and len(obj) == 3 and obj[0] == 'regex':
            return ('method', obj, name)
        if isinstance(obj, (_re.Pattern, _re.Match)):
            return ('method', obj, name)
        if isinstance(obj, (float, bytes)):
            return ('method', obj, name)
        if name == 'size' and isinstance(obj, dict) and 'size' not in obj:
            return len(obj)
        if name == 'size' and isinstance(obj, set):
            return len(obj)
        if isinstance(obj, set):
            return ('method', obj, name)
        if isinstance(obj, dict) and getattr(self.port, 'name', 'py') == 'js' and not hasattr(obj, 'default_factory'):
            # a JS object literal: property read (a missing property is undefined)
            if name in obj or name not in ('get', 'set', 'has', 'keys', 'values', 'entries', 'hasOwnProperty', 'delete', 'size'):
                return obj.get(name)
        if isinstance(obj, (list, tuple, str, dict)) or isinstance(obj, Abs):
            return ('method', obj, name)
        if obj is None:
            raise Raised(Abs('AttributeError' if getattr(self.port, 'name', 'py') == 'py' else 'TypeError'), node)
        raise Undecided('attribute {} of {!r} unknown in abstract exploration'.format(name, obj), node)

    def compare(self, op, a, b, node):
        if isinstance(op, (ast.Is, ast.IsNot)):
            r = (a is b) or (not isinstance(a, Abs) and not isinstance(b, Abs) and type(a) is type(b) and a == b and not isinstance(a, (list, dict)))
            return r if isinstance(op, ast.Is) else not r
        if isinstance(op, (ast.Eq, ast.NotEq)):
            if isinstance(a, Abs) or isinstance(b, Abs):
                if a is b:
                    r = True
                elif a is None or b is None:
                    r = False
                elif (isinstance(a, Abs) and a.props.get('distinct')) or (isinstance(b, Abs) and b.props.get('distinct')):
                    r = False        # a value known to differ from every constant and every other abstract value
                else:
                    raise Undecided('equality of abstract values {!r} / {!r}'.format(a, b), node)
            else:
                r = a == b
            return r if isinstance(op, ast.Eq) else not r
        if isinstance(op, (ast.In, ast.NotIn)):
            if isinstance(b, (list, tuple, dict, str)) and not isinstance(a, Abs):
                r = a in b
            elif isinstance(b, (list, tuple)):
                r = any(x is a for x in b)
            elif isinstance(b, str) and isinstance(a, Abs) and a.props.get('distinct'):
                r = False
            else:
                raise Undecided('membership in {!r}'.format(b), node)
            return r if isinstance(op, ast.In) else not r
        if isinstance(a, (int, float)) and isinstance(b, (int, float)):
            return {ast.Lt: a < b, ast.LtE: a <= b, ast.Gt: a > b, ast.GtE: a >= b}[type(op)]
        def plain_(v):
            return (isinstance(v, (int, float, str)) and not isinstance(v, bool)) or (isinstance(v, (tuple, list)) and all(plain_(y) for y in v))
        if getattr(self.port, 'name', 'py') == 'py' and type(a) is type(b) and isinstance(a, (tuple, list)) and plain_(a) and plain_(b):
            try:
                return {ast.Lt: a < b, ast.LtE: a <= b, ast.Gt: a > b, ast.GtE: a >= b}[type(op)]       # lexicographic, as Python compares sequences
            except TypeError:
                raise Raised(Abs('TypeError'), node)
        if getattr(self.port, 'name', 'py') == 'js' and ((isinstance(a, str) and isinstance(b, (int, float)) and not isinstance(b, bool)) or (isinstance(b, str) and isinstance(a, (int, float)) and not isinstance(a, bool))):
            # a relational operator between a numeric text and a number compares numbers
            t_ = a if isinstance(a, str) else b
            if t_.strip().lstrip('+-').replace('.', '', 1).isdigit():
                v_ = float(t_) if '.' in t_ else int(t_)
                a, b = (v_, b) if isinstance(a, str) else (a, v_)
                return {ast.Lt: a < b, ast.LtE: a <= b, ast.Gt: a > b, ast.GtE: a >= b}[type(op)]
        if getattr(self.port, 'name', 'py') == 'js' and isinstance(a, list) and isinstance(b, list) and all(isinstance(x, (str, int)) and not isinstance(x, bool) for x in a + b):
            # relational operators convert arrays to their comma-joined text
            a, b = ','.join(str(x) for x in a), ','.join(str(x) for x in b)
        if isinstance(a, str) and isinstance(b, str) and all(ord(ch) < 0xD800 for ch in a + b):
            # code-unit order of two texts (the same in both languages below the surrogate range)
            return {ast.Lt: a < b, ast.LtE: a <= b, ast.Gt: a > b, ast.GtE: a >= b}[type(op)]
        raise Undecided('comparison of {!r} and {!r}'.format(a, b), node)

    def binop(self, op, a, b, node):
        opaque = lambda x: (isinstance(x, tuple) and len(x) == 3 and x[0] == 'method' and isinstance(x[1], Abs)) or (isinstance(x, Abs) and x.kind in ('Opaque', 'Env'))  # noqa: E731
        if opaque(a) or opaque(b):
            # a counter or other attribute the model does not track
            return Abs('Opaque')
        if isinstance(a, Abs) and a.kind == 'Count' and isinstance(b, int) and b == 2 and isinstance(op, ast.Mod):
            return 1 if a.props['odd'] else 0
        if isinstance(a, Abs) and a.kind == 'Count' and isinstance(b, int) and b == 1 and isinstance(op, ast.BitAnd):
            return 1 if a.props['odd'] else 0
        if isinstance(a, (int, float)) and isinstance(b, (int, float)) and not isinstance(a, bool):
            try:
                return {ast.Add: lambda: a + b, ast.Sub: lambda: a - b, ast.Mult: lambda: a * b, ast.Mod: lambda: a % b, ast.FloorDiv: lambda: a // b,
                        ast.BitAnd: lambda: a & b, ast.BitOr: lambda: a | b, ast.BitXor: lambda: a ^ b}[type(op)]()
            except (KeyError, ZeroDivisionError, TypeError):
                raise Undecided('arithmetic outside the abstract interpreter', node)
        if isinstance(op, ast.Add) and (getattr(a, 'is_abs_str', False) or getattr(b, 'is_abs_str', False)) and isinstance(a, (str, list, Abs)) and isinstance(b, (str, list, Abs)):
            # an abstract string (list of abstract characters) concatenated with text: a text made of both
            return Abs('Text', parts=_parts(a) + _parts(b))
        if isinstance(op, ast.Mult) and isinstance(a, list) and isinstance(b, int) and not isinstance(b, bool) and 0 <= b < 100:
            return a * b
        if isinstance(op, ast.Mult) and isinstance(b, list) and isinstance(a, int) and not isinstance(a, bool) and 0 <= a < 100:
            return b * a
        if isinstance(op, ast.Add) and isinstance(a, list) and isinstance(b, list):
            return a + b
        if isinstance(op, ast.Add) and isinstance(a, tuple) and isinstance(b, tuple):
            return a + b
        if isinstance(op, ast.Add) and isinstance(a, str) and isinstance(b, str):
            return a + b
        if isinstance(op, ast.Add) and getattr(self.port, 'name', 'py') == 'js' and ((isinstance(a, str) and isinstance(b, int)) or (isinstance(a, int) and isinstance(b, str))) and not isinstance(a, bool) and not isinstance(b, bool):
            return str(a) + str(b)
        if isinstance(op, ast.Add) and (isinstance(a, (Abs, str)) and isinstance(b, (Abs, str))):
            return Abs('Text', parts=_parts(a) + _parts(b))
        if isinstance(op, ast.BitXor) and isinstance(a, bool) and isinstance(b, bool):
            return a ^ b
        raise Undecided('operator {} on {!r} and {!r}'.format(type(op).__name__, a, b), node)

    def call(self, e, env):
        from .model import dotted
        fname = dotted(e.func) or ''
        recv = None
        fval = None
        sup = self._super_call(e, env)
        if sup is not _NO_SUPER:
            return sup
        if isinstance(e.func, ast.Attribute):
            if isinstance(e.func.value, ast.Name) and e.func.value.id not in env and (e.func.value.id in ('JSON', 'Math', 'Object', 'Array', 'Number', 'String', 'Buffer', 're', 'os', 'sys', 'math', 'ast', 'heapq') or e.func.value.id in getattr(self.port, 'modules', {})):
                recv = ('global', e.func.value.id)
            else:
                recv = self.expr(e.func.value, env)
        args = []
        for a in e.args:
            if isinstance(a, ast.Starred):
                args.extend(self.expr(a.value, env))
            else:
                args.append(self.expr(a, env))
        kwargs = {k.arg: self.expr(k.value, env) for k in e.keywords if k.arg}
        lazy_ok = isinstance(e.func, ast.Name) and e.func.id in ('next', 'all', 'any', 'iter') and e.func.id not in env
        if not lazy_ok:
            args = [a_.rest() if isinstance(a_, LazyGen) else a_ for a_ in args]
            kwargs = {k_: (v_.rest() if isinstance(v_, LazyGen) else v_) for k_, v_ in kwargs.items()}
        self._kw = kwargs
        if self.on_call is not None:
            self.last_kwargs = kwargs          # keyword arguments of the call the hook is asked about
            v = self.on_call(self, e, fname, recv, args)
            if v is not NOT_HANDLED:
                return v
        if isinstance(e.func, ast.Attribute) and isinstance(recv, tuple) and len(recv) == 2 and recv[0] == 'global' and recv[1] in getattr(self.port, 'modules', {}) and recv[1] != self.modname and self.follow:
            fd_ = self.port.func(recv[1], e.func.attr, required=False)
            if isinstance(fd_, ast.FunctionDef):
                keep = self.modname
                self.modname = recv[1]
                try:
                    return self.call_fd(fd_, args, kwargs)
                finally:
                    self.modname = keep
        if isinstance(e.func, ast.Attribute):
            m = e.func.attr
            # an attribute that holds a bound method (`self.polymorphic_get_key = self.get_single_key`)
            if isinstance(recv, Abs) and isinstance(self.run.state.get((recv.uid, m)), tuple) and len(self.run.state[(recv.uid, m)]) == 3 and self.run.state[(recv.uid, m)][0] == 'method' and self.cls is not None:
                _, obj_, name_ = self.run.state[(recv.uid, m)]
                fd_ = self.port.func(self.modname, '{}.{}'.format(self.cls, name_), required=False)
                if fd_ is not None:
                    return self.call_fd(fd_, [obj_] + args if fd_.args.args and fd_.args.args[0].arg in ('self', 'this') else args, kwargs)
            if isinstance(recv, dict) and m in recv and isinstance(recv[m], tuple) and recv[m] and recv[m][0] in ('lambda', 'closure'):
                return self.apply(recv[m], args, e)      # a function stored in an object literal
            if recv == ('global', 'Array') and m == 'from' and len(args) == 1 and isinstance(args[0], (list, tuple, set)):
                return list(args[0])
            if recv == ('global', 'Object') and m in ('keys', 'values', 'entries') and len(args) == 1 and isinstance(args[0], dict):
                ks = _js_property_order(args[0])
                return [str(k_) for k_ in ks] if m == 'keys' else ([args[0][k_] for k_ in ks] if m == 'values' else [[str(k_), args[0][k_]] for k_ in ks])
            if recv == ('global', 'Math') and m in ('max', 'min') and args and all(isinstance(a, (int, float)) and not isinstance(a, bool) for a in args):
                return max(args) if m == 'max' else min(args)
            # a method of the class under analysis
            if isinstance(recv, Abs) and recv.kind == 'Self' and self.follow and self.cls is not None:
                fd = self.find_method(self.cls, m)
                if fd is not None:
                    return self.call_fd(fd, [recv] + args if fd.args.args and fd.args.args[0].arg in ('self', 'this') else args, kwargs)
            return self.method(recv, m, args, e)
        fval = self.expr(e.func, env)
        if isinstance(fval, tuple) and fval and fval[0] == 'builtin':
            return self.builtin(fval[1], args, e)
        if isinstance(fval, tuple) and fval and fval[0] == 'closure':
            if self.on_call is not None and isinstance(e.func, ast.Name) and fval[1].name != e.func.id and not fval[2]:
                # a module function called through a variable: the model sees it under the function's own name too
                v = self.on_call(self, e, fval[1].name, None, args)
                if v is not NOT_HANDLED:
                    return v
            return self.call_fd(fval[1], args, kwargs, outer=fval[2])
        if isinstance(fval, tuple) and fval and fval[0] == 'method':
            return self.method(fval[1], fval[2], args, e)
        if isinstance(fval, tuple) and len(fval) == 2 and fval[0] == 'global' and '.' in fval[1]:
            mod_, fn_ = fval[1].rsplit('.', 1)          # a library function held in a variable (`pick = heapq.nlargest if r else heapq.nsmallest`)
            return self.method(('global', mod_), fn_, args, e)
        if isinstance(fval, tuple) and fval and fval[0] == 'modfunc':
            keep = self.modname
            self.modname = fval[1]
            try:
                return self.call_fd(fval[2], args, kwargs)
            finally:
                self.modname = keep
        if isinstance(fval, tuple) and fval and fval[0] == 'lambda':
            lam, lenv = fval[1], dict(fval[2])
            for p_, a_ in zip([a.arg for a in lam.args.args], args):
                lenv[p_] = a_
            return self.expr(lam.body, lenv)
        if isinstance(e.func, ast.Name) and self.follow:
            fd = self.port.func(self.modname, e.func.id, required=False)
            if fd is not None:
                return self.call_fd(fd, args, kwargs)
        raise Undecided('call of {} is outside the abstract interpreter'.format(fname or ast.unparse(e.func)), e)

    def _super_call(self, e, env):
        """`super().m(...)`, `super(C, self).m(...)`, `Base.m(self, ...)` (Python) and `super(...)`, `super.m(...)` (JS): the base-class
        definition applied to the current receiver; _NO_SUPER when e is no such call"""
        if self.cls is None or not self.follow:
            return _NO_SUPER
        f = e.func
        here = self._defining_class()
        selfv = env.get('self', env.get('this'))
        if selfv is None:
            return _NO_SUPER
        m, explicit_self = None, False
        base = None
        if isinstance(f, ast.Name) and f.id == 'super' and 'super' not in env:
            m = '__init__'                                                   # JS: super(a, b)
        elif isinstance(f, ast.Attribute) and isinstance(f.value, ast.Name) and f.value.id == 'super' and 'super' not in env:
            m = f.attr                                                       # JS: super.m(a)
        elif isinstance(f, ast.Attribute) and isinstance(f.value, ast.Call) and isinstance(f.value.func, ast.Name) and f.value.func.id == 'super':
            m = f.attr                                                       # super().m(a) / super(C, self).m(a)
            if f.value.args and isinstance(f.value.args[0], ast.Name):
                here = f.value.args[0].id
        elif isinstance(f, ast.Attribute) and isinstance(f.value, ast.Name) and f.value.id not in env and self.port.cls(self.modname, f.value.id, required=False) is not None \
                and e.args and isinstance(e.args[0], ast.Name) and e.args[0].id in ('self', 'this'):
            m, explicit_self, base = f.attr, True, f.value.id                # Base.m(self, a)
        if m is None or here is None:
            return _NO_SUPER
        fd = self.find_method(base, m) if base is not None else self.find_method(here, m, above=True)
        if fd is None:
            if m == '__init__' and base is None:
                return None       # object.__init__: nothing to do
            raise Undecided('base-class method {} is not found'.format(m), e)
        args = [self.expr(a, env) for a in (e.args[1:] if explicit_self else e.args)]
        kwargs = {k.arg: self.expr(k.value, env) for k in e.keywords if k.arg}
        return self.call_fd(fd, [selfv] + args, kwargs)

    def apply(self, f, args, node):
        if isinstance(f, tuple) and f and f[0] == 'lambda':
            lam, lenv = f[1], dict(f[2])
            for p_, a_ in zip([a.arg for a in lam.args.args], args):
                lenv[p_] = a_
            return self.expr(lam.body, lenv)
        if isinstance(f, tuple) and f and f[0] == 'closure':
            return self.call_fd(f[1], args, outer=f[2])
        if isinstance(f, tuple) and f and f[0] == 'method':
            self._kw = {}
            return self.method(f[1], f[2], list(args), node)
        if isinstance(f, tuple) and f and f[0] == 'builtin':
            self._kw = {}
            return self.builtin(f[1], list(args), node)
        raise Undecided('call of {!r} is outside the abstract interpreter'.format(f), node)

    def builtin(self, name, args, node):
        if name == 'next' and 1 <= len(args) <= 2 and isinstance(args[0], LazyGen):
            for v_ in args[0]:
                return v_
            if len(args) == 2:
                return args[1]
            raise Raised(Abs('StopIteration'), node)
        if name == 'next' and 1 <= len(args) <= 2 and isinstance(args[0], list):
            # an iterator the interpreter holds as the list of its remaining elements
            if args[0]:
                return args[0].pop(0)
            if len(args) == 2:
                return args[1]
            raise Raised(Abs('StopIteration'), node)
        if name in ('all', 'any') and len(args) == 1 and isinstance(args[0], LazyGen):
            for v_ in args[0]:
                t_ = self.truth(v_, node)
                if name == 'all' and not t_:
                    return False
                if name == 'any' and t_:
                    return True
            return name == 'all'
        if name == 'iter' and len(args) == 1 and isinstance(args[0], LazyGen):
            return args[0]
        args = [a_.rest() if isinstance(a_, LazyGen) else a_ for a_ in args]
        if name == '__keys__' and len(args) == 1 and isinstance(args[0], dict):
            return [str(k_) for k_ in _js_property_order(args[0])]          # for (k in obj)
        if name == 'String' and len(args) == 1 and isinstance(args[0], (str, int)) and not isinstance(args[0], bool):
            return str(args[0])
        if name == 'Number' and len(args) == 1 and isinstance(args[0], (int, float)) and not isinstance(args[0], bool):
            return args[0]
        if name == 'typeof' and len(args) == 1 and not isinstance(args[0], Abs):
            v_ = args[0]
            return 'undefined' if v_ is None and False else ('boolean' if isinstance(v_, bool) else 'number' if isinstance(v_, (int, float)) else 'string' if isinstance(v_, str) else 'object')
        if name == '__keys__' and len(args) == 1 and isinstance(args[0], (list, tuple)):
            return [str(i_) for i_ in range(len(args[0]))]
        if name in ('map', 'filter') and len(args) == 2 and isinstance(args[1], (list, tuple, LazyIter)):
            seq = list(self.iterate(args[1], node))
            f = args[0]

            def ap(x):
                if isinstance(f, tuple) and f and f[0] == 'builtin':
                    return self.builtin(f[1], [x], node)
                if f is None and name == 'filter':
                    return x
                return self.apply(f, [x], node)
            return [ap(x) for x in seq] if name == 'map' else [x for x in seq if self.truth(ap(x), node)]
        if name == 'zip' and args and all(isinstance(a, (list, tuple)) for a in args):
            return [tuple(t) for t in zip(*args)]
        if name in ('bool', 'Boolean') and len(args) == 1:
            return self.truth(args[0], node)
        if name == 'len' and len(args) == 1 and isinstance(args[0], (list, tuple, str, dict, set)):
            return len(args[0])
        if name == 'iter' and len(args) == 2:
            f = args[0]
            if isinstance(f, tuple) and f and f[0] == 'method':
                recv, m = f[1], f[2]
                fake = ast.Call(func=ast.Attribute(value=ast.Name(id='__recv__', ctx=ast.Load()), attr=m, ctx=ast.Load()), args=[], keywords=[])
                ast.copy_location(fake, node)
                ast.fix_missing_locations(fake)
                return LazyIter(lambda: self.call(fake, {'__recv__': recv}), args[1])
        if name in ('min', 'max') and args:
            seq = list(args[0]) if len(args) == 1 and isinstance(args[0], (list, tuple)) else list(args)
            if seq and all(isinstance(x, (int, float)) and not isinstance(x, bool) for x in seq):
                return min(seq) if name == 'min' else max(seq)
        if name == 'RegExp' and 1 <= len(args) <= 2 and all(isinstance(a_, str) for a_ in args):
            return ('regex', args[0], args[1] if len(args) == 2 else '')       # a fresh regex object (its own lastIndex)
        if name == 'sorted' and len(args) == 1 and isinstance(args[0], (list, tuple)) and not (getattr(self, '_kw', None) or {}) and args[0] and all(isinstance(x, (tuple, list)) for x in args[0]) and getattr(self.port, 'name', 'py') == 'py':
            return self._sorted([tuple(x) if isinstance(x, tuple) else x for x in args[0]], {}, node)
        if name == 'sorted' and len(args) == 1 and isinstance(args[0], (list, tuple)) and (getattr(self, '_kw', None) or {}):
            kw = dict(self._kw)
            self._kw = {}
            return self._sorted(list(args[0]), kw, node)
        if name in ('sorted', 'sum') and len(args) == 1 and isinstance(args[0], (list, tuple, set)) and all(isinstance(x, (int, float)) and not isinstance(x, bool) for x in args[0]):
            return sorted(args[0]) if name == 'sorted' else sum(args[0])
        if name == 'sorted' and len(args) == 1 and isinstance(args[0], (list, tuple, set)) and all(isinstance(x, str) for x in args[0]):
            return sorted(args[0])
        if name == 'reversed' and len(args) == 1 and isinstance(args[0], (list, tuple)):
            return list(reversed(args[0]))
        if name in ('set', 'Set') and len(args) == 1 and isinstance(args[0], (list, tuple, set)) and all(isinstance(x, (int, str)) or isinstance(x, Abs) for x in args[0]):
            return set(args[0])
        if name == 'type' and len(args) == 1 and type(args[0]) in (int, str, bool, float, list, tuple, dict):
            return ('builtin', type(args[0]).__name__)       # the class object, as the name `int` / `str` evaluates
        if name == 'isinstance' and len(args) == 2 and type(args[0]) in (int, str, bool, float, list, tuple, dict, type(None)):
            cl_ = [args[1]] if isinstance(args[1], tuple) and len(args[1]) == 2 and args[1][0] == 'builtin' else (list(args[1]) if isinstance(args[1], (list, tuple)) else [args[1]])
            if all(isinstance(c_, tuple) and len(c_) == 2 and c_[0] == 'builtin' and c_[1] in ('int', 'str', 'bool', 'float', 'list', 'tuple', 'dict') for c_ in cl_):
                return isinstance(args[0], tuple({'int': int, 'str': str, 'bool': bool, 'float': float, 'list': list, 'tuple': tuple, 'dict': dict}[c_[1]] for c_ in cl_))
        if name == 'type' and len(args) == 1 and isinstance(args[0], Abs) and 'cls' in args[0].props:
            return ('class', args[0].props['cls'])
        if name == 'isinstance' and len(args) == 2 and isinstance(args[1], tuple) and args[1] and args[1][0] == 'class':
            return isinstance(args[0], Abs) and args[0].props.get('cls') == args[1][1]
        if name == 'Array' and len(args) == 1 and isinstance(args[0], int) and not isinstance(args[0], bool) and 0 <= args[0] < 100:
            return [None] * args[0]
        if name in ('set', 'Set') and not args:
            return set()
        if name in ('Map', 'dict') and len(args) <= 1:
            if not args:
                return {}
            if isinstance(args[0], (list, tuple)) and all(isinstance(p_, (list, tuple)) and len(p_) == 2 for p_ in args[0]):
                return {p_[0]: p_[1] for p_ in args[0]}
            if isinstance(args[0], dict):
                return dict(args[0])
        if name in ('any', 'all') and len(args) == 1 and isinstance(args[0], (list, tuple)):
            ts = [self.truth(x, node) for x in args[0]]
            return any(ts) if name == 'any' else all(ts)
        if name == '__regex__' and args and isinstance(args[0], str):
            return ('regex', args[0], args[1] if len(args) > 1 and isinstance(args[1], str) else '')
        if name == 'str' and len(args) == 1 and isinstance(args[0], (int, str)) and not isinstance(args[0], bool):
            return str(args[0])
        if name == 'int' and len(args) == 1 and isinstance(args[0], (int, str, float)) and not isinstance(args[0], bool):
            try:
                return int(args[0])
            except (ValueError, OverflowError):
                raise Raised(Abs('ValueError'), node)
        if name == 'float' and len(args) == 1 and isinstance(args[0], (int, str, float)) and not isinstance(args[0], bool):
            try:
                return float(args[0])
            except (ValueError, OverflowError):
                raise Raised(Abs('ValueError'), node)
        if name == 'bool' and len(args) == 1:
            return self.truth(args[0], node)
        if name in ('list', 'tuple') and len(args) == 1 and isinstance(args[0], LazyIter):
            args = [list(self.iterate(args[0], node))]
        if name in ('list', 'tuple') and len(args) == 1 and isinstance(args[0], (list, tuple, set)):
            return list(args[0]) if name == 'list' else tuple(args[0])
        if name == 'list' and not args:
            return []
        if name == 'range' and all(isinstance(a, int) for a in args):
            return list(range(*args))
        if name == 'enumerate' and len(args) == 1 and isinstance(args[0], (list, tuple)):
            return [(i, x) for i, x in enumerate(args[0])]
        raise Undecided('builtin {} on {!r}'.format(name, args), node)

    def _sorted(self, seq, kw, node):
        """sorted(seq, key=f, reverse=r) on keys that are concrete numbers / strings / tuples of those (Python's stable sort)"""
        if set(kw) - {'key', 'reverse'}:
            raise Undecided('sorted() keyword {}'.format(sorted(kw)), node)
        keyf = kw.get('key')
        keys = [self.apply(keyf, [x], node) if keyf is not None else x for x in seq]

        def plain(k):
            return (isinstance(k, (int, float, str)) and not isinstance(k, bool)) or (isinstance(k, (tuple, list)) and all(plain(y) for y in k))
        if not all(plain(k) for k in keys):
            raise Undecided('sort keys {!r} are not concrete'.format(keys[:3]), node)
        rev = kw.get('reverse', False)
        if not isinstance(rev, bool):
            rev = self.truth(rev, node)
        try:
            order = sorted(range(len(seq)), key=lambda i: keys[i], reverse=rev)
        except TypeError:
            raise Raised(Abs('TypeError'), node)
        return [seq[i] for i in order]

    def method(self, recv, m, args, node):
        import re as _re
        if isinstance(recv, _re.Pattern):
            if m in ('search', 'match', 'fullmatch') and args and isinstance(args[0], str) and all(isinstance(a, int) for a in args[1:]):
                return getattr(recv, m)(*args)
            if m in ('findall', 'split') and len(args) == 1 and isinstance(args[0], str):
                return getattr(recv, m)(args[0])
            if m == 'split' and len(args) == 2 and isinstance(args[0], str) and isinstance(args[1], int) and not isinstance(args[1], bool):
                return recv.split(args[0], args[1])
            if m == 'sub' and len(args) == 2 and isinstance(args[0], str) and isinstance(args[1], str) and '\\' not in args[0]:
                return recv.sub(args[0].replace('\\', '\\\\'), args[1])
            if m == 'finditer' and args and isinstance(args[0], str) and all(isinstance(a, int) for a in args[1:]):
                return list(recv.finditer(*args))
            raise Undecided('regex method {} on {!r} is outside the abstract interpreter'.format(m, args), node)
        if isinstance(recv, _re.Match):
            if m in ('span', 'start', 'end', 'group', 'groups') and all(isinstance(a, int) for a in args):
                return getattr(recv, m)(*args)
            raise Undecided('match method {} is outside the abstract interpreter'.format(m), node)
        if isinstance(recv, tuple) and len(recv) == 3 and recv[0] == 'regex' and m == 'exec' and len(args) == 1 and isinstance(args[0], str) and ('g' in recv[2] or 'y' in recv[2]):
            # a global / sticky regex object carries lastIndex from one exec to the next (kept per regex object of this run)
            from . import regexlang as _R
            if not hasattr(self, '_rx_last'):
                self._rx_last = {}
            last = self._rx_last.get(id(recv), (0, recv))[0]
            try:
                rx = _re.compile(_R.js_to_py(recv[1]), (_re.IGNORECASE if 'i' in recv[2] else 0) | (_re.MULTILINE if 'm' in recv[2] else 0) | (_re.DOTALL if 's' in recv[2] else 0))
            except Exception:
                raise Undecided('regex exec outside the abstract interpreter', node)
            mo = (rx.match(args[0], last) if 'y' in recv[2] else rx.search(args[0], last)) if last <= len(args[0]) else None
            if mo is None:
                self._rx_last[id(recv)] = (0, recv)
                return None
            self._rx_last[id(recv)] = (mo.end(), recv)
            out_ = JSMatch([mo.group(0)] + list(mo.groups()))
            out_.index, out_.input = mo.start(), args[0]
            return out_
        if isinstance(recv, tuple) and len(recv) == 3 and recv[0] == 'regex' and m in ('exec', 'test') and len(args) == 1 and isinstance(args[0], str) and 'g' not in recv[2] and 'y' not in recv[2]:
            # a JS regex constant (no global / sticky state) applied to a concrete string: evaluated with the translated pattern
            from . import regexlang as _R
            try:
                mo = _re.search(_R.js_to_py(recv[1]), args[0], (_re.IGNORECASE if 'i' in recv[2] else 0) | (_re.MULTILINE if 'm' in recv[2] else 0) | (_re.DOTALL if 's' in recv[2] else 0))
            except Exception:
                raise Undecided('regex {} outside the abstract interpreter'.format(m), node)
            if m == 'test':
                return mo is not None
            if mo is None:
                return None
            out_ = JSMatch([mo.group(0)] + list(mo.groups()))
            out_.index, out_.input = mo.start(), args[0]
            return out_
        if recv == ('global', 're') and m == 'finditer' and len(args) == 2 and isinstance(args[0], str) and isinstance(args[1], str):
            return list(_re.finditer(args[0], args[1]))
        if (recv == ('global', 're') and m == 'sub' and len(args) == 3 and isinstance(args[0], str) and isinstance(args[2], str)) or (isinstance(recv, _re.Pattern) and m == 'sub' and len(args) == 2 and isinstance(args[1], str) and not isinstance(args[0], str)):
            pat_ = _re.compile(args[0]) if not isinstance(recv, _re.Pattern) else recv
            repl_, text_ = (args[1], args[2]) if not isinstance(recv, _re.Pattern) else (args[0], args[1])
            kw_ = dict(getattr(self, '_kw', None) or {})
            self._kw = {}
            fl_ = kw_.get('flags', 0)
            if isinstance(fl_, tuple) and len(fl_) == 2 and fl_[1] in ('re.IGNORECASE', 're.I'):
                fl_ = _re.IGNORECASE
            if not isinstance(fl_, int) or set(kw_) - {'flags'}:
                raise Undecided('re.sub keywords {!r}'.format(kw_), node)
            if fl_ and not isinstance(recv, _re.Pattern):
                pat_ = _re.compile(args[0], fl_)
            if isinstance(repl_, str):
                return pat_.sub(repl_, text_)

            def cb_(mo):
                r_ = self.apply(repl_, [mo], node)
                if not isinstance(r_, str):
                    raise Undecided('substitution callback returns {!r}'.format(r_), node)
                return r_
            return pat_.sub(cb_, text_)
        if recv == ('global', 'heapq') and m in ('nsmallest', 'nlargest') and len(args) == 2 and isinstance(args[0], int) and isinstance(args[1], (list, tuple)):
            # documented as equivalent to sorted(iterable, key=key)[:n] / sorted(iterable, key=key, reverse=True)[:n]
            kw = dict(getattr(self, '_kw', None) or {})
            self._kw = {}
            if m == 'nlargest':
                kw['reverse'] = True
            return self._sorted(list(args[1]), kw, node)[:max(args[0], 0)]
        if recv == ('global', 're') and m == 'compile' and args and isinstance(args[0], str) and all(isinstance(a, int) for a in args[1:]):
            return _re.compile(*args)
        if recv == ('global', 're') and m in ('search', 'match', 'split', 'findall') and 2 <= len(args) <= 3 and isinstance(args[0], str) and isinstance(args[1], str):
            fl_ = (getattr(self, '_kw', None) or {}).get('flags', args[2] if len(args) == 3 else 0)
            self._kw = {}
            if isinstance(fl_, tuple) and len(fl_) == 2 and fl_[0] == 'global' and fl_[1] in ('re.IGNORECASE', 're.I'):
                fl_ = _re.IGNORECASE
            if not isinstance(fl_, int):
                raise Undecided('regex flags {!r}'.format(fl_), node)
            return getattr(_re, m)(args[0], args[1], flags=fl_) if m != 'split' else _re.split(args[0], args[1], flags=fl_)
        if isinstance(recv, float) and m == 'is_integer' and not args:
            return recv.is_integer()
        if isinstance(recv, list):
            if m in ('append', 'push') and len(args) == 1:
                recv.append(args[0])
                return None
            if m == 'push' and len(args) > 1:
                recv.extend(args)
                return len(recv)
            if m == 'extend' and len(args) == 1 and isinstance(args[0], (list, tuple)):
                recv.extend(args[0])
                return None
            if m == 'pop' and not args and recv:
                return recv.pop()
            if m == 'insert' and len(args) == 2 and isinstance(args[0], int) and not isinstance(args[0], bool):
                recv.insert(args[0], args[1])
                return None
            if m == 'fill' and len(args) == 1:
                for i_ in range(len(recv)):
                    recv[i_] = args[0]
                return recv
            if m == 'reverse' and not args:
                recv.reverse()
                return recv if getattr(self.port, 'name', 'py') == 'js' else None
            if m == 'shift' and not args:
                return recv.pop(0) if recv else None
            if m == 'unshift' and len(args) == 1:
                recv.insert(0, args[0])
                return len(recv)
            if m == 'at' and len(args) == 1 and isinstance(args[0], int):
                return recv[args[0]] if -len(recv) <= args[0] < len(recv) else None
            if m == 'flat' and len(args) <= 1 and getattr(self.port, 'name', 'py') == 'js':
                depth = args[0] if args else 1

                def flat_(xs, d):
                    out = []
                    for x in xs:
                        if isinstance(x, list) and d >= 1:
                            out.extend(flat_(x, d - 1))
                        else:
                            out.append(x)
                    return out
                if isinstance(depth, (int, float)):
                    return flat_(list.__iter__(recv) if False else [list.__getitem__(recv, i) for i in range(len(recv))], depth)
            if m == 'join' and len(args) <= 1:   # JS: lines.join('\n')
                if getattr(self.port, 'name', 'py') == 'js' and all(x is None or (isinstance(x, (str, int)) and not isinstance(x, bool)) for x in recv) and (not args or isinstance(args[0], str)):
                    return (args[0] if args else ',').join('' if x is None else str(x) for x in recv)      # null / undefined elements are rendered as empty text
                if all(isinstance(x, (str, int)) and not isinstance(x, bool) for x in recv) and (not args or isinstance(args[0], str)):
                    return (args[0] if args else ',').join(str(x) for x in recv)
                return Abs('Joined', sep=(args[0] if args else ','), items=tuple(recv))
            if m == '__getitem__' and len(args) == 1 and isinstance(args[0], int) and not isinstance(args[0], bool) and -len(recv) <= args[0] < len(recv):
                return recv[args[0]]
            if m == 'sort' and not args and getattr(self.port, 'name', 'py') == 'py' and (getattr(self, '_kw', None) or {}):
                kw = dict(self._kw)
                self._kw = {}
                recv[:] = self._sorted(list(recv), kw, node)
                return None
            if m == 'sort' and len(args) == 1 and getattr(self.port, 'name', 'py') == 'js':
                import functools

                def cmp2_(a_, b_):
                    r_ = self.apply(args[0], [a_, b_], node)
                    if not isinstance(r_, (int, float)) or isinstance(r_, bool):
                        raise Undecided('comparator result {!r}'.format(r_), node)
                    return -1 if r_ < 0 else (1 if r_ > 0 else 0)
                recv[:] = sorted(list(recv), key=functools.cmp_to_key(cmp2_))
                return recv
            if m == 'sort' and len(args) <= 1 and all(isinstance(x, (int, str)) and not isinstance(x, bool) for x in recv):
                import functools
                if args:
                    def cmp_(a_, b_):
                        r_ = self.apply(args[0], [a_, b_], node)
                        if not isinstance(r_, (int, float)):
                            raise Undecided('comparator result {!r}'.format(r_), node)
                        return -1 if r_ < 0 else (1 if r_ > 0 else 0)
                    recv.sort(key=functools.cmp_to_key(cmp_))
                elif getattr(self.port, 'name', 'py') == 'js':
                    recv.sort(key=lambda x: str(x))      # Array.prototype.sort without a comparator orders by the string form
                else:
                    recv.sort()
                return recv if getattr(self.port, 'name', 'py') == 'js' else None
            if m == 'concat' and len(args) == 1 and isinstance(args[0], list):
                return recv + args[0]
            if m == 'slice' and len(args) <= 2 and all(isinstance(a, int) for a in args):
                return list(recv) if not args else (recv[args[0]:] if len(args) == 1 else recv[args[0]:args[1]])
            if m == 'copy' and not args:
                return list(recv)
            if m == 'map' and len(args) == 1:
                return [self.apply(args[0], [x, i_], node) for i_, x in enumerate(recv)]
            if m == 'entries' and not args:
                return [[i_, x] for i_, x in enumerate(recv)]
            if m == 'keys' and not args:
                return list(range(len(recv)))
            if m == 'values' and not args:
                return list(recv)
            if m == 'reduce' and 1 <= len(args) <= 2:
                items = list(recv)
                if len(args) == 2:
                    acc = args[1]
                elif items:
                    acc, items = items[0], items[1:]
                else:
                    raise Raised(Abs('TypeError'), node)
                off = len(recv) - len(items)
                for i_, x in enumerate(items):
                    acc = self.apply(args[0], [acc, x, i_ + off, recv], node)
                return acc
            if m == 'forEach' and len(args) == 1:
                for i_, x in enumerate(list(recv)):
                    self.apply(args[0], [x, i_], node)
                return None
            if m in ('findIndex', 'find') and len(args) == 1:
                for i_, x in enumerate(recv):
                    if self.truth(self.apply(args[0], [x, i_], node), node):
                        return i_ if m == 'findIndex' else x
                return -1 if m == 'findIndex' else None
            if m in ('some', 'every') and len(args) == 1:
                ts = [self.truth(self.apply(args[0], [x, i_], node), node) for i_, x in enumerate(recv)]
                return any(ts) if m == 'some' else all(ts)
            if m == 'filter' and len(args) == 1:
                return [x for i_, x in enumerate(recv) if self.truth(self.apply(args[0], [x, i_], node), node)]
            if m == 'concat' and all(isinstance(a, list) for a in args):
                out_ = list(recv)
                for a in args:
                    out_ += a
                return out_
            if m in ('indexOf', 'index') and len(args) == 1 and not isinstance(args[0], Abs):
                return recv.index(args[0]) if args[0] in recv else -1
            if m == 'includes' and len(args) == 1:
                return any(x is args[0] or (not isinstance(x, Abs) and not isinstance(args[0], Abs) and x == args[0]) for x in recv)
        if isinstance(recv, str) and getattr(self.port, 'name', 'py') == 'py' and m in ('rstrip', 'lstrip', 'strip', 'lower', 'upper', 'find', 'rfind', 'isdigit', 'isalnum', 'isalpha', 'splitlines', 'partition', 'rpartition', 'zfill', 'title', 'capitalize', 'swapcase', 'casefold') \
                and all(isinstance(a_, (str, int)) and not isinstance(a_, bool) for a_ in args):
            try:
                r_ = getattr(recv, m)(*args)
            except (TypeError, ValueError):
                raise Undecided('str.{} on {!r}'.format(m, args), node)
            return list(r_) if isinstance(r_, tuple) and m in ('partition', 'rpartition') and False else r_
        if isinstance(recv, str) and getattr(self.port, 'name', 'py') == 'js' and m in ('trim', 'trimEnd', 'trimStart', 'trimLeft', 'trimRight', 'toLowerCase', 'toUpperCase', 'lastIndexOf', 'padStart', 'padEnd') \
                and all(isinstance(a_, (str, int)) and not isinstance(a_, bool) for a_ in args):
            ws_ = ' \t\n\r\x0b\x0c\xa0\ufeff'
            if m == 'trim' and not args:
                return recv.strip(ws_)
            if m in ('trimEnd', 'trimRight') and not args:
                return recv.rstrip(ws_)
            if m in ('trimStart', 'trimLeft') and not args:
                return recv.lstrip(ws_)
            if m == 'toLowerCase' and not args:
                return recv.lower()
            if m == 'toUpperCase' and not args:
                return recv.upper()
            if m == 'lastIndexOf' and len(args) == 1 and isinstance(args[0], str):
                return recv.rfind(args[0])
            if m in ('padStart', 'padEnd') and len(args) == 2 and isinstance(args[0], int) and isinstance(args[1], str) and len(args[1]) == 1:
                return recv.rjust(args[0], args[1]) if m == 'padStart' else recv.ljust(args[0], args[1])
        if isinstance(recv, str) and getattr(self.port, 'name', 'py') == 'js' and m in ('indexOf', 'includes', 'startsWith', 'endsWith', 'lastIndexOf') and args and isinstance(args[0], list) \
                and all(x is None or (isinstance(x, (str, int)) and not isinstance(x, bool)) for x in args[0]):
            args = [','.join('' if x is None else str(x) for x in args[0])] + list(args[1:])      # an array argument is converted to its comma-joined text
        if isinstance(recv, str) and getattr(self.port, 'name', 'py') == 'py' and m == 'encode' and all(isinstance(a_, str) for a_ in args) and len(args) <= 2:
            try:
                return recv.encode(*args)
            except (UnicodeError, LookupError):
                raise Raised(Abs('UnicodeEncodeError'), node)
        if isinstance(recv, bytes) and m == 'decode' and all(isinstance(a_, str) for a_ in args) and len(args) <= 2:
            try:
                return recv.decode(*args)
            except (UnicodeError, LookupError):
                raise Raised(Abs('UnicodeDecodeError'), node)
        if isinstance(recv, str) and getattr(self.port, 'name', 'py') == 'js' and m == 'split' and len(args) == 1 and isinstance(args[0], tuple) and len(args[0]) == 3 and args[0][0] == 'regex':
            import re as _re2
            from . import regexlang as _R
            try:
                rx_ = _re2.compile(_R.js_to_py(args[0][1]), _re2.I if 'i' in args[0][2] else 0)
            except Exception:
                raise Undecided('regex split outside the abstract interpreter', node)
            if rx_.groups:
                raise Undecided('split by a regex with groups', node)
            return rx_.split(recv)
        if isinstance(recv, str):
            if m == 'join' and len(args) == 1 and isinstance(args[0], (list, tuple)):
                if all(isinstance(x, str) for x in args[0]):
                    return recv.join(args[0])
                return Abs('Joined', sep=recv, items=tuple(args[0]))
            if m in ('startswith', 'endswith', 'startsWith', 'endsWith') and len(args) == 1 and isinstance(args[0], str):
                return getattr(recv, m.lower())(args[0])
            if m == 'count' and len(args) == 1 and isinstance(args[0], str):
                return recv.count(args[0])
            if m in ('indexOf', 'find') and 1 <= len(args) <= 2 and isinstance(args[0], str) and all(isinstance(a_, int) for a_ in args[1:]):
                return recv.find(*args)
            if m == 'includes' and len(args) == 1 and isinstance(args[0], str):
                return args[0] in recv
            if m == 'search' and len(args) == 1 and isinstance(args[0], tuple) and len(args[0]) == 3 and args[0][0] == 'regex':
                import re as _re
                from . import regexlang as _R
                try:
                    mo_ = _re.search(_R.js_to_py(args[0][1]), recv, _re.I if 'i' in args[0][2] else 0)
                except Exception:
                    raise Undecided('regex search outside the abstract interpreter', node)
                return mo_.start() if mo_ is not None else -1
            if m == 'replace' and len(args) == 2 and isinstance(args[0], tuple) and args[0] and args[0][0] == 'regex' and isinstance(args[1], str) and '$' not in args[1]:
                # a regex constant applied to a concrete string: evaluated with the translated pattern
                import re as _re
                from . import regexlang as _R
                try:
                    pat_ = _R.js_to_py(args[0][1]) if hasattr(_R, 'js_to_py') else args[0][1]
                    return _re.sub(pat_, args[1].replace('\\', '\\\\'), recv, count=0 if 'g' in args[0][2] else 1, flags=_re.I if 'i' in args[0][2] else 0)
                except Exception:
                    raise Undecided('regex replace outside the abstract interpreter', node)
            if m in ('replace', 'replaceAll') and len(args) == 2 and isinstance(args[0], tuple) and args[0] and args[0][0] == 'regex' and isinstance(args[1], tuple) and args[1] and args[1][0] in ('lambda', 'closure'):
                # the replacer function gets (match, groups..., offset, string); its result is inserted as it is
                import re as _re
                from . import regexlang as _R
                try:
                    rx_ = _re.compile(_R.js_to_py(args[0][1]), _re.I if 'i' in args[0][2] else 0)
                except Exception:
                    raise Undecided('regex replace outside the abstract interpreter', node)

                def cbj_(mo):
                    r_ = self.apply(args[1], [mo.group(0)] + list(mo.groups()) + [mo.start(), recv], node)
                    if not isinstance(r_, str):
                        raise Undecided('replacer function returns {!r}'.format(r_), node)
                    return r_
                return rx_.sub(cbj_, recv, count=0 if 'g' in args[0][2] else 1)
            if m == 'replace' and len(args) == 2 and isinstance(args[0], str) and isinstance(args[1], str):
                return recv.replace(args[0], args[1]) if getattr(self.port, 'name', 'py') == 'py' else recv.replace(args[0], args[1], 1)
            if m == 'split' and len(args) == 1 and isinstance(args[0], str) and args[0]:
                return recv.split(args[0])
            if m in ('strip', 'trim') and not args:
                return recv.strip()
            if m == 'repeat' and len(args) == 1 and isinstance(args[0], int) and 0 <= args[0] < 100:
                return recv * args[0]
            if m == 'charAt' and len(args) == 1 and isinstance(args[0], int):
                return recv[args[0]] if 0 <= args[0] < len(recv) else ''
            if m == 'at' and len(args) == 1 and isinstance(args[0], int):
                return recv[args[0]] if -len(recv) <= args[0] < len(recv) else None
            if m in ('substring', 'slice') and 1 <= len(args) <= 2 and all(isinstance(a, int) for a in args) and all(a >= 0 for a in args):
                return recv[args[0]:args[1]] if len(args) == 2 else recv[args[0]:]
            if m in ('indexOf', 'find') and len(args) == 1 and isinstance(args[0], str):
                return recv.find(args[0])
            if m == 'includes' and len(args) == 1 and isinstance(args[0], str):
                return args[0] in recv
            if m == 'localeCompare' and len(args) == 1 and isinstance(args[0], str):
                # locale collation (approximation of the default ICU order): letters first by their case-folded form, lower case before upper
                ka, kb = (recv.casefold(), recv.swapcase()), (args[0].casefold(), args[0].swapcase())
                return -1 if ka < kb else (1 if ka > kb else 0)
            if m == 'format':
                if all(isinstance(a, (str, int)) and not isinstance(a, bool) for a in args):
                    try:
                        return recv.format(*args)
                    except (IndexError, KeyError, ValueError):
                        pass
                return Abs('Text', parts=(recv,) + tuple(args))
        if isinstance(recv, set):
            if m == 'add' and len(args) == 1:
                recv.add(args[0])
                return None
            if m == 'has' and len(args) == 1:
                return args[0] in recv
            if m in ('discard', 'delete') and len(args) == 1:
                had = args[0] in recv
                recv.discard(args[0])
                return had if m == 'delete' else None
        if isinstance(recv, dict):
            if m in ('items', 'keys', 'values') and not args and getattr(self.port, 'name', 'py') == 'py':
                return [(k_, v_) for k_, v_ in recv.items()] if m == 'items' else (list(recv.keys()) if m == 'keys' else list(recv.values()))
            if m in ('entries', 'keys', 'values') and not args and getattr(self.port, 'name', 'py') == 'js':
                return [[k_, v_] for k_, v_ in recv.items()] if m == 'entries' else (list(recv.keys()) if m == 'keys' else list(recv.values()))     # Map iteration order = insertion order
            if m == 'get' and 1 <= len(args) <= 2:
                return recv.get(args[0], args[1] if len(args) == 2 else None)
            if m == 'setdefault' and len(args) == 2:
                return recv.setdefault(args[0], args[1])
            if m == 'hasOwnProperty' and len(args) == 1:
                return args[0] in recv
            if m == 'set' and len(args) == 2:
                recv[args[0]] = args[1]
                return recv
            if m == 'has' and len(args) == 1:
                return args[0] in recv
        raise Undecided('method {} of {!r} is outside the abstract interpreter'.format(m, recv), node)


def _js_property_order(d):
    """own property order of a JS object: integer-like keys ascending, then the other keys in insertion order"""
    def intlike(k):
        return (isinstance(k, int) and not isinstance(k, bool) and k >= 0) or (isinstance(k, str) and k.isdigit() and (k == '0' or not k.startswith('0')))
    ints = sorted([k for k in d if intlike(k)], key=lambda k: int(k))
    return ints + [k for k in d if not intlike(k)]


def _parts(x):
    if isinstance(x, Abs) and x.kind == 'Text':
        return tuple(x.props['parts'])
    return (x,)


def _as_load(t):
    """the target of an augmented assignment read as a value (no deep copy: nodes carry parent links)"""
    if isinstance(t, ast.Name):
        n = ast.Name(id=t.id, ctx=ast.Load())
    elif isinstance(t, ast.Attribute):
        n = ast.Attribute(value=t.value, attr=t.attr, ctx=ast.Load())
    elif isinstance(t, ast.Subscript):
        n = ast.Subscript(value=t.value, slice=t.slice, ctx=ast.Load())
    else:
        raise Undecided('augmented assignment target outside the abstract interpreter', t)
    return ast.copy_location(n, t)
