"""Resolved program model for both ports (IR = Python `ast` nodes, see jsfront.py)."""
import ast
import os

from . import jsfront
from .core import REPO, Undecided, sha256_file

PY_DIR = os.path.join(REPO, 'rbql-py', 'rbql')
JS_DIR = os.path.join(REPO, 'rbql-js')

PY_MODULES = ['rbql_engine', 'rbql_csv', 'csv_utils', 'rbql_pandas', 'rbql_sqlite', 'rbql_main', 'rbql_ipython', '__init__']
PY_LIBRARY_MODULES = ['rbql_engine', 'rbql_csv', 'csv_utils', 'rbql_pandas', 'rbql_sqlite']
JS_MODULES = {'rbql': 'rbql.js', 'rbql_csv': 'rbql_csv.js', 'csv_utils': 'csv_utils.js'}
JS_EXTRA_MODULES = {'cli_rbql': 'cli_rbql.js', 'cli_parser': 'cli_parser.js', 'index': 'index.js'}


class FoldConstants(ast.NodeTransformer):
    """Folds the PY3 flag to True and removes the Python-2 arms (trusted base: Python-2 branches are not analysed)."""

    def __init__(self, names):
        self.names = names

    def visit_Name(self, node):
        if isinstance(node.ctx, ast.Load) and node.id in self.names:
            return ast.copy_location(ast.Constant(value=self.names[node.id]), node)
        return node

    def visit_UnaryOp(self, node):
        self.generic_visit(node)
        if isinstance(node.op, ast.Not) and isinstance(node.operand, ast.Constant) and isinstance(node.operand.value, bool):
            return ast.copy_location(ast.Constant(value=not node.operand.value), node)
        if isinstance(node.op, ast.USub) and isinstance(node.operand, ast.Constant) and isinstance(node.operand.value, (int, float)) and not isinstance(node.operand.value, bool):
            return ast.copy_location(ast.Constant(value=-node.operand.value), node)
        return node

    def visit_BoolOp(self, node):
        self.generic_visit(node)
        vals = []
        for v in node.values:
            if isinstance(v, ast.Constant) and isinstance(v.value, bool):
                if isinstance(node.op, ast.And):
                    if v.value:
                        continue
                    return ast.copy_location(ast.Constant(value=False), node)
                else:
                    if not v.value:
                        continue
                    return ast.copy_location(ast.Constant(value=True), node)
            vals.append(v)
        if not vals:
            return ast.copy_location(ast.Constant(value=isinstance(node.op, ast.And)), node)
        if len(vals) == 1:
            return vals[0]
        node.values = vals
        return node

    def visit_If(self, node):
        self.generic_visit(node)
        if isinstance(node.test, ast.Constant) and isinstance(node.test.value, bool):
            res = node.body if node.test.value else node.orelse
            return res if res else None
        return node

    def visit_IfExp(self, node):
        self.generic_visit(node)
        if isinstance(node.test, ast.Constant) and isinstance(node.test.value, bool):
            return node.body if node.test.value else node.orelse
        return node


def _tag(mod, path):
    for n in ast.walk(mod):
        n.src_file = path
    return mod


def set_parents(root):
    """parent links, and `pos`: the node's rank in source order of the (possibly inlined) tree - line numbers of inlined statements are
    those of the helper they came from, so only `pos` says what precedes what"""
    for n in ast.walk(root):
        for ch in ast.iter_child_nodes(n):
            ch.parent = n
    root.parent = None
    k = 0
    stack = [root]
    while stack:
        n = stack.pop()
        n.pos = k
        k += 1
        stack.extend(reversed(list(ast.iter_child_nodes(n))))
    return root


class Port(object):
    def __init__(self, name):
        self.name = name            # 'py' | 'js'
        self.modules = {}           # modname -> ast.Module
        self.files = {}             # modname -> path
        self.sha = {}
        self.funcs = {}             # 'mod:qual.name' -> FunctionDef
        self.classes = {}           # 'mod:Class' -> ClassDef
        self.parser = None

    def index(self):
        self.funcs.clear()
        self.classes.clear()
        for mname, mod in self.modules.items():
            set_parents(mod)
            self._index_body(mname, '', mod.body)

    def _index_body(self, mname, prefix, body):
        for st in body:
            if isinstance(st, (ast.FunctionDef, ast.AsyncFunctionDef)):
                q = prefix + st.name
                self.funcs['{}:{}'.format(mname, q)] = st
                st.qualname = q
                st.modname = mname
                self._index_body(mname, q + '.', st.body)
            elif isinstance(st, ast.ClassDef):
                q = prefix + st.name
                self.classes['{}:{}'.format(mname, q)] = st
                st.qualname = q
                st.modname = mname
                self._index_body(mname, q + '.', st.body)
            elif isinstance(st, (ast.If, ast.Try, ast.With, ast.For, ast.While)):
                for fld in ('body', 'orelse', 'finalbody'):
                    self._index_body(mname, prefix, getattr(st, fld, []) or [])
                for h in getattr(st, 'handlers', []) or []:
                    self._index_body(mname, prefix, h.body)

    # ---- lookup helpers
    def func(self, mod, qual, required=True):
        f = self.funcs.get('{}:{}'.format(mod, qual))
        if f is None and required:
            raise Undecided('anchor vanished: function {} not found in {} ({})'.format(qual, mod, self.name), file=self.files.get(mod))
        return f

    def cls(self, mod, name, required=True):
        c = self.classes.get('{}:{}'.format(mod, name))
        if c is None and required:
            raise Undecided('anchor vanished: class {} not found in {} ({})'.format(name, mod, self.name), file=self.files.get(mod))
        return c

    def method(self, mod, cls, meth, required=True):
        return self.func(mod, cls + '.' + meth, required)

    def module_consts(self, mod):
        """Module-level `NAME = <constant>` bindings (strings, numbers); later bindings win; concatenations folded."""
        out = {}
        for st in self.modules[mod].body:
            if isinstance(st, ast.Assign) and len(st.targets) == 1 and isinstance(st.targets[0], ast.Name):
                v = const_value(st.value, out)
                if v is not NOCONST:
                    out[st.targets[0].id] = v
        return out

    def classes_in(self, mod):
        return [c for k, c in self.classes.items() if k.startswith(mod + ':')]

    def funcs_in(self, mod):
        return [f for k, f in self.funcs.items() if k.startswith(mod + ':')]

    def all_funcs(self, mods=None):
        for k, f in self.funcs.items():
            if mods is None or k.split(':')[0] in mods:
                yield f


NOCONST = object()


def const_value(node, env=None):
    """Constant folding of literal expressions (strings, numbers, lists of them, + concatenation, names in env)."""
    if isinstance(node, ast.Constant):
        return node.value
    if isinstance(node, ast.Name) and env is not None and node.id in env:
        return env[node.id]
    if isinstance(node, ast.BinOp) and isinstance(node.op, ast.Add):
        a, b = const_value(node.left, env), const_value(node.right, env)
        if a is not NOCONST and b is not NOCONST and type(a) is type(b) and isinstance(a, (str, int, float, list)):
            return a + b
        return NOCONST
    if isinstance(node, (ast.List, ast.Tuple)):
        vals = [const_value(e, env) for e in node.elts]
        if any(v is NOCONST for v in vals):
            return NOCONST
        return vals
    if isinstance(node, ast.JoinedStr):
        parts = []
        for v in node.values:
            if isinstance(v, ast.Constant):
                parts.append(str(v.value))
            else:
                x = const_value(v.value, env)
                if x is NOCONST:
                    return NOCONST
                parts.append(str(x))
        return ''.join(parts)
    return NOCONST


def _alpha(port):
    if os.environ.get('RBQL_VERIF_NO_ALPHA'):
        port.inlined = []
        return []
    from . import alpha, inline
    port.inlined = inline.inline_new_helpers(port)
    return alpha.canonicalise(port)


def load_py():
    port = Port('py')
    for m in PY_MODULES:
        path = os.path.join(PY_DIR, m + '.py')
        if not os.path.exists(path):
            if m in ('rbql_ipython', '__init__', 'rbql_main'):
                continue
            raise Undecided('anchor vanished: python module {} is missing'.format(path), file=path)
        with open(path, 'rb') as f:
            src = f.read()
        try:
            tree = ast.parse(src, filename=path)
        except SyntaxError as e:
            raise Undecided('python module does not parse: {}'.format(e), file=path)
        tree = FoldConstants({'PY3': True}).visit(tree)
        ast.fix_missing_locations(tree)
        _tag(tree, path)
        port.modules[m] = tree
        port.files[m] = path
        port.sha[m] = sha256_file(path)
    port.parser = 'python ast'
    port.renamed = _alpha(port)
    port.index()
    return port


def load_js(extra=False):
    port = Port('js')
    paths = {}
    mods = dict(JS_MODULES)
    if extra:
        mods.update(JS_EXTRA_MODULES)
    for m, fn in mods.items():
        path = os.path.join(JS_DIR, fn)
        if not os.path.exists(path):
            raise Undecided('anchor vanished: javascript module {} is missing'.format(path), file=path)
        paths[m] = path
    try:
        trees, parser = jsfront.parse_js_files(paths)
    except jsfront.JSParseError as e:
        raise Undecided('javascript front-end failed: {}'.format(e), file=JS_DIR)
    for m, tree in trees.items():
        _tag(tree, paths[m])
        port.modules[m] = tree
        port.files[m] = paths[m]
        port.sha[m] = sha256_file(paths[m])
    port.parser = parser
    port.renamed = _alpha(port)
    port.index()
    return port


# ---------------------------------------------------------------------------------------------
# small AST utilities shared by the rules

def walk_no_nested(node, include_self=True):
    """Walk a function body without descending into nested function/class definitions or lambdas."""
    stack = [node]
    first = True
    while stack:
        n = stack.pop()
        if not first and isinstance(n, (ast.FunctionDef, ast.AsyncFunctionDef, ast.ClassDef, ast.Lambda)):
            continue
        if not first or include_self:
            yield n
        first = False
        stack.extend(reversed(list(ast.iter_child_nodes(n))))


def calls_in(node, nested=True):
    it = ast.walk(node) if nested else walk_no_nested(node)
    for n in it:
        if isinstance(n, ast.Call):
            yield n


def call_name(call):
    """'f' for f(..), 'x.m' for x.m(..), 'a.b.m' for a.b.m(..); None otherwise."""
    return dotted(call.func)


def dotted(e):
    if isinstance(e, ast.Name):
        return e.id
    if isinstance(e, ast.Attribute):
        b = dotted(e.value)
        return None if b is None else b + '.' + e.attr
    return None


def last_attr(call):
    f = call.func
    if isinstance(f, ast.Attribute):
        return f.attr
    if isinstance(f, ast.Name):
        return f.id
    return None


def names_in(node):
    return {n.id for n in ast.walk(node) if isinstance(n, ast.Name)}


def is_const(node, value):
    return isinstance(node, ast.Constant) and node.value == value and type(node.value) is type(value)


def is_none(node):
    return (isinstance(node, ast.Constant) and node.value is None) or (isinstance(node, ast.Name) and node.id == 'undefined')


def enclosing(node, types):
    p = getattr(node, 'parent', None)
    while p is not None and not isinstance(p, types):
        p = getattr(p, 'parent', None)
    return p


def enclosing_func(node):
    return enclosing(node, (ast.FunctionDef, ast.AsyncFunctionDef))


def stmt_of(node):
    p = node
    while p is not None and not isinstance(p, ast.stmt):
        p = getattr(p, 'parent', None)
    return p


def func_params(fd):
    a = fd.args
    return [x.arg for x in a.posonlyargs + a.args] + ([a.vararg.arg] if a.vararg else []) + [x.arg for x in a.kwonlyargs] + ([a.kwarg.arg] if a.kwarg else [])
