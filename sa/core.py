"""Verdict plumbing: obligations, known findings, evidence and replay files, exit codes.

Exit codes of a check:  0 = every obligation HOLDS (or is a listed known finding)
                        1 = at least one obligation VIOLATED that known_findings.json does not list
                        2 = analysis could not decide (anchor vanished / unrecognised shape / checker error);
                            printed as ANALYSIS-ERROR, never as VIOLATION and never as a pass
"""
import ast
import hashlib
import json
import os
import sys
import time
import traceback

VERIF = os.path.dirname(os.path.dirname(os.path.abspath(__file__)))
REPO = os.environ.get('RBQL_VERIF_REPO', '/repo')
KNOWN_FINDINGS = os.path.join(VERIF, 'known_findings.json')

HOLDS, VIOLATED, UNDECIDED = 'HOLDS', 'VIOLATED', 'UNDECIDED'


class Undecided(Exception):
    """Raised by analysis helpers when the code has a shape none of the enumerated idioms covers."""

    def __init__(self, msg, node=None, file=None):
        Exception.__init__(self, msg)
        self.node = node
        self.file = file


def norm_text(s, limit=160):
    s = ' '.join(str(s).split())
    return s if len(s) <= limit else s[:limit - 3] + '...'


def node_text(node, limit=160):
    if node is None:
        return ''
    if isinstance(node, str):
        return norm_text(node, limit)
    try:
        return norm_text(ast.unparse(node), limit)
    except Exception:
        return '<{}>'.format(type(node).__name__)


class Ob(object):
    __slots__ = ('rule', 'key', 'file', 'line', 'verdict', 'detail', 'port', 'path')

    def __init__(self, rule, key, file, line, verdict, detail, port=None, path=None):
        self.rule, self.key, self.file, self.line, self.verdict, self.detail, self.port, self.path = rule, key, file, line, verdict, detail, port, path

    def ident(self):
        return '{}|{}'.format(self.rule, self.key)

    def as_dict(self):
        d = {'rule': self.rule, 'construct': self.key, 'at': '{}:{}'.format(self.file, self.line), 'verdict': self.verdict, 'detail': self.detail}
        if self.port:
            d['port'] = self.port
        if self.path:
            d['path'] = self.path
        return d


def load_known_findings():
    if not os.path.exists(KNOWN_FINDINGS):
        return []
    with open(KNOWN_FINDINGS) as f:
        return json.load(f).get('findings', [])


class Report(object):
    def __init__(self, prop_id, tier):
        self.prop_id = prop_id
        self.tier = tier
        self.obs = []
        self.t0 = time.time()
        self.analysed = {}       # free-form: what was analysed (modules, functions, skeletons ...)
        self.minima = {}         # rule -> (found, required)
        self.rules_run = []
        self.current_rule = None
        self.current_port = None
        self.explanation = ''
        self.not_decided = ''
        self.assumptions = []

    # ---- recording
    def _loc(self, where):
        """where: ast node with .lineno and a `.src_file` attribute on its module, or (file, line)."""
        if isinstance(where, tuple):
            return where
        f = getattr(where, 'src_file', None) or '?'
        return (f, getattr(where, 'lineno', 0))

    def _add(self, verdict, key, where, detail, rule=None, path=None):
        file, line = self._loc(where)
        rule = rule or self.current_rule
        self.obs.append(Ob(rule, norm_text(key, 240), file, line, verdict, norm_text(detail, 400), self.current_port, path))

    def holds(self, key, where, detail='', rule=None):
        self._add(HOLDS, key, where, detail, rule)

    def violated(self, key, where, detail='', rule=None, path=None):
        if getattr(self, '_fallback', None):
            # the obligation's primary decision procedure (an abstract model of the function) could not evaluate the code at hand; the
            # layout-bound predecessor still runs, but what it cannot match is an unrecognised shape, not positive evidence
            self._add(UNDECIDED, key, where, '[{}] the layout-bound fallback does not recognise the code: {}'.format(self._fallback, detail), rule)
            return
        self._add(VIOLATED, key, where, detail, rule, path)

    def as_fallback(self, why):
        rep = self

        class _Ctx(object):
            def __enter__(self_):
                self_.prev = getattr(rep, '_fallback', None)
                rep._fallback = why

            def __exit__(self_, *a):
                rep._fallback = self_.prev
                return False
        return _Ctx()

    def undecided(self, key, where, detail='', rule=None):
        self._add(UNDECIDED, key, where, detail, rule)

    def decide(self, cond, key, where, ok_detail='', bad_detail='', rule=None):
        if cond:
            self.holds(key, where, ok_detail, rule)
        else:
            self.violated(key, where, bad_detail or ok_detail, rule)
        return cond

    def require_count(self, what, found, minimum, where=('?', 0), rule=None):
        """Instance-count floor: fewer instances than were confirmed by hand is UNDECIDED (never a vacuous pass)."""
        rule = rule or self.current_rule
        self.minima['{}:{}'.format(rule, what)] = (found, minimum)
        if found < minimum:
            self.undecided('{} count'.format(what), where, 'found {} instance(s) of {}, expected at least {} (anchor vanished or shape not recognised)'.format(found, what, minimum), rule)
            return False
        return True

    # ---- running rules
    def run_rule(self, fn, cx, port=None):
        name = fn.__name__.replace('rule_', '').upper().replace('_', '-')
        name = getattr(fn, 'rule_name', name)
        self.current_rule = name
        self.current_port = port
        self._fallback = None
        self.rules_run.append(name if port is None else '{}[{}]'.format(name, port))
        n_before = len(self.obs)
        try:
            if port is None:
                fn(cx, self)
            else:
                fn(cx, self, port)
        except Undecided as u:
            where = u.node if u.node is not None else (u.file or '?', 0)
            self.undecided('analysis', where, str(u))
        except Exception as e:  # checker bug: fail closed, as analysis error
            tb = traceback.format_exc().strip().splitlines()
            self.undecided('checker-exception', ('/verif/sa', 0), '{}: {} | {}'.format(type(e).__name__, e, ' | '.join(tb[-4:])))
        if len(self.obs) == n_before:
            self.undecided('vacuous', ('?', 0), 'rule produced no obligation (matched nothing)')
        self.current_rule = None
        self.current_port = None

    # ---- finishing
    def finalize(self):
        known = load_known_findings()
        known_idx = {}
        for k in known:
            if k.get('status') == 'known':
                known_idx['{}|{}'.format(k['rule'], norm_text(k['construct'], 240))] = k
        evidence_dir = os.environ.get('RBQL_VERIF_OUT') or os.path.join(VERIF, 'evidence')  # RBQL_VERIF_OUT: developer self-test only
        replay_dir = os.path.join(evidence_dir, 'replay')
        os.makedirs(replay_dir, exist_ok=True)
        for fn in os.listdir(replay_dir):
            if fn.startswith(self.prop_id + '-'):
                try:
                    os.remove(os.path.join(replay_dir, fn))
                except OSError:
                    pass
        lines = []
        n_viol = 0
        n_undecided = 0
        n_known = 0
        seen_known = set()
        for i, ob in enumerate(self.obs):
            if ob.verdict == VIOLATED:
                k = known_idx.get(ob.ident())
                if k is not None and (not k.get('property') or self.prop_id in k.get('property')):
                    n_known += 1
                    if ob.ident() not in seen_known:
                        seen_known.add(ob.ident())
                        lines.append('KNOWN-FINDING: property={} {} [{} at {}:{} :: {}]'.format(self.prop_id, k.get('what', ''), ob.rule, ob.file, ob.line, ob.key))
                    continue
                n_viol += 1
                rp = os.path.join(replay_dir, '{}-{}-{}.json'.format(self.prop_id, ob.rule, n_viol))
                with open(rp, 'w') as f:
                    json.dump({'property': self.prop_id, 'obligation': ob.as_dict(), 'how_to_reproduce': './check {} --tier {}  (re-evaluates this obligation on the current /repo tree)'.format(self.prop_id, self.tier)}, f, indent=1)
                lines.append('VIOLATION property={} replay={}'.format(self.prop_id, rp))
                lines.append('  rule={} at {}:{} construct={} :: {}'.format(ob.rule, ob.file, ob.line, ob.key, ob.detail))
            elif ob.verdict == UNDECIDED:
                n_undecided += 1
                lines.append('ANALYSIS-ERROR property={} rule={} at {}:{} {} :: {}'.format(self.prop_id, ob.rule, ob.file, ob.line, ob.key, ob.detail))
        wall = time.time() - self.t0
        distinct = len(set(ob.ident() for ob in self.obs if ob.verdict != UNDECIDED))
        samples = []
        per_rule = {}
        for ob in self.obs:
            per_rule.setdefault(ob.rule, []).append(ob)
        for rule, obs in sorted(per_rule.items()):
            bad = [o for o in obs if o.verdict != HOLDS]
            take = bad[:6] + [o for o in obs if o.verdict == HOLDS][:3]
            samples.extend(o.as_dict() for o in take)
        counts = {}
        for ob in self.obs:
            c = counts.setdefault(ob.rule, {'HOLDS': 0, 'VIOLATED': 0, 'UNDECIDED': 0})
            c[ob.verdict] += 1
        ev = {
            'property_id': self.prop_id,
            'tier': self.tier,
            'seed': int(os.environ.get('VERIF_SEED', '0') or 0),
            'level': 'other',
            'coverage': {
                'explanation': self.explanation + (' NOT DECIDED by this check: ' + self.not_decided if self.not_decided else ''),
                'evaluations': len(self.obs),
                'distinct_nontrivial': distinct,
                'rule': 'one obligation = rule x construct (x configuration); distinct = distinct (rule, construct) pairs whose rule matched a construct in the parsed tree and reached a HOLDS/VIOLATED verdict; nothing is sampled: every instance the rule matches in the current tree is evaluated',
                'obligations': len(self.obs),
                'discharged': sum(1 for o in self.obs if o.verdict == HOLDS),
                'known_findings_matched': n_known,
                'undecided': n_undecided,
                'exhaustive': True,
                'rules_run': self.rules_run,
                'per_rule': counts,
                'instance_minima': {k: {'found': v[0], 'required': v[1]} for k, v in sorted(self.minima.items())},
                'analysed': self.analysed,
                'samples': samples[:120],
                'trusted_base': ['python ast/symtable/re._parser', 'acorn (bundled with node) as JS parser', 'idiom tables in /verif/sa (see DESIGN.md section 8)'],
            },
            'assumptions': self.assumptions,
            'wall_s': round(wall, 3),
            'violations': n_viol,
        }
        with open(os.path.join(evidence_dir, self.prop_id + '.json'), 'w') as f:
            json.dump(ev, f, indent=1, sort_keys=True)
        for ln in lines:
            print(ln)
        status = 'HOLDS'
        rc = 0
        if n_viol:
            status, rc = 'VIOLATED', 1
        elif n_undecided:
            status, rc = 'UNDECIDED', 2
        print('{} {} tier={} obligations={} holds={} violated={} known={} undecided={} rules={} wall={:.2f}s'.format(self.prop_id, status, self.tier, len(self.obs), ev['coverage']['discharged'], n_viol, n_known, n_undecided, len(self.rules_run), wall))
        return rc


def sha256_file(path):
    h = hashlib.sha256()
    with open(path, 'rb') as f:
        h.update(f.read())
    return h.hexdigest()
