"""Alpha-equivalence matching of code against reference snippets.

Rules that need "this function still does X" compare the repository's code with a small reference snippet *modulo*
  - consistent renaming of locally bound names (parameters, locals, loop variables),
  - `x += k`  vs  `x = x + k`,   `x == None` vs `x is None`,   `a > b` vs `b < a`,   `a >= b` vs `b <= a`,
  - `if c: return A` + `return B`   vs   `return A if c else B`,   and inverted conditionals (`if not c` with swapped arms,
    negative comparison operators with swapped arms),
  - `not (a OP b)` for comparison operators with a direct negation.
Global names, attribute names, constants and call structure must match exactly.
"""
import ast
import copy

from .model import walk_no_nested

NEG = {ast.Eq: ast.NotEq, ast.NotEq: ast.Eq, ast.Lt: ast.GtE, ast.GtE: ast.Lt, ast.Gt: ast.LtE, ast.LtE: ast.Gt, ast.Is: ast.IsNot, ast.IsNot: ast.Is, ast.In: ast.NotIn, ast.NotIn: ast.In}
NEGATIVE_OPS = (ast.NotEq, ast.IsNot, ast.NotIn, ast.GtE, ast.Gt)


def _is_none(e):
    return isinstance(e, ast.Constant) and e.value is None or (isinstance(e, ast.Name) and e.id == 'undefined')


class Normalizer(ast.NodeTransformer):
    def visit_Compare(self, node):
        self.generic_visit(node)
        if len(node.ops) != 1:
            return node
        op, l, r = node.ops[0], node.left, node.comparators[0]
        if isinstance(op, ast.Eq) and (_is_none(r) or _is_none(l)):
            op = ast.Is()
        if isinstance(op, ast.NotEq) and (_is_none(r) or _is_none(l)):
            op = ast.IsNot()
        if _is_none(l) and not _is_none(r) and isinstance(op, (ast.Is, ast.IsNot, ast.Eq, ast.NotEq)):
            l, r = r, l
        if isinstance(op, ast.Gt):
            op, l, r = ast.Lt(), r, l
        elif isinstance(op, ast.GtE):           # a >= b  ==  not (a < b)
            node.ops, node.left, node.comparators = [ast.Lt()], l, [r]
            return ast.copy_location(ast.UnaryOp(op=ast.Not(), operand=node), node)
        elif isinstance(op, ast.LtE):           # a <= b  ==  not (b < a)
            node.ops, node.left, node.comparators = [ast.Lt()], r, [l]
            return ast.copy_location(ast.UnaryOp(op=ast.Not(), operand=node), node)
        node.ops, node.left, node.comparators = [op], l, [r]
        return node

    def visit_UnaryOp(self, node):
        self.generic_visit(node)
        if isinstance(node.op, ast.Not):
            o = node.operand
            if isinstance(o, ast.UnaryOp) and isinstance(o.op, ast.Not):
                return o.operand
            if isinstance(o, ast.Compare) and len(o.ops) == 1 and type(o.ops[0]) in (ast.Eq, ast.NotEq, ast.Is, ast.IsNot, ast.In, ast.NotIn):
                o.ops = [NEG[type(o.ops[0])]()]
                return o
        return node

    def visit_AugAssign(self, node):
        self.generic_visit(node)
        return node

    def visit_Assign(self, node):
        self.generic_visit(node)
        # x = x + k  ->  x += k
        if len(node.targets) == 1 and isinstance(node.value, ast.BinOp) and isinstance(node.value.op, (ast.Add, ast.Sub)):
            t = node.targets[0]
            if ast.dump(_load(t)) == ast.dump(node.value.left):
                return ast.copy_location(ast.AugAssign(target=t, op=node.value.op, value=node.value.right), node)
        return node

    def visit_IfExp(self, node):
        self.generic_visit(node)
        t = node.test
        if isinstance(t, ast.UnaryOp) and isinstance(t.op, ast.Not):
            node.test, node.body, node.orelse = t.operand, node.orelse, node.body
        elif isinstance(t, ast.Compare) and len(t.ops) == 1 and isinstance(t.ops[0], (ast.NotEq, ast.IsNot, ast.NotIn)):
            t.ops = [NEG[type(t.ops[0])]()]
            node.body, node.orelse = node.orelse, node.body
        return node

    def _norm_block(self, body):
        out = []
        i = 0
        while i < len(body):
            st = body[i]
            # if c: return A ; return B   ->  return A if c else B
            if isinstance(st, ast.If) and not st.orelse and len(st.body) == 1 and isinstance(st.body[0], ast.Return) and i + 1 < len(body) and isinstance(body[i + 1], ast.Return) and i + 2 == len(body):
                a = st.body[0].value or ast.Constant(value=None)
                b = body[i + 1].value or ast.Constant(value=None)
                ife = self.visit_IfExp(ast.IfExp(test=st.test, body=a, orelse=b))
                out.append(ast.copy_location(ast.Return(value=ife), st))
                i += 2
                continue
            # if c: return A else: return B
            if isinstance(st, ast.If) and len(st.body) == 1 and len(st.orelse) == 1 and isinstance(st.body[0], ast.Return) and isinstance(st.orelse[0], ast.Return):
                a = st.body[0].value or ast.Constant(value=None)
                b = st.orelse[0].value or ast.Constant(value=None)
                ife = self.visit_IfExp(ast.IfExp(test=st.test, body=a, orelse=b))
                out.append(ast.copy_location(ast.Return(value=ife), st))
                i += 1
                continue
            if isinstance(st, ast.If):
                t = st.test
                if st.orelse and isinstance(t, ast.UnaryOp) and isinstance(t.op, ast.Not):
                    st.test, st.body, st.orelse = t.operand, st.orelse, st.body
                elif st.orelse and isinstance(t, ast.Compare) and len(t.ops) == 1 and isinstance(t.ops[0], (ast.NotEq, ast.IsNot, ast.NotIn)):
                    t.ops = [NEG[type(t.ops[0])]()]
                    st.body, st.orelse = st.orelse, st.body
            out.append(st)
            i += 1
        return out

    def generic_visit(self, node):
        node = super().generic_visit(node)
        for fld in ('body', 'orelse', 'finalbody'):
            b = getattr(node, fld, None)
            if isinstance(b, list) and b and isinstance(b[0], ast.stmt):
                setattr(node, fld, self._norm_block(b))
        return node


def _load(t):
    t2 = copy.deepcopy(t)
    for n in ast.walk(t2):
        if hasattr(n, 'ctx'):
            n.ctx = ast.Load()
    return t2


def normalize(node):
    if isinstance(node, list):
        m = ast.Module(body=[_strip(copy.deepcopy(_shallow_unparent(x))) for x in node], type_ignores=[])
        m = Normalizer().visit(m)
        return m.body
    n = _strip(copy.deepcopy(_shallow_unparent(node)))
    return Normalizer().visit(n)


def _shallow_unparent(x):
    """deepcopy follows .parent links upwards; cut them before copying (restored afterwards by the caller's tree being untouched)"""
    class _Tmp(object):
        pass
    return _Detached(x)


class _Detached(object):
    """deepcopy helper: copies an AST subtree without following `parent` back-references"""

    def __init__(self, node):
        self.node = node

    def __deepcopy__(self, memo):
        return _copy_tree(self.node)


def _copy_tree(n):
    if isinstance(n, list):
        return [_copy_tree(x) for x in n]
    if not isinstance(n, ast.AST):
        return n
    new = type(n)()
    for f in n._fields:
        if hasattr(n, f):
            setattr(new, f, _copy_tree(getattr(n, f)))
    for a in ('lineno', 'col_offset', 'end_lineno', 'end_col_offset', 'awaited', 'is_async', 'js_optional_chain', 'src_file', 'js_function_ref'):
        if hasattr(n, a):
            setattr(new, a, getattr(n, a))
    return new


def _strip(n):
    return n


def bound_names(node):
    """names bound inside node (params, assignment/loop targets, comprehension targets, except names)"""
    out = set()
    nodes = []
    if isinstance(node, list):
        for x in node:
            nodes.extend(ast.walk(x))
    else:
        nodes = list(ast.walk(node))
    for n in nodes:
        if isinstance(n, ast.arg):
            out.add(n.arg)
        elif isinstance(n, ast.Name) and isinstance(n.ctx, (ast.Store, ast.Del)):
            out.add(n.id)
        elif isinstance(n, ast.ExceptHandler) and n.name:
            out.add(n.name)
        elif isinstance(n, (ast.FunctionDef, ast.ClassDef)):
            pass
    return out


class Matcher(object):
    def __init__(self, bound_a, bound_b):
        self.ba, self.bb = bound_a, bound_b
        self.fwd, self.bwd = {}, {}

    def name(self, a, b):
        if a in self.ba or b in self.bb:
            if (a in self.ba) != (b in self.bb):
                # a local in one, a global in the other: only equal if identical and unbound mapping
                if a != b:
                    return False
            if a in self.fwd:
                return self.fwd[a] == b
            if b in self.bwd:
                return self.bwd[b] == a
            self.fwd[a], self.bwd[b] = b, a
            return True
        return a == b

    def match(self, a, b):
        if type(a) is not type(b):
            return False
        if isinstance(a, list):
            return len(a) == len(b) and all(self.match(x, y) for x, y in zip(a, b))
        if isinstance(a, ast.AST):
            if isinstance(a, ast.Name):
                return self.name(a.id, b.id)
            if isinstance(a, ast.arg):
                return self.name(a.arg, b.arg)
            if isinstance(a, ast.ExceptHandler):
                if (a.name is None) != (b.name is None):
                    return False
                if a.name is not None and not self.name(a.name, b.name):
                    return False
                return self.match(a.type, b.type) and self.match(a.body, b.body)
            if isinstance(a, ast.FunctionDef):
                return self.match(a.args, b.args) and self.match(a.body, b.body)
            for f in a._fields:
                if f in ('ctx', 'type_comment', 'lineno', 'col_offset', 'end_lineno', 'end_col_offset', 'kind', 'type_params', 'decorator_list', 'returns'):
                    continue
                if not self.match(getattr(a, f, None), getattr(b, f, None)):
                    return False
            return True
        return a == b


def _strip_js_attrs(n):
    return n


def alpha_equal(code, reference_src, whole_function=False):
    """code: ast node (FunctionDef / stmt / expr) or list of stmts from the repository (IR);
    reference_src: python source of the reference snippet."""
    ref = ast.parse(reference_src)
    ref_body = ref.body
    if isinstance(code, (ast.FunctionDef, ast.AsyncFunctionDef)):
        if not (len(ref_body) == 1 and isinstance(ref_body[0], ast.FunctionDef)):
            a = normalize(code.body)
            b = normalize(ref_body)
            return Matcher(bound_names(code), bound_names(ref_body) | bound_names(code.args)).match(a, b)
        a = normalize(code)
        b = normalize(ref_body[0])
        return Matcher(bound_names(a), bound_names(b)).match(a, b)
    if isinstance(code, ast.expr):
        b = ref_body[0].value if len(ref_body) == 1 and isinstance(ref_body[0], ast.Expr) else None
        if b is None:
            return False
        return Matcher(set(), set()).match(normalize(code), normalize(b))
    a = normalize(code if isinstance(code, list) else [code])
    b = normalize(ref_body)
    return Matcher(bound_names(a), bound_names(b)).match(a, b)


def contains_stmts(fd, reference_src, bound=None):
    """Does some block of fd contain consecutive statements alpha-equal to the reference statements?
    Names bound anywhere in fd may be renamed consistently (within the matched window)."""
    ref = normalize(ast.parse(reference_src).body)
    n = len(ref)
    fb = bound_names(fd) if bound is None else bound
    rb = bound_names(ref) | {x.id for s in ref for x in ast.walk(s) if isinstance(x, ast.Name)}
    blocks = []
    if isinstance(fd, (ast.FunctionDef, ast.AsyncFunctionDef, ast.ClassDef, ast.Module)):
        blocks.append(fd.body)
        for x in walk_no_nested(fd):
            for fld in ('body', 'orelse', 'finalbody'):
                b = getattr(x, fld, None)
                if x is not fd and isinstance(b, list) and b and isinstance(b[0], ast.stmt):
                    blocks.append(b)
            if isinstance(x, ast.ExceptHandler):
                pass
    for b in blocks:
        nb = normalize(b)
        for i in range(0, len(nb) - n + 1):
            # reference names that are not python builtins/globals of the repo are treated as renamable iff bound in fd
            m = Matcher(fb, {r for r in rb if r in _ref_locals(ref, fb)})
            if m.match(nb[i:i + n], ref):
                return True
    return False


def _ref_locals(ref, fb):
    """names of the reference that may be renamed: those it binds itself, plus names it merely uses that are not attribute
    bases known to be global (heuristic: lower-case identifiers that are not builtins)"""
    import builtins
    out = set(bound_names(ref))
    for s in ref:
        for x in ast.walk(s):
            if isinstance(x, ast.Name) and not hasattr(builtins, x.id) and x.id not in ('self',):
                out.add(x.id)
    return out


def contains_expr(node, reference_src):
    """Does node contain a sub-expression alpha-equal (names bound in node renamable) to the reference expression?"""
    ref = normalize(ast.parse(reference_src, mode='eval').body)
    fb = bound_names(node)
    rl = {x.id for x in ast.walk(ref) if isinstance(x, ast.Name)}
    import builtins
    rl = {r for r in rl if not hasattr(builtins, r) and r != 'self'}
    norm = normalize(node)
    for x in ast.walk(norm if not isinstance(norm, list) else ast.Module(body=norm, type_ignores=[])):
        if isinstance(x, ast.expr):
            if Matcher(fb, rl).match(x, ref):
                return True
    return False


def _parse_ref(src):
    try:
        return 'expr', ast.parse(src, mode='eval').body
    except SyntaxError:
        return 'stmts', ast.parse(src).body


def has(node, src):
    """alpha-insensitive containment: does `node` (function, class, statement list or statement) contain the expression or the
    consecutive statements given by `src`?  Local names of `node` may be renamed consistently; globals/attributes/constants not."""
    kind, _ = _parse_ref(src)
    if kind == 'expr':
        return contains_expr(node, src)
    target = node
    if isinstance(node, list):
        target = ast.Module(body=node, type_ignores=[])
    return contains_stmts(target, src)


def has_all(node, srcs):
    return all(has(node, s) for s in srcs)


def has_any(node, srcs):
    return any(has(node, s) for s in srcs)


PURE_METHODS = {'charAt', 'charCodeAt', 'substring', 'substr', 'strip', 'lstrip', 'rstrip', 'trim', 'lower', 'upper', 'toLowerCase', 'toUpperCase', 'group', 'get', 'span', 'start', 'end', 'startswith', 'endswith', 'format', 'join', 'find', 'indexOf'}


def inline_single_defs(expr, fd, depth=2, any_value=False):
    """copy of expr in which every local that fd assigns exactly once (plain `name = <expression without side effects>`) is replaced
    by that expression: `n = len(fields); if n != self.header_len` is matched like `if len(fields) != self.header_len`"""
    defs = {}
    for n in walk_no_nested(fd):
        if isinstance(n, ast.Assign) and len(n.targets) == 1 and isinstance(n.targets[0], ast.Name):
            defs.setdefault(n.targets[0].id, []).append(n.value)
        elif isinstance(n, ast.Assign):
            # destructuring / chained assignment: the names are (re)bound, but not to one expression
            for t in n.targets:
                for x in ast.walk(t):
                    if isinstance(x, ast.Name) and isinstance(x.ctx, ast.Store):
                        defs.setdefault(x.id, []).extend([None, None])
        elif isinstance(n, (ast.AugAssign, ast.For, ast.NamedExpr)):
            t = n.target
            for x in ast.walk(t):
                if isinstance(x, ast.Name):
                    defs.setdefault(x.id, []).extend([None, None])
    params = {a.arg for a in fd.args.args} if isinstance(fd, (ast.FunctionDef, ast.AsyncFunctionDef)) else set()
    # the same expression bound in several places (block-scoped `let x = e` repeated in two arms) is one definition
    for k, vs in list(defs.items()):
        if len(vs) > 1 and all(v is not None for v in vs) and len({ast.dump(v) for v in vs}) == 1:
            defs[k] = vs[:1]

    def pure(v):
        if any_value:
            return v is not None
        return v is not None and all(not isinstance(x, (ast.Call, ast.Await, ast.Yield)) or (isinstance(x, ast.Call) and ((isinstance(x.func, ast.Name) and x.func.id in ('len', 'str', 'int', 'float')) or (isinstance(x.func, ast.Attribute) and x.func.attr in PURE_METHODS))) for x in ast.walk(v))

    class T(ast.NodeTransformer):
        def __init__(self, d):
            self.d = d

        def visit_Name(self, node):
            if isinstance(node.ctx, ast.Load) and node.id not in params and len(defs.get(node.id, [])) == 1 and pure(defs[node.id][0]) and self.d > 0:
                return T(self.d - 1).visit(_fcopy(defs[node.id][0]))
            return node
    return T(depth).visit(_fcopy(expr))


def _fcopy(n):
    """copy of the syntax fields only (the IR's parent links would drag the whole module along)"""
    if isinstance(n, list):
        return [_fcopy(x) for x in n]
    if not isinstance(n, ast.AST):
        return n
    new = type(n)()
    for f in n._fields:
        if hasattr(n, f):
            setattr(new, f, _fcopy(getattr(n, f)))
    for a in ('lineno', 'col_offset', 'end_lineno', 'end_col_offset', 'awaited', 'is_async', 'js_optional_chain', 'src_file', 'js_function_ref'):
        if hasattr(n, a):
            setattr(new, a, getattr(n, a))
    return new
