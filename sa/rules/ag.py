"""AG / JN rules (C03, C04): aggregate routing, staging, verifier, key order; joiner dispatch, build, triples."""
import ast

from .. import cfg as cfgmod

from .. import roles
from ..core import Undecided, node_text
from ..idioms import is_name, is_true, negated
from ..model import call_name, const_value, dotted, is_none, names_in, walk_no_nested, NOCONST

AGG_ENTRY = ['ANY_VALUE', 'MIN', 'MAX', 'COUNT', 'SUM', 'AVG', 'VARIANCE', 'MEDIAN', 'ARRAY_AGG']


def _norm(name):
    return name.lower().replace('_', '').replace('aggregator', '')


def _entry_funcs(cx, port):
    p = cx.port(port)
    mod = cx.engine_mod(port)
    out = {}
    if port == 'py':
        car = p.func(mod, 'compile_and_run')
        for st in car.body:
            if isinstance(st, ast.FunctionDef) and st.name in AGG_ENTRY:
                out[st.name] = st
    else:
        for name in AGG_ENTRY:
            fd = p.func(mod, name, required=False)
            if fd is not None:
                out[name] = fd
    return out


def _entry_summaries(cx, port, name, fd, init_fd):
    """paths of an aggregate entry point with the call of the registration helper expanded: [(conds, stores, calls, returned value)]"""
    from .. import pathsem
    ps = pathsem.paths(fd)
    if ps is None:
        return None
    out = []
    for q in ps:
        if q.kind != 'return':
            continue
        v = q.value
        if init_fd is not None and isinstance(v, ast.Call) and dotted(v.func) == init_fd.name:
            params = [a.arg for a in init_fd.args.args]
            env = {prm: arg for prm, arg in zip(params, v.args)}
            for prm, dflt in zip(params[len(params) - len(init_fd.args.defaults):], init_fd.args.defaults):
                env.setdefault(prm, dflt)
            hps = pathsem.paths_with_env(init_fd, env)
            if hps is None:
                return None
            for x in hps:
                if x.kind == 'return':
                    out.append((q.conds + x.conds, q.stores + x.stores, q.calls + x.calls, x.value, True))
        else:
            out.append((q.conds, q.stores, q.calls, v, False))
    return out


def rule_ag_route(cx, rep, port):
    """each aggregate entry point, in the discovery stage (aggregation_stage < 2): sets the stage to 1, registers a *new instance of
    the aggregator class of the same (normalised) name* and returns a token carrying the index that instance gets and the argument
    (COUNT: the constant 1); in the accumulation stage it passes its argument through.  Decided on the path summaries of the entry
    point with the registration helper expanded, so it does not matter who constructs the instance or how the helper is called."""
    from .. import pathsem
    p = cx.port(port)
    mod = cx.engine_mod(port)
    entries = _entry_funcs(cx, port)
    rep.require_count('aggregate entry points', len(entries), 9, (p.files[mod], 0))
    classes = {c.name for c in roles.aggregators(p, mod)}
    init_fd = p.func(mod, 'compile_and_run.init_aggregator' if port == 'py' else 'init_aggregator', required=False)
    for name, fd in sorted(entries.items()):
        params = [a.arg for a in fd.args.args]
        sums = _entry_summaries(cx, port, name, fd, init_fd)
        if sums is None:
            rep.undecided(name, fd, 'entry point is not summarisable as paths')
            continue

        def stage(conds):
            for atom, pol in pathsem.atoms(conds):
                if isinstance(atom, ast.Compare) and len(atom.ops) == 1 and (dotted(atom.left) or '').endswith('aggregation_stage') and isinstance(atom.comparators[0], ast.Constant):
                    c_ = atom.comparators[0].value
                    if (isinstance(atom.ops[0], ast.Lt) and c_ == 2) or (isinstance(atom.ops[0], ast.LtE) and c_ == 1):
                        return 'discover' if pol else 'accumulate'
                    if (isinstance(atom.ops[0], ast.GtE) and c_ == 2) or (isinstance(atom.ops[0], ast.Gt) and c_ == 1) or (isinstance(atom.ops[0], ast.Eq) and c_ == 2):
                        return 'accumulate' if pol else 'discover'
                    return 'other:' + node_text(atom, 60)
            return None
        problem = None
        n_disc = n_acc = 0
        pp_forwarded = False
        for conds, stores, calls, value, expanded in sums:
            stg = stage(conds)
            if stg is None or stg.startswith('other'):
                problem = ('stage test', 'the stage test of {} is not `aggregation_stage < 2` ({}): tokens are created in the accumulation stage (or never)'.format(name, stg))
                break
            want_val = 1 if name == 'COUNT' else params[0]

            def is_arg(e):
                return (const_value(e) == 1) if name == 'COUNT' else is_name(e, params[0])
            if stg == 'accumulate':
                n_acc += 1
                if not is_arg(value):
                    problem = ('routing', '{} does not pass its argument through in the accumulation stage (returns `{}`)'.format(name, node_text(value, 60)))
                    break
                continue
            n_disc += 1
            regs = [c for c in calls if isinstance(c, ast.Call) and isinstance(c.func, ast.Attribute) and c.func.attr in ('append', 'push') and (dotted(c.func.value) or '').endswith('functional_aggregators')]
            if len(regs) != 1:
                problem = ('routing', '{} does not register exactly one aggregator in the discovery stage'.format(name))
                break
            inst = regs[0].args[0] if regs[0].args else None
            cls = dotted(inst.func) if isinstance(inst, ast.Call) else None
            if cls not in classes:
                problem = ('routing', '{} registers `{}`, which is not a new instance of an aggregator class'.format(name, node_text(inst, 60) if inst is not None else None))
                break
            if _norm(cls) != _norm(name):
                problem = ('routing', '{} is routed to {}: every {}(...) in a query computes the other aggregate'.format(name, cls, name))
                break
            if name == 'ARRAY_AGG' and len(params) == 2:
                if inst.args and is_name(inst.args[0], params[1]):
                    pp_forwarded = True
                elif not any(isinstance(a_, ast.Compare) and is_name(a_.left, params[1]) and is_none(a_.comparators[0]) and ((isinstance(a_.ops[0], (ast.Is, ast.Eq)) and pol_) or (isinstance(a_.ops[0], (ast.IsNot, ast.NotEq)) and not pol_)) for a_, pol_ in conds):
                    problem = ('post_proc', 'ARRAY_AGG does not forward its post-processing function')
                    break
            if not any((dotted(t_) or '').endswith('aggregation_stage') and const_value(v_) == 1 for t_, v_ in stores):
                problem = ('stage', '{} does not set aggregation_stage to 1 when it registers its aggregator'.format(name))
                break
            tok = value
            ok_tok = isinstance(tok, ast.Call) and dotted(tok.func) == 'RBQLAggregationToken' and len(tok.args) == 2 and isinstance(tok.args[0], ast.Call) and dotted(tok.args[0].func) == 'len' and (dotted(tok.args[0].args[0]) or '').endswith('functional_aggregators') and is_arg(tok.args[1])
            if not ok_tok:
                problem = ('token', '{} does not return a token with the index of the registered aggregator and its own argument (`{}`)'.format(name, node_text(tok, 80)))
                break
        if problem is None and name == 'ARRAY_AGG' and len(params) == 2 and not pp_forwarded:
            problem = ('post_proc', 'ARRAY_AGG does not forward its post-processing function')
        if problem is not None:
            rep.violated('{} {}'.format(name, problem[0]), fd, problem[1])
        elif n_disc and n_acc:
            rep.holds(name + ' routing', fd, '{}: discovery -> stage 1, new {} instance, token(index, argument); accumulation -> pass-through'.format(name, _norm(name)))
        else:
            rep.undecided(name + ' routing', fd, 'discovery / accumulation paths not both found')


def rule_ag_init(cx, rep, port):
    """the token index is taken before the instance is appended (the index the instance gets)"""
    p = cx.port(port)
    mod = cx.engine_mod(port)
    fd = p.func(mod, 'compile_and_run.init_aggregator' if port == 'py' else 'init_aggregator', required=False)
    scopes = [fd] if fd is not None else list(_entry_funcs(cx, port).values())
    n = 0
    for sc in scopes:
        toks = [c for c in walk_no_nested(sc) if isinstance(c, ast.Call) and dotted(c.func) == 'RBQLAggregationToken']
        apps = [c for c in walk_no_nested(sc) if isinstance(c, ast.Call) and isinstance(c.func, ast.Attribute) and c.func.attr in ('append', 'push') and (dotted(c.func.value) or '').endswith('functional_aggregators')]
        for t in toks:
            n += 1
            before = all((t.lineno, t.col_offset) < (a.lineno, a.col_offset) for a in apps)
            rep.decide(before and bool(apps), '{} token id'.format(sc.name), t, 'len(functional_aggregators) is taken before the append: it is the index the new aggregator gets', 'the token index is computed after the aggregator was appended: every token points one past its aggregator')
    rep.require_count('token constructions', n, 1, (p.files[mod], 0))


def _block_env(stmts, upto):
    """local name -> expression for the plain assignments that precede statement `upto` in a block (later ones see earlier ones)"""
    from .. import pathsem
    env = {}
    for st in stmts:
        if st is upto:
            break
        if isinstance(st, ast.Assign) and len(st.targets) == 1 and isinstance(st.targets[0], ast.Name):
            env[st.targets[0].id] = pathsem.subst(st.value, env)
        elif isinstance(st, ast.Assign) and len(st.targets) == 1 and isinstance(st.targets[0], ast.Attribute) and isinstance(st.value, ast.Name) and st.value.id in env:
            # `query_context.writer = aggregate_writer`: from here on the two spell the same object
            env['__alias__' + (dotted(st.targets[0]) or '')] = env[st.value.id]
    return {k: v for k, v in env.items() if not k.startswith('__alias__')}


def _stage1_columns(rep, lp, res, key_name, iff, env0=None):
    """per output column (= per path through the body of the stage-1 loop): a token column appends the aggregator registered under
    the token's marker_id and feeds it the token's value; any other column appends ConstGroupVerifier(current column index) and
    feeds it the value itself.  Decided on path summaries, so temporaries, merged tails and `aggregators[-1]` are the same thing."""
    from .. import pathsem
    body = lp.body
    ps = pathsem.paths_of_block(body, env0)
    if ps is None:
        rep.undecided('stage 1 columns', lp, 'column loop body is not straight-line code')
        return

    def txt(e):
        return node_text(res(e), 400).replace(' ', '')
    n_tok = n_plain = 0
    for q in ps:
        if q.kind not in ('fall', 'continue'):
            continue
        tok = None
        colv = None
        for atom, pol in pathsem.atoms(q.conds):
            if isinstance(atom, ast.Call) and dotted(atom.func) == 'isinstance' and len(atom.args) == 2 and dotted(atom.args[1]) == 'RBQLAggregationToken':
                tok, colv = pol, node_text(atom.args[0]).replace(' ', '')
        if tok is None:
            rep.undecided('stage 1 token test', lp, 'a path through the column loop does not classify the column by isinstance(value, RBQLAggregationToken)')
            return
        apps = [c for c in q.calls if isinstance(c, ast.Call) and isinstance(c.func, ast.Attribute) and c.func.attr in ('append', 'push') and (txt(c.func.value).endswith('.aggregators') or txt(c.func.value).endswith('.aggregators)'))]
        incs = [c for c in q.calls if isinstance(c, ast.Call) and isinstance(c.func, ast.Attribute) and c.func.attr == 'increment']
        if len(apps) != 1:
            rep.violated('stage 1 columns', lp, 'a {} column appends {} aggregators/verifiers (must be exactly one per output column)'.format('token' if tok else 'plain', len(apps)))
            return
        a0 = txt(apps[0].args[0]) if apps[0].args else ''
        if tok:
            n_tok += 1
            if 'functional_aggregators[' not in a0:
                rep.violated('stage 1 columns', lp, 'a token column does not get its registered aggregator (`{}`)'.format(a0[:80]))
                return
            if not a0.endswith('[{}.marker_id]'.format(colv)):
                rep.violated('stage 1 token lookup', lp, 'the aggregator of a token is not looked up by its marker_id (`{}`): columns get each other\'s aggregators'.format(a0[:80]))
                return
            want_val = colv + '.value'
        else:
            n_plain += 1
            ok_v = a0.startswith('ConstGroupVerifier(len(') and a0.endswith('.aggregators))')
            if 'ConstGroupVerifier(' not in a0:
                rep.violated('stage 1 columns', lp, 'a plain column does not get a constant-group verifier (`{}`)'.format(a0[:80]))
                return
            if not ok_v:
                rep.violated('stage 1 verifier index', lp, 'the constant-group verifier is created with `{}` instead of the current column index'.format(a0[:80]))
                return
            want_val = colv
        if len(incs) != 1:
            rep.violated('stage 1 first record', lp, 'a {} column feeds the first record {} times to its aggregator'.format('token' if tok else 'plain', len(incs)))
            return
        i0 = incs[0]
        recv = txt(i0.func.value)
        recv_ok = recv == a0 or recv.endswith('.aggregators[-1]') or ('.aggregators[len(' in recv and recv.endswith('-1]'))
        args = [txt(a) for a in i0.args]
        if not (len(args) == 2 and args[0] == key_name and args[1] == want_val and recv_ok):
            rep.violated('stage 1 first record', lp, 'the first record of the query is not fed to the column\'s own aggregator under the group key with the {} (`{}.increment({})`)'.format('token value' if tok else 'plain value', recv[:60], ', '.join(args)))
            return
    if n_tok and n_plain:
        rep.holds('stage 1 columns', lp, 'every output column gets either its registered aggregator (by marker_id) or a constant-group verifier with its column index, and is fed the first record')
    else:
        rep.undecided('stage 1 columns', lp, 'token / plain column paths not both found')


def _ag_stage_model(cx, rep, port, p, mod, fd):
    """select_aggregated decided on its abstract effects: the query context, its writer, the registered aggregators, the aggregate tokens
    and the group keys are abstract objects; the function is run for the first record (stage 1) and for a second one (stage 2) and the
    writer installed, the aggregators appended, the (aggregator, key, value) increments, the stage and the key set are compared with what
    the two-stage protocol requires.  True when every scenario could be evaluated."""
    from .. import absexec as AX
    params = [a.arg for a in fd.args.args]
    results = {}

    def run(writer_cls, n_registered, first_values, second_values):
        ctx = AX.Abs('Ctx')
        w0 = AX.Abs('Obj', cls=writer_cls)
        fas = [AX.Abs('Obj', cls='Aggregator', name='FA%d' % i) for i in range(n_registered)]
        k1, k2 = AX.Abs('Key', id='K1'), AX.Abs('Key', id='K2')
        made = []
        incs = []
        init = {'aggregation_stage': 1, 'writer': w0, 'functional_aggregators': fas}

        def on_name(ex, node, name):
            if name == 'query_context':
                return ctx
            if p.cls(mod, name, required=False) is not None:
                return ('class', name)
            return AX.NOT_HANDLED

        def on_attr(ex, node, obj, attr):
            if obj is ctx and attr in init:
                return init[attr]
            if isinstance(obj, AX.Abs) and obj.kind == 'Tok' and attr in ('marker_id', 'value'):
                return ('nomemo', obj.props[attr])
            return AX.NOT_HANDLED

        def on_call(ex, node, fname, recv, args):
            short = node.func.attr if isinstance(node.func, ast.Attribute) else fname.split('.')[-1]
            if short.endswith('Error'):
                return AX.Abs(short)
            if fname == 'JSON.stringify' and len(args) == 1:
                return AX.Abs('Json', of=args[0])
            if short == 'AggregateWriter' and recv is None and len(args) == 1:
                o = AX.Abs('Obj', cls='AggregateWriter')
                ex.run.state[(o.uid, 'subwriter')] = args[0]
                ex.run.state[(o.uid, 'aggregators')] = []
                ex.run.state[(o.uid, 'aggregation_keys')] = set()
                made.append(o)
                return o
            if short == 'ConstGroupVerifier' and recv is None and len(args) == 1:
                return AX.Abs('Obj', cls='ConstGroupVerifier', index=args[0])
            if short == 'increment' and isinstance(recv, AX.Abs) and recv.kind == 'Obj' and len(args) == 2:
                incs.append((recv, args[0], args[1]))
                return None
            return AX.NOT_HANDLED
        ex = AX.Explorer(p, mod, on_call=on_call, on_attr=on_attr, on_name=on_name, max_choices=1)
        ex.cls = None
        ex._script, ex._pos, ex.steps, ex.depth = [], 0, 0, 0
        ex.run = AX.Run()

        def call(key, values):
            args = []
            for prm in params:
                if prm == 'query_context':
                    args.append(ctx)
                elif prm == params[-2]:
                    args.append(key)
                elif prm == params[-1]:
                    args.append(list(values))
            try:
                ex.call_fd(fd, args)
                return None
            except AX.Raised as r:
                return r.value
        toks = {}

        def val(v):
            if isinstance(v, tuple):        # ('tok', marker id)
                toks.setdefault(v, AX.Abs('Tok', cls='RBQLAggregationToken', marker_id=v[1], value=AX.Abs('Val', id='V%d' % len(toks))))
                return toks[v]
            return AX.Abs('Val', id=v)
        v1 = [val(v) for v in first_values]
        err1 = call(k1, v1)
        state1 = dict(stage=ex.run.state.get((ctx.uid, 'aggregation_stage'), 1), writer=ex.run.state.get((ctx.uid, 'writer'), w0), incs=list(incs))
        ags = list(ex.run.state.get((made[0].uid, 'aggregators'), [])) if made else []
        err2 = None
        v2 = []
        if err1 is None and second_values is not None:
            del incs[:]
            v2 = [val(v) for v in second_values]
            err2 = call(k2, v2)
        keys = set(ex.run.state.get((made[0].uid, 'aggregation_keys'), set())) if made else set()
        return dict(ctx=ctx, w0=w0, fas=fas, k1=k1, k2=k2, made=made, v1=v1, v2=v2, err1=err1, err2=err2, state1=state1, ags=ags, incs2=list(incs), keys=keys,
                    stage=ex.run.state.get((ctx.uid, 'aggregation_stage'), 1), sub=ex.run.state.get((made[0].uid, 'subwriter')) if made else None)

    raw_keys = []

    def key_is(v, k):
        if v is k:
            raw_keys.append(v)
            return True
        return isinstance(v, AX.Abs) and v.kind == 'Json' and v.props['of'] is k
    bad = {}
    try:
        # main scenario: SELECT agg1(..), plain, agg0(..) GROUP BY .. ; tokens carry the marker ids 1 and 0 (registration order differs from column order)
        r = run('TopWriter', 2, [('tok', 1), 'P', ('tok', 0)], ['X0', 'X1', 'X2'])
        if r['err1'] is not None or r['err2'] is not None:
            bad['stage 1 columns'] = 'a well-formed aggregate query raises {}'.format((r['err1'] or r['err2']).kind)
        else:
            if not (len(r['made']) == 1 and r['state1']['writer'] is r['made'][0] and r['sub'] is r['w0']):
                bad['stage 1 writer'] = 'AggregateWriter is not installed exactly once, around the previous writer, in stage 1'
            ags = r['ags']
            shape = len(ags) == 3 and ags[0] is r['fas'][1] and ags[2] is r['fas'][0] and isinstance(ags[1], AX.Abs) and ags[1].props.get('cls') == 'ConstGroupVerifier' and ags[1].props.get('index') == 1
            want1 = [(0, r['v1'][0].props['value']), (1, r['v1'][1]), (2, r['v1'][2].props['value'])]
            i1 = r['state1']['incs']
            fed = shape and len(i1) == 3 and all(i1[j][0] is ags[a] and key_is(i1[j][1], r['k1']) and i1[j][2] is v for j, (a, v) in enumerate(want1))
            if not shape:
                bad['stage 1 columns'] = 'for columns (token #1, plain, token #0) the aggregators appended are [{}] instead of [registered #1, ConstGroupVerifier(1), registered #0]'.format(', '.join((a.props.get('name') or '{}({})'.format(a.props.get('cls'), a.props.get('index'))) if isinstance(a, AX.Abs) else repr(a) for a in ags))
            elif not fed:
                bad['stage 1 columns'] = 'the first record is not fed to the aggregators as (aggregator of the column, group key, value of the column) in column order'
            if r['state1']['stage'] != 2:
                bad['stage transition'] = 'stage 1 does not end with aggregation_stage = 2'
            i2 = r['incs2']
            ok2 = shape and len(i2) == 3 and all(i2[j][0] is ags[j] and key_is(i2[j][1], r['k2']) and i2[j][2] is r['v2'][j] for j in range(3))
            if not ok2:
                bad['stage 2'] = 'stage 2 does not increment aggregator i with output value i under the group key'
            if not (any(key_is(k, r['k1']) for k in r['keys']) and any(key_is(k, r['k2']) for k in r['keys']) and len(r['keys']) == 2):
                bad['key set'] = 'the group key is not added to the key set for every aggregated record'
        # an aggregate hidden inside an expression: one token in the output, two aggregators registered
        r = run('TopWriter', 2, [('tok', 0), 'P'], None)
        if not (isinstance(r['err1'], AX.Abs) and r['err1'].kind == 'RbqlParsingError'):
            bad['stage 1 nested aggregate check'] = 'an aggregate nested inside an expression is not detected (token count != registered aggregators)'
        # sorting / dedup writers are rejected before anything is installed
        for wc in ('SortedWriter', 'UniqWriter', 'UniqCountWriter'):
            if p.cls(mod, wc, required=False) is None:
                continue
            r = run(wc, 1, [('tok', 0)], None)
            if not (isinstance(r['err1'], AX.Abs) and r['err1'].kind == 'RbqlParsingError') or r['state1']['writer'] is not r['w0']:
                bad['stage 1 guard'] = 'ORDER BY / DISTINCT in an aggregate query is not rejected with a parsing error before the AggregateWriter is installed (writer {})'.format(wc)
    except (Undecided, AX._NeedChoice, AX.Cut, KeyError, IndexError) as e_:
        import os
        if os.environ.get('RBQL_VERIF_DEBUG'):
            print('AG-STAGE model gave up:', type(e_).__name__, e_)
        return False
    good = {'stage 1 writer': 'AggregateWriter is installed once, in stage 1, around the previous writer',
            'stage 1 guard': 'sorting/dedup writers are rejected with a parsing error before the AggregateWriter is installed',
            'stage 1 columns': 'per output column: the aggregator registered under the token\'s marker id fed with the token\'s value / ConstGroupVerifier(column index) fed with the value',
            'stage 1 nested aggregate check': 'aggregates hidden inside expressions are a parsing error',
            'stage transition': 'stage := 2 at the end of stage 1',
            'stage 2': 'aggregators[i].increment(key, value i)',
            'key set': 'the group key is recorded for every record, in both stages'}
    for k_ in ('stage 1 writer', 'stage 1 guard', 'stage 1 columns', 'stage 1 nested aggregate check', 'stage transition', 'stage 2', 'key set'):
        rep.decide(k_ not in bad, k_, fd, good[k_] + ' (abstract run of two records)', bad.get(k_, ''))
    # how the group key reaches the aggregators and the key set: as it is (python) / as the JSON text of the whole key (javascript)
    cx.__dict__.setdefault('_ag_key_raw', {})[port] = bool(raw_keys)
    return True


def rule_ag_stage(cx, rep, port):
    """select_aggregated: stage 1 appends one aggregator/verifier per output column in column order, then stage := 2;
    stage 2 increments aggregators[i] with value i; the key is added to the key set in both stages"""
    p = cx.port(port)
    mod = cx.engine_mod(port)
    fd = p.func(mod, 'select_aggregated')
    if _ag_stage_model(cx, rep, port, p, mod, fd):
        return
    top = [s for s in fd.body if isinstance(s, ast.If) and 'aggregation_stage' in node_text(s.test)]
    if len(top) != 1:
        raise Undecided('select_aggregated: stage dispatch not found', fd)
    iff = top[0]
    t = iff.test
    ok = isinstance(t, ast.Compare) and isinstance(t.ops[0], ast.Eq) and isinstance(t.comparators[0], ast.Constant) and t.comparators[0].value == 1
    rep.decide(ok, 'stage dispatch', t, 'first arm runs in stage 1', 'stage dispatch `{}` is not `aggregation_stage == 1`'.format(node_text(t)))
    s1, s2 = iff.body, iff.orelse
    from ..snippet import inline_single_defs
    scope = fd
    key_name = fd.args.args[-2].arg
    # stage 1 may live in a helper that the arm calls: the helper's body is the arm
    if len(s1) == 1 and isinstance(s1[0], ast.Expr) and isinstance(s1[0].value, ast.Call) and isinstance(s1[0].value.func, ast.Name) and p.func(mod, s1[0].value.func.id, required=False) is not None:
        call = s1[0].value
        scope = p.func(mod, call.func.id)
        hp = [a.arg for a in scope.args.args]
        for prm, a in zip(hp, call.args):
            if is_name(a, key_name):
                key_name = prm
                break
        s1 = scope.body

    def res(e):
        """expression with single-definition aliases of the scope replaced by what they stand for (for matching only)"""
        return inline_single_defs(e, scope, depth=3, any_value=True)
    # stage 1
    ctor = [n for s_ in s1 for n in ast.walk(s_) if isinstance(n, ast.Call) and dotted(n.func) == 'AggregateWriter']
    def _val(n):
        from .. import pathsem
        v = pathsem.subst(n.value, _block_env(s1, n))
        return v if isinstance(v, ast.Call) else res(n.value)
    wrap = [n for n in s1 if isinstance(n, ast.Assign) and (dotted(n.targets[0]) or '').endswith('.writer') and isinstance(_val(n), ast.Call) and dotted(_val(n).func) == 'AggregateWriter']
    rep.decide(len(wrap) == 1 and len(ctor) == 1, 'stage 1 writer', wrap[0] if wrap else iff, 'AggregateWriter is installed once, in stage 1', 'AggregateWriter is not installed exactly once in stage 1')
    if ctor:
        cst = ctor[0]
        while not isinstance(cst, ast.stmt):
            cst = cst.parent
        wrap_pos = cst.pos
    else:
        wrap_pos = None
    guard = [n for n in s1 if isinstance(n, ast.If) and isinstance(n.body[-1], ast.Raise) and 'writer' in node_text(n.test)]
    okg = len(guard) == 1 and 'RbqlParsingError' in node_text(guard[0].body[-1]) and (wrap_pos is None or guard[0].pos < wrap_pos)
    rep.decide(okg, 'stage 1 guard', guard[0] if guard else iff, 'sorting/dedup writers are rejected with a parsing error before the AggregateWriter is installed', 'ORDER BY / DISTINCT in an aggregate query is not rejected with a parsing error before aggregation starts')
    loops = [n for n in s1 if isinstance(n, (ast.For, ast.While))]
    if len(loops) != 1:
        rep.undecided('stage 1 loop', iff, 'column loop not recognised')
    else:
        lp = loops[0]
        _stage1_columns(rep, lp, res, key_name, iff, _block_env(s1, lp))
    chk = [n for n in s1 if isinstance(n, ast.If) and 'num_aggregators_found' in node_text(n.test)]
    okc = len(chk) == 1 and isinstance(chk[0].test, ast.Compare) and isinstance(chk[0].test.ops[0], ast.NotEq) and 'RbqlParsingError' in node_text(chk[0].body[-1])
    rep.decide(okc, 'stage 1 nested aggregate check', chk[0] if chk else iff, 'aggregates hidden inside expressions are a parsing error', 'an aggregate nested inside an expression is not detected (token count != registered aggregators)')
    st2 = [n for n in s1 if isinstance(n, ast.Assign) and (dotted(n.targets[0]) or '').endswith('aggregation_stage')]
    rep.decide(len(st2) == 1 and isinstance(st2[0].value, ast.Constant) and st2[0].value.value == 2 and s1.index(st2[0]) == len(s1) - 1, 'stage transition', st2[0] if st2 else iff, 'stage := 2 at the end of stage 1', 'stage 1 does not end with aggregation_stage := 2')
    # stage 2
    incs2 = [c for s in s2 for c in ast.walk(s) if isinstance(c, ast.Call) and isinstance(c.func, ast.Attribute) and c.func.attr == 'increment']
    ok2 = False
    if len(incs2) == 1 and len(incs2[0].args) == 2:
        from .hd import _index_name_pairs
        from .. import pathsem
        c = incs2[0]
        vparam = fd.args.args[-1].arg
        lp2 = c
        while lp2 is not None and not isinstance(lp2, (ast.For, ast.While)):
            lp2 = getattr(lp2, 'parent', None)
        env2 = _block_env(s2, lp2) if lp2 is not None else {}
        recv = pathsem.subst(c.func.value, env2)
        pairs2 = _index_name_pairs(ast.Module(body=s2, type_ignores=[]), vparam)
        # counting loop without an element variable: for i in range(len(values)): ... values[i]
        idx_vars = {i_ for i_, _ in pairs2}
        if isinstance(lp2, ast.For) and isinstance(lp2.target, ast.Name) and isinstance(lp2.iter, ast.Call) and dotted(lp2.iter.func) == 'range' and lp2.iter.args and isinstance(lp2.iter.args[-1], ast.Call) and dotted(lp2.iter.args[-1].func) == 'len' and is_name(lp2.iter.args[-1].args[0], vparam):
            idx_vars.add(lp2.target.id)
        if isinstance(recv, ast.Subscript) and isinstance(recv.slice, ast.Name) and recv.slice.id in idx_vars and (dotted(recv.value) or node_text(recv.value, 300)).endswith('.aggregators'):
            i_ = recv.slice.id
            val = c.args[1]
            val_ok = (isinstance(val, ast.Subscript) and is_name(val.value, vparam) and is_name(val.slice, i_)) or (isinstance(val, ast.Name) and (i_, val.id) in pairs2)
            ok2 = is_name(c.args[0], fd.args.args[-2].arg) and val_ok
    rep.decide(ok2, 'stage 2', incs2[0] if incs2 else iff, 'aggregators[i].increment(key, value i)', 'stage 2 does not increment aggregator i with output value i under the group key')
    # key set
    adds = [n for n in fd.body if isinstance(n, ast.Expr) and isinstance(n.value, ast.Call) and isinstance(n.value.func, ast.Attribute) and n.value.func.attr == 'add' and (dotted(n.value.func.value) or '').endswith('aggregation_keys')]
    rep.decide(len(adds) == 1 and is_name(adds[0].value.args[0], fd.args.args[-2].arg), 'key set', adds[0] if adds else fd, 'the group key is recorded for every record, in both stages', 'the group key is not added to the key set for every aggregated record')


def rule_ag_const(cx, rep, port):
    p = cx.port(port)
    mod = cx.engine_mod(port)
    c = p.cls(mod, 'ConstGroupVerifier')
    inc = [m for m in c.body if isinstance(m, ast.FunctionDef) and m.name == 'increment'][0]
    params = [a.arg for a in inc.args.args]
    key, val = params[1], params[2]
    raises = [r for r in walk_no_nested(inc) if isinstance(r, ast.Raise)]
    if len(raises) != 1 or 'RbqlRuntimeError' not in node_text(raises[0]):
        rep.violated('non-constant column', inc, 'a differing value in a non-aggregate column does not raise the runtime error class')
        return
    iff = raises[0].parent
    t = iff.test if isinstance(iff, ast.If) else None
    ok_cmp = isinstance(t, ast.Compare) and isinstance(t.ops[0], ast.NotEq) and val in names_in(t)
    rep.decide(ok_cmp, 'non-constant column', raises[0], 'raises when the stored value differs from the new one', 'the verifier does not raise exactly when the new value differs from the stored one (`{}`)'.format(node_text(t)))
    rep.decide('output_index + 1' in node_text(raises[0], 600), 'column number', raises[0], 'message cites the 1-based output column', 'message does not cite the 1-based output column')
    # absence must be tested by membership, not by comparing a storable value with a sentinel (python)
    if port == 'py':
        sentinel = [n for n in walk_no_nested(inc) if isinstance(n, ast.Compare) and is_none(n.comparators[0]) and isinstance(n.left, ast.Name)]
        getcalls = [n for n in walk_no_nested(inc) if isinstance(n, ast.Call) and isinstance(n.func, ast.Attribute) and n.func.attr == 'get' and dotted(n.func.value) == 'self.const_values']
        member = [n for n in walk_no_nested(inc) if isinstance(n, ast.Compare) and isinstance(n.ops[0], (ast.In, ast.NotIn)) and dotted(n.comparators[0]) == 'self.const_values']
        if getcalls and sentinel and not member:
            rep.violated('absence test', sentinel[0], 'absence of a stored value is tested with `.get(key) is None`: a group whose first value is None is never verified, so a non-constant column passes')
        elif member:
            rep.holds('absence test', member[0], 'absence tested by membership')
        else:
            rep.undecided('absence test', inc, 'absence test not recognised')
    else:
        und = [n for n in walk_no_nested(inc) if isinstance(n, ast.Compare) and is_none(n.comparators[0]) and isinstance(n.ops[0], ast.Is)]
        rep.decide(bool(und), 'absence test', und[0] if und else inc, 'Map.get() === undefined (undefined is never stored: missing fields are null)', 'absence test not recognised')
    stores = [n for n in walk_no_nested(inc) if (isinstance(n, ast.Assign) and isinstance(n.targets[0], ast.Subscript) and dotted(n.targets[0].value) == 'self.const_values') or (isinstance(n, ast.Call) and isinstance(n.func, ast.Attribute) and n.func.attr == 'set' and dotted(n.func.value) == 'self.const_values')]
    rep.decide(len(stores) == 1, 'first value', stores[0] if stores else inc, 'the first value of a group is stored once', 'the verifier stores values {} times (must keep the first value of each group)'.format(len(stores)))


def rule_ag_sib(cx, rep, port):
    """Min/Max aggregators differ only in min <-> max"""
    p = cx.port(port)
    mod = cx.engine_mod(port)
    a, b = p.cls(mod, 'MinAggregator'), p.cls(mod, 'MaxAggregator')
    from ..snippet import alpha_equal, _copy_tree
    ta = ast.dump(ast.Module(body=a.body, type_ignores=[]))
    tb = ast.dump(ast.Module(body=b.body, type_ignores=[]))
    uses_min = "'min'" in ta and "'max'" not in ta
    uses_max = "'max'" in tb and "'min'" not in tb
    if not uses_min:
        rep.violated('MinAggregator', a, 'MinAggregator does not combine values with min (only)')
        return
    if not uses_max:
        rep.violated('MaxAggregator', b, 'MaxAggregator does not combine values with max (only)')
        return
    ma = {m.name: m for m in a.body if isinstance(m, ast.FunctionDef)}
    mb = {m.name: m for m in b.body if isinstance(m, ast.FunctionDef)}
    diff = [n for n in set(ma) | set(mb) if n not in ma or n not in mb]
    for n in sorted(set(ma) & set(mb)):
        twin = _copy_tree(mb[n])
        for x in ast.walk(twin):
            if isinstance(x, ast.Name) and x.id == 'max':
                x.id = 'min'
            if isinstance(x, ast.Attribute) and x.attr == 'max':
                x.attr = 'min'
        ast.fix_missing_locations(twin)
        if not alpha_equal(ma[n], ast.unparse(twin)):
            diff.append(n)
    if diff:
        rep.violated('Min/Max siblings', b, 'MinAggregator and MaxAggregator differ in more than min <-> max (methods {})'.format(sorted(diff)))
    else:
        rep.holds('Min/Max siblings', a, 'identical up to min <-> max and local renaming')


def rule_ag_mad(cx, rep, port='py'):
    """lower-case max/min/sum dispatch: single str/int/float argument -> aggregate; otherwise the builtin"""
    p = cx.py
    car = p.func('rbql_engine', 'compile_and_run')
    consts = p.module_consts('rbql_engine')
    for name, agg, builtin in (('mad_max', 'MAX', 'max'), ('mad_min', 'MIN', 'min'), ('mad_sum', 'SUM', 'sum')):
        fd = [s for s in car.body if isinstance(s, ast.FunctionDef) and s.name == name]
        if not fd:
            rep.undecided(name, car, 'dispatcher not found')
            continue
        fd = fd[0]
        calls = [c for c in walk_no_nested(fd) if isinstance(c, ast.Call) and isinstance(c.func, ast.Name)]
        aggs = {c.func.id for c in calls if c.func.id in ('MAX', 'MIN', 'SUM', 'AVG', 'COUNT')}
        blt = {c.func.id for c in calls if c.func.id in ('max', 'min', 'sum', 'builtin_max', 'builtin_min', 'builtin_sum')}
        if aggs != {agg}:
            rep.violated(name + ' aggregate', fd, '{} dispatches to {} instead of {}'.format(name, sorted(aggs), agg))
            continue
        if blt != {builtin} and blt != {'builtin_' + builtin}:
            rep.violated(name + ' builtin', fd, '{} falls back to {} instead of the builtin {}'.format(name, sorted(blt), builtin))
            continue
        bc = [c for c in calls if c.func.id in (builtin, 'builtin_' + builtin)][0]
        starred = any(isinstance(a, ast.Starred) for a in bc.args)
        rep.decide(starred, name + ' builtin call', bc, 'the builtin receives all positional arguments', 'the builtin is not called with the original arguments')
        if name != 'mad_sum':
            # type tests of the dispatcher itself and of the helper predicates it calls (nested in compile_and_run or at module level)
            scopes = [fd]
            for c in calls:
                h = [s_ for s_ in car.body if isinstance(s_, ast.FunctionDef) and s_.name == c.func.id and s_ is not fd] or ([p.func('rbql_engine', c.func.id, required=False)] if p.func('rbql_engine', c.func.id, required=False) is not None else [])
                scopes.extend(h)
            types = set()
            for sc_ in scopes:
                for c in walk_no_nested(sc_):
                    if isinstance(c, ast.Call) and dotted(c.func) == 'isinstance' and len(c.args) == 2:
                        t_ = c.args[1]
                        types |= {dotted(x) for x in (t_.elts if isinstance(t_, ast.Tuple) else [t_])}
            va, kw = (fd.args.vararg.arg if fd.args.vararg else 'args'), (fd.args.kwarg.arg if fd.args.kwarg else 'kwargs')
            txt = ' '.join(node_text(sc_, 4000).replace(' ', '') for sc_ in scopes)
            one_pos = 'len({})==1'.format(va) in txt or any('len({})==1'.format(a.arg) in txt for sc_ in scopes[1:] for a in sc_.args.args)
            no_kw = 'not{}'.format(kw) in txt or 'len({})==0'.format(kw) in txt or any('not{}'.format(a.arg) in txt for sc_ in scopes[1:] for a in sc_.args.args)
            rep.decide(one_pos and no_kw, name + ' single argument', fd, 'aggregate only for exactly one positional argument and no keywords', 'the "single argument" test changed: several arguments or keyword arguments would be treated as an aggregate')
            rep.decide({'str', 'int', 'float'} <= types, name + ' scalar types', fd, 'str/int/float single arguments are aggregated', 'scalar type tests are {} (need str, int, float)'.format(sorted(t for t in types if t)))
        # TypeError fallback: only for a single argument, otherwise re-raise
        hs = [h for h in ast.walk(fd) if isinstance(h, ast.ExceptHandler)]
        if not hs:
            # the dispatch may live in a helper shared by the wrappers (module level or nested in compile_and_run)
            for c in calls:
                h_ = [s_ for s_ in car.body if isinstance(s_, ast.FunctionDef) and s_.name == c.func.id and s_ is not fd] or ([p.func('rbql_engine', c.func.id, required=False)] if p.func('rbql_engine', c.func.id, required=False) is not None else [])
                for sc_ in h_:
                    hs += [h for h in ast.walk(sc_) if isinstance(h, ast.ExceptHandler)]
        okh = len(hs) == 1 and dotted(hs[0].type) == 'TypeError' and isinstance(hs[0].body[-1], ast.Raise) and hs[0].body[-1].exc is None
        # the same decision written the other way round: `if not single: raise` first, then the aggregate
        bare = [r for h in hs for r in ast.walk(h) if isinstance(r, ast.Raise) and r.exc is None]
        guarded_raise = len(hs) == 1 and dotted(hs[0].type) == 'TypeError' and len(bare) == 1 and isinstance(getattr(bare[0], 'parent', None), ast.If) and any(isinstance(x, ast.Return) for x in ast.walk(hs[0]))
        if okh or guarded_raise:
            rep.holds(name + ' fallback', hs[0], 'TypeError from the builtin: aggregate for one argument, otherwise re-raised')
        elif hs and not bare:
            rep.violated(name + ' fallback', hs[0], 'the TypeError fallback does not re-raise for non-single arguments')
        else:
            rep.undecided(name + ' fallback', hs[0] if hs else fd, 'how a TypeError of the builtin is handled was not recognised')
    # bindings in the skeleton: checked by SK-ALIAS (max = mad_max ...)


def rule_ag_starcount(cx, rep, port):
    p = cx.port(port)
    mod = cx.engine_mod(port)
    fd = p.func(mod, 'replace_star_count')
    subs = [c for c in walk_no_nested(fd) if isinstance(c, ast.Call) and ((dotted(c.func) == 're.sub') or (isinstance(c.func, ast.Attribute) and c.func.attr == 'replace'))]
    if len(subs) != 1:
        raise Undecided('replace_star_count: single substitution expected', fd)
    c = subs[0]
    if port == 'py':
        pat, repl = c.args[0], c.args[1]
        flags = [k.value for k in c.keywords if k.arg == 'flags']
        ic = bool(flags) and 'IGNORECASE' in node_text(flags[0])
        patv = pat.value if isinstance(pat, ast.Constant) else None
    else:
        rx = c.args[0]
        if isinstance(rx, ast.Name):
            d = [n for n in walk_no_nested(fd) if isinstance(n, ast.Assign) and is_name(n.targets[0], rx.id)]
            rx = d[0].value if d else rx
        patv = rx.args[0].value if isinstance(rx, ast.Call) and dotted(rx.func) == '__regex__' else None
        ic = isinstance(rx, ast.Call) and 'i' in rx.args[1].value and 'g' in rx.args[1].value
        repl = c.args[1]
    rep.decide(isinstance(repl, ast.Constant) and repl.value.strip() == 'COUNT(1)', 'replacement', c, 'COUNT(*) -> COUNT(1)', 'COUNT(*) is rewritten to `{}`'.format(node_text(repl)))
    rep.decide(ic, 'case', c, 'case-insensitive' + (' and global' if port == 'js' else ''), 'the COUNT(*) rewrite is not case-insensitive' + (' / global' if port == 'js' else ''))
    ok_pat = patv is not None and 'COUNT\\( *\\* *\\)' in patv
    rep.decide(ok_pat, 'pattern', c, 'matches COUNT( * ) with optional spaces', 'COUNT(*) pattern changed: `{}`'.format(patv))
    # applied by translate_select_expression before star expansion
    ts = p.func(mod, 'translate_select_expression')
    calls = [n for n in walk_no_nested(ts) if isinstance(n, ast.Call) and dotted(n.func) in ('replace_star_count', 'replace_star_vars')]
    order = [dotted(n.func) for n in sorted(calls, key=lambda n: (n.lineno, n.col_offset))]
    rep.decide(order[:1] == ['replace_star_count'] and 'replace_star_vars' in order, 'order', ts, 'COUNT(*) is rewritten before star expansion', 'COUNT(*) is not rewritten before the star items are expanded')


def rule_ag_keyord(cx, rep, port):
    """group keys are ordered by comparing key components (not their serialised text)"""
    p = cx.port(port)
    mod = cx.engine_mod(port)
    c = p.cls(mod, 'AggregateWriter')
    fin = [m for m in c.body if isinstance(m, ast.FunctionDef) and m.name == 'finish'][0]
    if port == 'py':
        s = [n for n in walk_no_nested(fin) if isinstance(n, ast.Call) and dotted(n.func) == 'sorted']
        if len(s) != 1:
            raise Undecided('AggregateWriter.finish: sorted() call expected', fin)
        kw = {k.arg for k in s[0].keywords}
        rep.decide(not kw, 'key order', s[0], 'keys are tuples of the GROUP BY values, ordered component-wise', 'group keys are sorted with {}: not plain ascending key order'.format(sorted(kw)))
        # key representation: tuple expression '({},)' in the parser
        sp = p.func(mod, 'shallow_parse_input_query')
        ke = [n for n in walk_no_nested(sp) if isinstance(n, ast.Assign) and (dotted(n.targets[0]) or '').endswith('aggregation_key_expression')]
        ok = len(ke) == 1 and isinstance(ke[0].value, ast.Call) and isinstance(ke[0].value.func, ast.Attribute) and isinstance(ke[0].value.func.value, ast.Constant) and ke[0].value.func.value.value == '({},)'
        rep.decide(ok, 'key representation', ke[0] if ke else sp, 'the group key is a tuple of the GROUP BY expressions', 'the group key is not built as a tuple of the GROUP BY expressions')
    else:
        s = [n for n in walk_no_nested(fin) if isinstance(n, ast.Call) and isinstance(n.func, ast.Attribute) and n.func.attr == 'sort']
        if len(s) != 1:
            raise Undecided('AggregateWriter.finish: sort() call expected', fin)
        if not s[0].args:
            rep.violated('key order', s[0], 'group keys are sorted as JSON text: "a b" sorts before "a", 10 before 9')
            return
        cmpf = s[0].args[0]
        cfd = p.func(mod, dotted(cmpf), required=False) if dotted(cmpf) else getattr(cmpf, 'js_function_ref', None)
        if cfd is None:
            rep.undecided('key order', s[0], 'comparator not resolved')
            return
        parses = [c2 for c2 in ast.walk(cfd) if isinstance(c2, ast.Call) and dotted(c2.func) == 'JSON.parse']
        cmp_elems = [n for n in ast.walk(cfd) if isinstance(n, ast.Compare) and isinstance(n.left, ast.Subscript) and isinstance(n.ops[0], ast.Lt)]
        rep.decide(len(parses) >= 2 and bool(cmp_elems), 'key order', cfd, 'comparator parses the keys and compares their components', 'the comparator does not compare the parsed key components')
        # the Map key of a group is an injective encoding of the GROUP BY values: JSON text of the whole key array on every path
        # (a raw value for "simple" keys collides with the JSON text of another key and cannot be told apart when restored)
        sa_fd = p.func(mod, 'select_aggregated')
        kparam = sa_fd.args.args[-2].arg
        rebinds = [n for n in walk_no_nested(sa_fd) if isinstance(n, ast.Assign) and len(n.targets) == 1 and is_name(n.targets[0], kparam)]

        def json_of_key(e):
            return isinstance(e, ast.Call) and dotted(e.func) == 'JSON.stringify' and len(e.args) == 1 and is_name(e.args[0], kparam)
        if not rebinds and cx.__dict__.get('_ag_key_raw', {}).get(port) is None:
            try:
                from ..core import Report as _R
                _ag_stage_model(cx, _R('tmp', 'quick'), port, p, mod, sa_fd)
            except Exception:
                pass
        if not rebinds and cx.__dict__.get('_ag_key_raw', {}).get(port) is not None:
            rawk = cx.__dict__['_ag_key_raw'][port]
            rep.decide(not rawk, 'key encoding', sa_fd, 'the aggregators and the key set receive JSON.stringify(key) (abstract run of select_aggregated)', 'a group key reaches the aggregators / the key set as it is, not as the JSON text of the whole key array: the raw value of one group collides with the JSON text of another and cannot be told apart when the keys are restored for sorting')
        elif not rebinds:
            rep.undecided('key encoding', sa_fd, 'serialisation of the group key not found in select_aggregated')
        else:
            bad_enc = None
            for n in rebinds:
                alts = [n.value.body, n.value.orelse] if isinstance(n.value, ast.IfExp) else [n.value]
                for a_ in alts:
                    if not json_of_key(a_):
                        bad_enc = (n, a_)
            if bad_enc is not None:
                rep.violated('key encoding', bad_enc[0], 'on some path the group key becomes `{}` instead of the JSON text of the whole key: the encoding is no longer injective (a raw value can equal the JSON text of another key, and the comparator cannot tell which it was)'.format(node_text(bad_enc[1], 40)))
                return
            rep.holds('key encoding', rebinds[0], 'the group key is JSON.stringify(key) wherever it is rebound')
        # the reference orders strings by code point: a collation-aware comparison (localeCompare, Intl.Collator) interleaves
        # upper / lower case and reorders punctuation and non-ASCII letters, so rows come out in another order (and TOP keeps others)
        coll = [c2 for c2 in ast.walk(cfd) if isinstance(c2, ast.Call) and ((isinstance(c2.func, ast.Attribute) and c2.func.attr in ('localeCompare', 'compare') ) or (dotted(c2.func) or '').endswith('Collator'))]
        if coll:
            rep.violated('key collation', coll[0], 'group keys are compared with `{}`: locale collation is not the code-point order of the reference ("B" < "a" there), so groups are emitted in a different order'.format(node_text(coll[0], 60)))
            return
        desc = [n for n in ast.walk(cfd) if isinstance(n, ast.IfExp) and isinstance(n.body, ast.Constant) and isinstance(n.orelse, ast.Constant)]
        rep.decide(bool(desc) and all(d.body.value == -1 and d.orelse.value == 1 for d in desc), 'key direction', cfd, 'ascending', 'group keys are not in ascending order')


# ------------------------------------------------------------------------------------------------ joins
def rule_jn_dispatch(cx, rep, port):
    p = cx.port(port)
    mod = cx.engine_mod(port)
    sp = p.func(mod, 'shallow_parse_input_query')
    consts = p.module_consts(mod)
    got, d = _joiner_mapping(p, mod, sp, consts)
    want = {'JOIN': 'InnerJoiner', 'INNER JOIN': 'InnerJoiner', 'LEFT JOIN': 'LeftJoiner', 'LEFT OUTER JOIN': 'LeftJoiner', 'STRICT LEFT JOIN': 'StrictLeftJoiner'}
    if got == want:
        rep.holds('joiner table', d, 'JOIN/INNER -> Inner, LEFT/LEFT OUTER -> Left, STRICT LEFT -> StrictLeft')
    else:
        diff = {k: (got.get(k), want.get(k)) for k in set(got) | set(want) if got.get(k) != want.get(k)}
        rep.violated('joiner table', d, 'join keyword -> joiner mapping differs (got, expected): {}'.format(diff))
    # totality over the join statement group
    groups = _statement_groups(cx, port)
    jg = [g for g in groups if 'JOIN' in g]
    rep.decide(len(jg) == 1 and set(jg[0]) == set(got), 'joiner table total', d, 'dispatch table covers exactly the join statement group', 'the join statement group {} and the dispatch table keys {} differ'.format(jg[0] if jg else None, sorted(got)))
    # build() precedes joiner construction; joiner receives the built map
    seq = []
    joiner_names_ = {c.name for c in roles.joiners(p, mod)}
    for n in walk_no_nested(sp):
        if isinstance(n, ast.Call):
            nm = call_name(n) or ''
            if nm.endswith('join_map_impl.build'):
                seq.append(('build', n.pos))
            if nm in ('joiner_type', 'sql_join_type'):
                seq.append(('construct', n.pos))
            if nm == 'HashJoinMap':
                seq.append(('map', n.pos))
    if not any(k == 'construct' for k, _ in seq):
        # the joiner classes are named at the place of construction (if-chain / conditional expression): the statement that stores the joiner
        st_ = [n for n in walk_no_nested(sp) if isinstance(n, ast.Assign) and (dotted(n.targets[0]) or '').endswith('.join_map') and any(isinstance(x, ast.Call) and dotted(x.func) in joiner_names_ for x in ast.walk(n.value))]
        if st_:
            seq.append(('construct', min(x.pos for x in st_)))
    order = [s[0] for s in sorted(seq, key=lambda s: s[1])]
    rep.decide(order == ['map', 'build', 'construct'], 'build before joiner', sp, 'HashJoinMap -> build() -> joiner (the LEFT JOIN null record needs the final width)', 'join map construction order is {} (must be map, build, construct): LeftJoiner would see max_record_len = 0'.format(order))


def _joiner_mapping(p, mod, sp, consts):
    """keyword -> joiner class name, resolved through: dict literal subscript, module-level dict, and `.get(key, default)`"""
    def dict_of(e):
        if isinstance(e, ast.Dict):
            return e
        if isinstance(e, ast.Name):
            for st in p.modules[mod].body:
                if isinstance(st, ast.Assign) and isinstance(st.targets[0], ast.Name) and st.targets[0].id == e.id and isinstance(st.value, ast.Dict):
                    return st.value
            for st in walk_no_nested(sp):
                if isinstance(st, ast.Assign) and isinstance(st.targets[0], ast.Name) and st.targets[0].id == e.id and isinstance(st.value, ast.Dict):
                    return st.value
        return None
    cands = []
    for n in walk_no_nested(sp):
        if isinstance(n, ast.Subscript) and 'join_subtype' in node_text(n.slice) and dict_of(n.value) is not None:
            cands.append((dict_of(n.value), None, n))
        if isinstance(n, ast.Call) and isinstance(n.func, ast.Attribute) and n.func.attr == 'get' and n.args and 'join_subtype' in node_text(n.args[0]) and dict_of(n.func.value) is not None:
            cands.append((dict_of(n.func.value), n.args[1] if len(n.args) > 1 else ast.Constant(value=None), n))
    if not cands:
        # dispatch written as an if-chain on the join subtype (possibly in a helper, inlined): the class constructed under each spelling
        joiner_names = {c.name for c in roles.joiners(p, mod)}
        def leaves(e, conds):
            if isinstance(e, ast.IfExp):
                return leaves(e.body, conds + [(e.test, True)]) + leaves(e.orelse, conds + [(e.test, False)])
            return [(e, conds)]
        assigns = []
        for n in walk_no_nested(sp):
            if isinstance(n, ast.Assign) and (dotted(n.targets[0]) or '').endswith('.join_map'):
                lv = leaves(n.value, [])
                if all(isinstance(e_, ast.Call) and dotted(e_.func) in joiner_names for e_, _ in lv):
                    assigns.extend((n, e_, c_) for e_, c_ in lv)

        def test_value(t, kw):
            if isinstance(t, ast.Compare) and len(t.ops) == 1 and isinstance(t.ops[0], (ast.Eq, ast.NotEq, ast.In, ast.NotIn)) and 'join_subtype' in node_text(t.left, 200):
                cv = const_value(t.comparators[0], consts)
                if cv is not NOCONST:
                    tv = (kw == cv) if isinstance(t.ops[0], (ast.Eq, ast.NotEq)) else (kw in cv if isinstance(cv, (list, tuple, set)) else None)
                    if tv is not None and isinstance(t.ops[0], (ast.NotEq, ast.NotIn)):
                        tv = not tv
                    return tv
            return None
        if assigns:
            got = {}
            for kw in ('JOIN', 'INNER JOIN', 'LEFT JOIN', 'LEFT OUTER JOIN', 'STRICT LEFT JOIN'):
                chosen = []
                for a_stmt, a_call, a_conds in assigns:
                    ok_ = True
                    for t, pol in a_conds:
                        tv = test_value(t, kw)
                        if tv is None:
                            raise Undecided('joiner dispatch: test `{}` not evaluable'.format(node_text(t, 60)), a_stmt)
                        if tv != pol:
                            ok_ = False
                    a = a_stmt
                    child, par = a, getattr(a, 'parent', None)
                    while par is not None and par is not sp and ok_:
                        if isinstance(par, ast.If):
                            in_body = any(child is x for x in par.body)
                            t = par.test
                            tv = test_value(t, kw)
                            if 'join_subtype' in node_text(t, 200):
                                if tv is None:
                                    raise Undecided('joiner dispatch: test `{}` not evaluable'.format(node_text(t, 60)), par)
                                if tv != in_body:
                                    ok_ = False
                        child, par = par, getattr(par, 'parent', None)
                    if ok_:
                        chosen.append(dotted(a_call.func))
                # the first statement reached wins when several are unconditional among the rest (early returns were inlined as if/else)
                got[kw] = chosen[0] if chosen else None
            return got, assigns[0][0]
    if len(cands) != 1:
        raise Undecided('joiner dispatch table not found', sp)
    d, default, node = cands[0]
    got = {}
    for k, v in zip(d.keys, d.values):
        got[const_value(k, consts)] = dotted(v)
    if default is not None:
        for kw in ('JOIN', 'INNER JOIN', 'LEFT JOIN', 'LEFT OUTER JOIN', 'STRICT LEFT JOIN'):
            got.setdefault(kw, dotted(default) if not (isinstance(default, ast.Constant) and default.value is None) else None)
    return got, node


def _statement_groups(cx, port):
    """the groups of mutually exclusive statement keywords that locate_statements iterates: a list of lists of keyword strings,
    written as a module-level constant, as a list display, or accumulated by append/push calls (whatever its name)"""
    p = cx.port(port)
    mod = cx.engine_mod(port)
    consts = p.module_consts(mod)

    def is_groups(v):
        return isinstance(v, (list, tuple)) and len(v) >= 5 and all(isinstance(g, (list, tuple)) and g and all(isinstance(x, str) for x in g) for g in v) and any('JOIN' in g for g in v)
    cands = []
    for st in p.modules[mod].body:
        if isinstance(st, ast.Assign):
            v = const_value(st.value, consts)
            if v is not NOCONST and is_groups(v):
                cands.append([list(g) for g in v])
    fd = p.func(mod, 'locate_statements', required=False)
    if fd is not None:
        for n in walk_no_nested(fd):
            if isinstance(n, (ast.List, ast.Tuple)):
                v = const_value(n, consts)
                if v is not NOCONST and is_groups(v):
                    cands.append([list(g) for g in v])
        acc = {}
        for c in walk_no_nested(fd):
            if isinstance(c, ast.Call) and isinstance(c.func, ast.Attribute) and c.func.attr in ('push', 'append') and isinstance(c.func.value, ast.Name) and len(c.args) == 1:
                v = const_value(c.args[0], consts)
                if v is not NOCONST and isinstance(v, (list, tuple)) and v and all(isinstance(x, str) for x in v):
                    acc.setdefault(c.func.value.id, []).append(list(v))
        for v in acc.values():
            if is_groups(v):
                cands.append(v)
    return cands[0] if cands else []


def _left_null_model(cx, rep, port, p, mod, left, init):
    """LeftJoiner's constructor run on an abstract join map whose widest record has 3 (and 0) fields: what it stores as null_record must be
    one match triple (no record number, that width, that many missing values).  None when the constructor cannot be evaluated."""
    from .. import absexec as AX
    hm = p.cls(mod, 'HashJoinMap', required=False)
    hms = roles.methods(hm) if hm is not None else {}
    verdict = True
    for width in (3, 0):
        selfv, jm = AX.Abs('Self'), AX.Abs('JoinMap')

        def on_attr(ex, node, obj, attr, width=width):
            if obj is jm and attr == 'max_record_len':
                return width
            return AX.NOT_HANDLED

        def on_call(ex, node, fname, recv, args):
            short = node.func.attr if isinstance(node.func, ast.Attribute) else fname
            if recv is jm and short in hms and short not in ('build', 'get_join_records'):
                return ex.call_fd(hms[short], [jm] + list(args))
            return AX.NOT_HANDLED
        ex = AX.Explorer(p, mod, on_call=on_call, on_attr=on_attr, max_choices=1)
        ex.cls = 'LeftJoiner'
        ex._script, ex._pos, ex.steps, ex.depth = [], 0, 0, 0
        ex.run = AX.Run()
        extra = [[AX.Abs('Name', id='H%d' % i_) for i_ in range(5)] for _ in init.args.args[2:]]     # any further parameter: a header of 5 names
        try:
            ex.call_fd(init, [selfv, jm] + extra)
        except (Undecided, AX.Cut, AX._NeedChoice, AX.Raised, KeyError, IndexError, TypeError):
            return None
        nr_ = ex.run.state.get((selfv.uid, 'null_record'))
        if not (isinstance(nr_, (list, tuple)) and len(nr_) == 1 and isinstance(nr_[0], (list, tuple)) and len(nr_[0]) == 3):
            if nr_ is None:
                return None
            verdict = False
            continue
        a, b, c_ = nr_[0]
        if not (a is None and b == width and isinstance(c_, list) and len(c_) == width and all(x is None for x in c_)):
            verdict = False
    return verdict


def _joiner_model(cx, port, p, mod, cls):
    """get_rhs(key) of one joiner class run on an abstract join map whose lookup answers with 0, 1 or 2 matches:
    {n: outcome} with outcome in 'matches' (the list the map returned, unchanged) / 'null' (what the constructor stored as null_record) /
    'raise:runtime' / 'raise:other' / '?' ; plus whether every lookup used the key argument.  None when the method cannot be evaluated."""
    from .. import absexec as AX
    ms = roles.methods(cls)
    g = ms.get('get_rhs')
    if g is None:
        return None
    res, key_ok = {}, True
    for n_ in (0, 1, 2):
        selfv, jm, key = AX.Abs('Self'), AX.Abs('JoinMap'), AX.Abs('Key', distinct=True)
        nullrec = [AX.Abs('NullRecord')]
        matches = [AX.Abs('Match%d' % i) for i in range(n_)]
        looked = []

        def on_attr(ex, node, obj, attr):
            if obj is selfv and attr == 'join_map':
                return jm
            if obj is selfv and attr == 'null_record':
                return nullrec
            return AX.NOT_HANDLED

        def on_call(ex, node, fname, recv, args):
            short = node.func.attr if isinstance(node.func, ast.Attribute) else fname
            if recv is jm and short == 'get_join_records':
                looked.append(len(args) == 1 and args[0] is key)
                return matches
            if isinstance(node.func, ast.Name) and node.func.id.endswith('Error'):
                return AX.Abs('Exc', cls=node.func.id)
            if short == 'format' and isinstance(recv, str):
                return AX.Abs('Text')
            return AX.NOT_HANDLED
        ex = AX.Explorer(p, mod, on_call=on_call, on_attr=on_attr, max_choices=1)
        try:
            runs, cut = ex.explore(g, [selfv, key], cls=cls.name)
        except (Undecided, KeyError, IndexError, TypeError, AttributeError):
            return None
        if cut or len(runs) != 1:
            return None
        kind, val, _node = runs[0].outcome
        if not looked or not all(looked):
            key_ok = False
        if kind == 'raise':
            res[n_] = 'raise:' + ('runtime' if isinstance(val, AX.Abs) and val.props.get('cls') == 'RbqlRuntimeError' else 'other')
        elif len(matches) != n_:
            res[n_] = 'mutated'
        elif val is matches:
            res[n_] = 'matches' if len(matches) == n_ and all(isinstance(x, AX.Abs) and x.kind == 'Match%d' % i for i, x in enumerate(matches)) else '?'
        elif val is nullrec:
            res[n_] = 'null'
        else:
            res[n_] = '?'
    return res, key_ok


def rule_jn_joiners(cx, rep, port):
    p = cx.port(port)
    mod = cx.engine_mod(port)
    js = roles.joiners(p, mod)
    rep.require_count('joiner classes', len(js), 3, (p.files[mod], 0))
    modelled = {}
    for c in js:
        ms = roles.methods(c)
        g = ms['get_rhs']
        modelled[c.name] = _joiner_model(cx, port, p, mod, c)
        if modelled[c.name] is not None and 'mutated' in modelled[c.name][0].values():
            k_ = [n_ for n_, v_ in modelled[c.name][0].items() if v_ == 'mutated'][0]
            rep.violated(c.name + ' lookup', g, '{}.get_rhs changes the list of matches that the join map returned (lookup with {} match(es)): that list belongs to the map - or is a shared empty list - so later lookups, of this query or the next, see the added elements'.format(c.name, k_))
            modelled[c.name] = None
            continue
        if modelled[c.name] is not None and '?' not in modelled[c.name][0].values():
            rep.decide(modelled[c.name][1], c.name + ' lookup', g, 'looks the key up in the join map (method evaluated on an abstract map with 0 / 1 / 2 matches)', '{}.get_rhs does not look up its key argument in the join map'.format(c.name))
            continue
        calls = [x for x in walk_no_nested(g) if isinstance(x, ast.Call) and call_name(x) == 'self.join_map.get_join_records']
        with rep.as_fallback('get_rhs is outside the abstract interpreter'):
            rep.decide(len(calls) == 1 and is_name(calls[0].args[0], g.args.args[1].arg), c.name + ' lookup', g, 'looks the key up in the join map', '{}.get_rhs does not look up its key argument in the join map'.format(c.name))
    from .. import pathsem
    from ..snippet import inline_single_defs
    left = p.cls(mod, 'LeftJoiner')
    init = roles.methods(left)['__init__']
    jm = init.args.args[1].arg if len(init.args.args) > 1 else 'join_map'
    nr = [n for n in walk_no_nested(init) if isinstance(n, ast.Assign) and dotted(n.targets[0]) == 'self.null_record']
    ok = False
    if len(nr) == 1:
        v = inline_single_defs(nr[0].value, init, depth=3, any_value=True)
        if isinstance(v, ast.List) and len(v.elts) == 1 and isinstance(v.elts[0], (ast.Tuple, ast.List)) and len(v.elts[0].elts) == 3:
            a, b, c_ = v.elts[0].elts
            width = '{}.max_record_len'.format(jm)
            txt = node_text(c_, 200)
            ok = is_none(a) and dotted(b) in (width, 'self.join_map.max_record_len') and (width in txt or 'self.join_map.max_record_len' in txt) and ('[None] *' in txt or 'fill(None)' in txt)
    modelled_null = _left_null_model(cx, rep, port, p, mod, left, init)
    if modelled_null is not None:
        ok = modelled_null
    rep.decide(ok, 'LeftJoiner null record', nr[0] if nr else init, 'one match (None, max_record_len, [None]*max_record_len)', 'the LEFT JOIN null record is not a single (None, width, width x None) triple built from the widest B record')

    def lookup(e):
        return isinstance(e, ast.Call) and call_name(e) == 'self.join_map.get_join_records'

    def count_cmp(atom):
        """(op, k) when the atom compares the number of matches with the constant k"""
        if isinstance(atom, ast.Compare) and len(atom.ops) == 1 and isinstance(atom.left, ast.Call) and dotted(atom.left.func) == 'len' and atom.left.args and lookup(atom.left.args[0]) and isinstance(atom.comparators[0], ast.Constant) and isinstance(atom.comparators[0].value, int):
            return type(atom.ops[0]), atom.comparators[0].value
        return None

    def holds_for(op, k, n_):
        return {ast.Eq: n_ == k, ast.NotEq: n_ != k, ast.Gt: n_ > k, ast.GtE: n_ >= k, ast.Lt: n_ < k, ast.LtE: n_ <= k}.get(op)

    def outcomes(g_):
        """for 0, 1, 2 matches: what get_rhs does ('null' / 'matches' / 'raise' / '?')"""
        ps_ = pathsem.paths(g_)
        if ps_ is None:
            return None
        res = {}
        for n_ in (0, 1, 2):
            got = set()
            for q in ps_:
                feasible = True
                for atom, pol in pathsem.atoms(q.conds):
                    cc = count_cmp(atom)
                    if cc is None:
                        if isinstance(atom, ast.UnaryOp) or lookup(atom) or (isinstance(atom, ast.Call) and dotted(atom.func) == 'len' and atom.args and lookup(atom.args[0])):
                            # truthiness of the match list / of its length
                            truth = n_ > 0
                            if truth != pol:
                                feasible = False
                            continue
                        return None
                    hv = holds_for(cc[0], cc[1], n_)
                    if hv is None:
                        return None
                    if hv != pol:
                        feasible = False
                if not feasible:
                    continue
                if q.kind == 'raise':
                    got.add('raise:' + ('runtime' if q.value is not None and 'RbqlRuntimeError' in node_text(q.value, 200) else 'other'))
                elif q.kind == 'return' and q.value is not None and dotted(q.value) == 'self.null_record':
                    got.add('null')
                elif q.kind == 'return' and q.value is not None and lookup(q.value):
                    got.add('matches')
                else:
                    got.add('?')
            res[n_] = got
        return res
    for cname, want, good, bad in (
            ('LeftJoiner', {0: {'null'}, 1: {'matches'}, 2: {'matches'}}, 'no match -> the null record; otherwise the matches', 'LEFT JOIN does not return the null record exactly when there is no match'),
            ('StrictLeftJoiner', {0: {'raise:runtime'}, 1: {'matches'}, 2: {'raise:runtime'}}, '!= 1 match raises the runtime error', 'STRICT LEFT JOIN does not fail exactly when the number of matches differs from 1'),
            ('InnerJoiner', {0: {'matches'}, 1: {'matches'}, 2: {'matches'}}, 'returns the matches as they are', 'INNER JOIN post-processes its matches')):
        g = roles.methods(p.cls(mod, cname))['get_rhs']
        key = cname if cname != 'LeftJoiner' else 'LeftJoiner empty'
        mm = modelled.get(cname)
        if mm is not None and '?' not in mm[0].values():
            oc = {n_: {v} for n_, v in mm[0].items()}
            rep.decide(oc == want, key, g, good + ' (method evaluated with 0 / 1 / 2 matches)', bad + ' (0 / 1 / 2 matches -> {})'.format([sorted(oc[n_]) for n_ in (0, 1, 2)]))
            continue
        oc = outcomes(g)
        if oc is None or any('?' in v for v in oc.values()):
            rep.undecided(key, g, 'what {}.get_rhs does for 0 / 1 / 2 matches is not recognised ({})'.format(cname, oc))
        else:
            rep.decide(oc == want, key, g, good, bad + ' (0 / 1 / 2 matches -> {})'.format([sorted(oc[n_]) for n_ in (0, 1, 2)]))


def _jn_key_dispatch(cx, rep, port, p, mod, ms):
    """which key function the constructor selects, end to end: the constructor is run on abstract key-index lists, then whatever it stored
    as `polymorphic_get_key` is applied to a B record of three fields; the key must list, in the order of the ON clause, the record
    number for index -1 and the field for any other index (runtime error when the record is too short)"""
    from .. import absexec as AX
    init = ms.get('__init__') or ms.get('init')
    if init is None:
        return
    cases = [([-1], 'NR'), ([0], 'F0'), ([2], 'F2'), ([3], 'ERR'), ([0, 1], ['F0', 'F1']), ([1, 0], ['F1', 'F0']), ([2, 1], ['F2', 'F1']), ([0, 2], ['F0', 'F2']), ([-1, 1], ['NR', 'F1']),
             ([1, -1], ['F1', 'NR']), ([0, 1, 2], ['F0', 'F1', 'F2']), ([2, 0, 1], ['F2', 'F0', 'F1']), ([1, 3], 'ERR'), ([3, 2], 'ERR')]
    bad, und = [], []
    for idx, want in cases:
        selfv = AX.Abs('Self')
        toks = {k: AX.Abs(k) for k in ('NR', 'F0', 'F1', 'F2')}
        fields = [toks['F0'], toks['F1'], toks['F2']]

        def on_call(ex, node, fname, recv, args):
            short = node.func.attr if isinstance(node.func, ast.Attribute) else fname.split('.')[-1]
            if short.endswith('Error'):
                return AX.Abs(short)
            if fname == 'JSON.stringify' and len(args) == 1 and isinstance(args[0], (list, tuple)):
                return AX.Abs('Json', items=tuple(args[0]))
            if recv is None and short in ('defaultdict', 'Map', 'dict', 'OrderedDict'):
                return {}
            if fname in ('operator.itemgetter', 'itemgetter'):
                raise Undecided('itemgetter is outside the model', node)
            return AX.NOT_HANDLED
        ex = AX.Explorer(p, mod, on_call=on_call, max_choices=1)
        ex.cls = 'HashJoinMap'
        ex._script, ex._pos, ex.steps, ex.depth = [], 0, 0, 0
        ex.run = AX.Run()
        try:
            ex.call_fd(init, [selfv, AX.Abs('Iterator'), list(idx)])
            sel = ex.run.state.get((selfv.uid, 'polymorphic_get_key'))
            if not (isinstance(sel, tuple) and len(sel) == 3 and sel[0] == 'method' and sel[1] is selfv and sel[2] in ms):
                und.append('what the constructor stores as polymorphic_get_key was not recognised')
                continue
            ex.run.state[(selfv.uid, 'nr')] = toks['NR']
            kf = ms[sel[2]]
            args = []
            for prm in [a.arg for a in kf.args.args]:
                args.append(selfv if prm in ('self', 'this') else (toks['NR'] if prm == 'nr' else list(fields)))
            try:
                val = ex.call_fd(kf, args)
                kind = 'return'
            except AX.Raised as r:
                kind, val = 'raise', r.value
        except (Undecided, AX.Cut, AX._NeedChoice) as e_:
            und.append(str(e_))
            continue
        except AX.Raised as r:
            bad.append('the constructor raises {} for key indices {}'.format(getattr(r.value, 'kind', r.value), idx))
            continue
        show = lambda v: getattr(v, 'kind', repr(v))  # noqa: E731
        if want == 'ERR':
            if not (kind == 'raise' and isinstance(val, AX.Abs) and val.kind == 'RbqlRuntimeError'):
                bad.append('key indices {} on a B record of 3 fields: {} instead of the runtime error'.format(idx, 'raises ' + show(val) if kind == 'raise' else 'the key is ' + show(val)))
            continue
        if kind == 'raise':
            bad.append('key indices {} on a B record of 3 fields raise {}'.format(idx, show(val)))
            continue
        if isinstance(want, list):
            items = list(val) if isinstance(val, (list, tuple)) else (list(val.props['items']) if isinstance(val, AX.Abs) and val.kind == 'Json' else None)
            if items is None:
                und.append('composite key value {!r} not recognised'.format(val))
                continue
            if not (len(items) == len(want) and all(a is toks[w] for a, w in zip(items, want))):
                bad.append('key indices {} give the B key ({}) instead of ({}): the A side lists its key values in the order of the ON clause, so equal keys no longer meet'.format(idx, ', '.join(show(x) for x in items), ', '.join(want)))
        elif val is not toks[want]:
            bad.append('key index {} gives the B key {} instead of {}'.format(idx[0], show(val), want))
    if und and not bad:
        rep.undecided('key dispatch', init, und[0])
        return False
    else:
        rep.decide(not bad, 'key dispatch', init, 'the key function chosen by the constructor yields, for every tried list of key indices, the record number / fields in ON-clause order ({} index lists)'.format(len(cases)), '; '.join(bad[:2]))
    return not bad


def _jn_key_functions(cx, rep, port, p, mod, ms):
    from .. import absexec as AX
    for mname in ('get_single_key', 'get_multi_key'):
        m = ms.get(mname)
        if m is None:
            rep.undecided(mname + ' NR key', ms['build'], 'key function {} not found'.format(mname))
            continue
        params = [a.arg for a in m.args.args]
        cases = [(-1, 'NR'), (0, 'F0'), (1, 'F1'), (2, 'ERR'), (5, 'ERR')] if mname == 'get_single_key' else [([-1, 1], ['NR', 'F1']), ([1, 0], ['F1', 'F0']), ([0, 2], 'ERR'), ([-1, -1], ['NR', 'NR']), ([3, 0], 'ERR')]
        bad_nr, bad_missing, bad_other, und = [], [], [], []
        for idx, want in cases:
            selfv = AX.Abs('Self')
            toks = {'NR': AX.Abs('NR'), 'F0': AX.Abs('F0'), 'F1': AX.Abs('F1')}
            fields = [toks['F0'], toks['F1']]

            def on_attr(ex, node, obj, attr, idx=idx, toks=toks):
                if obj is selfv and attr == 'nr':
                    return toks['NR']
                if obj is selfv and attr == 'key_index' and not isinstance(idx, list):
                    return idx
                if obj is selfv and attr == 'key_indices' and isinstance(idx, list):
                    return list(idx)
                return AX.NOT_HANDLED

            def on_call(ex, node, fname, recv, args):
                if fname.split('.')[-1].endswith('Error') and recv is None or (fname.endswith('Error')):
                    return AX.Abs(fname.split('.')[-1])
                if fname == 'JSON.stringify' and len(args) == 1 and isinstance(args[0], list):
                    return AX.Abs('Json', items=tuple(args[0]))
                return AX.NOT_HANDLED
            ex = AX.Explorer(p, mod, on_call=on_call, on_attr=on_attr, max_choices=2)
            # parameters: (self,) [nr,] fields
            args = []
            for prm in params:
                if prm in ('self', 'this'):
                    args.append(selfv)
                elif prm == 'nr':
                    args.append(toks['NR'])
                else:
                    args.append(list(fields))
            try:
                runs, cut = ex.explore(m, args, cls='HashJoinMap')
            except Undecided as e_:
                und.append(str(e_))
                continue
            if len(runs) != 1:
                und.append('{} outcomes for key index {}'.format(len(runs), idx))
                continue
            kind, val, node = runs[0].outcome
            if want == 'ERR':
                if not (kind == 'raise' and isinstance(val, AX.Abs) and val.kind == 'RbqlRuntimeError'):
                    bad_missing.append('for key index {} and a B record of 2 fields the outcome is {} {!r}'.format(idx, kind, val))
                continue
            if kind != 'return':
                bad_other.append('for key index {} and a B record of 2 fields an error is raised'.format(idx))
                continue
            if isinstance(want, list):
                items = list(val) if isinstance(val, (list, tuple)) else (list(val.props['items']) if isinstance(val, AX.Abs) and val.kind == 'Json' else None)
                if items is None:
                    und.append('multi-key value {!r} not recognised'.format(val))
                    continue
                ok = len(items) == len(want) and all(a is toks[w] for a, w in zip(items, want))
                got = [getattr(x, 'kind', repr(x)) for x in items]
            else:
                ok = val is toks[want]
                got = getattr(val, 'kind', repr(val))
            if not ok:
                (bad_nr if (-1 in (idx if isinstance(idx, list) else [idx])) else bad_other).append('for key index {} the key is {} instead of {}'.format(idx, got, want))
        if und and not (bad_nr or bad_missing or bad_other):
            rep.undecided(mname + ' NR key', m, und[0])
            continue
        rep.decide(not bad_missing, mname + ' missing field', m, 'a B record without the key field raises the runtime error', 'a B record that lacks the key field does not raise the runtime error ({})'.format('; '.join(bad_missing[:2])))
        rep.decide(not bad_nr and not bad_other, mname + ' NR key', m, 'index -1 selects the B record number, otherwise the field', 'the bNR key component is not "record number if index == -1 else field": {}'.format('; '.join((bad_nr + bad_other)[:2])))


def _jn_build_model(cx, rep, port, p, mod, ms):
    """HashJoinMap.build / get_join_records decided on an abstract B table: four records (2, 3, 4 and 2 fields; the first and the third with
    the same key, the fourth with the key None) behind an iterator that then reports its end - once with a single key column, once
    with the composite key (record number, first column).  The map must hold, per key, the triples (record number from 1, field count,
    the record itself) in read order; max_record_len must be 4; the iterator is asked exactly until it reports its end; an unknown key
    gives no matches.  True when the exploration could be carried out."""
    import collections
    from .. import absexec as AX
    init = ms.get('__init__') or ms.get('init')
    b, gj = ms.get('build'), ms.get('get_join_records')
    if init is None or b is None or gj is None:
        return False
    problems = {}
    for key_indices in ([0], [-1, 0]):
        selfv, it = AX.Abs('Self'), AX.Abs('Iter')
        k1, k2, other = AX.Abs('Key', id='K1', distinct=True), AX.Abs('Key', id='K2', distinct=True), AX.Abs('Key', id='K3', distinct=True)
        fld = lambda n_: AX.Abs('Fld', id=n_, distinct=True)  # noqa: E731
        r1 = [k1, fld('r1f1')]
        r2 = [k2, fld('r2f1'), fld('r2f2')]
        r3 = [k1, fld('r3f1'), fld('r3f2'), fld('r3f3')]
        r4 = [None, fld('r4f1')]
        script = [r1, r2, r3, r4, None, None]
        asked = []
        interned = {}

        def jkey(items, interned=interned):
            return interned.setdefault(tuple(id(x) if isinstance(x, AX.Abs) else ('v', x) for x in items), AX.Abs('Json', items=tuple(items), distinct=True))

        def on_call(ex, node, fname, recv, args, it=it, script=script, asked=asked, jkey=jkey):
            short = node.func.attr if isinstance(node.func, ast.Attribute) else fname.split('.')[-1]
            if recv is it and short == 'get_record':
                asked.append(1)
                return script[min(len(asked) - 1, len(script) - 1)]
            if short.endswith('Error'):
                return AX.Abs(short)
            if fname == 'JSON.stringify' and len(args) == 1 and isinstance(args[0], (list, tuple)):
                return jkey(args[0])
            if recv is None and short == 'defaultdict':
                return collections.defaultdict(list)
            if recv is None and short in ('Map', 'dict', 'OrderedDict') and not args:
                return {}
            return AX.NOT_HANDLED
        ex = AX.Explorer(p, mod, on_call=on_call, max_choices=1)
        ex.cls = 'HashJoinMap'
        ex._script, ex._pos, ex.steps, ex.depth = [], 0, 0, 0
        ex.run = AX.Run()
        multi = len(key_indices) > 1

        def mk(nr_, k_):
            if not multi:
                return k_
            return jkey([nr_, k_]) if port == 'js' else (nr_, k_)
        try:
            ex.call_fd(init, [selfv, it, list(key_indices)])
            ex.call_fd(b, [selfv])
            n_asked = len(asked)
            look = lambda key_: ex.call_fd(gj, [selfv, key_])  # noqa: E731
            if multi:
                got = {'r1': look(mk(1, k1)), 'r3': look(mk(3, k1)), 'none': look(mk(2, k1))}
            else:
                got = {'kNone': look(None), 'k1': look(k1), 'k2': look(k2), 'none': look(other)}      # the None key first: nothing may be assumed about "the previous lookup"
            width = ex.run.state.get((selfv.uid, 'max_record_len'))
        except AX.Raised as r:
            problems.setdefault('B table build', 'building the join map over four well-formed B records raises {}'.format(getattr(r.value, 'kind', r.value)))
            continue
        except (Undecided, AX.Cut, AX._NeedChoice, KeyError, IndexError, TypeError) as e_:
            import os
            if os.environ.get('RBQL_VERIF_DEBUG'):
                print('JN-BUILD build model gave up:', type(e_).__name__, e_)
            return False

        def triples(v):
            if not isinstance(v, (list, tuple)):
                return None
            out = []
            for t in v:
                if not (isinstance(t, (list, tuple)) and len(t) == 3):
                    return None
                out.append((t[0], t[1], t[2]))
            return out
        want = {'r1': [(1, 2, r1)], 'r3': [(3, 4, r3)], 'none': []} if multi else {'k1': [(1, 2, r1), (3, 4, r3)], 'k2': [(2, 3, r2)], 'kNone': [(4, 2, r4)], 'none': []}
        title = 'composite key (bNR, first column)' if multi else 'single key column'
        for name_, w in want.items():
            t = triples(got[name_])
            if t is None:
                problems.setdefault('match triple', '{}: B matches are not stored as (record number, field count, record)'.format(title))
                continue
            if len(t) != len(w) or any(a[2] is not b_[2] for a, b_ in zip(t, w)):
                problems.setdefault('lookup' if not w or name_ in ('kNone',) or multi else 'B order', '{}: the matches found for {} are records {} instead of {}'.format(title, {'k1': 'the key of records 1 and 3', 'k2': 'the key of record 2', 'kNone': 'the key None of record 4', 'none': 'a key no record has', 'r1': 'the key of record 1', 'r3': 'the key of record 3'}[name_], [x[0] for x in t], [x[0] for x in w]))
                continue
            if [a[0] for a in t] != [b_[0] for b_ in w]:
                problems.setdefault('B record number', '{}: B records are not numbered 1, 2, ... in read order (numbers stored: {})'.format(title, [a[0] for a in t]))
            if [a[1] for a in t] != [b_[1] for b_ in w]:
                problems.setdefault('bNF', '{}: bNF is not the field count of the B record (stored: {})'.format(title, [a[1] for a in t]))
        if width != 4:
            problems.setdefault('max width', '{}: after B records of 2, 3, 4 and 2 fields max_record_len is {!r} instead of 4'.format(title, width))
        if n_asked != 5:
            problems.setdefault('B end of input', '{}: the B iterator is asked for a record {} time(s) for a table of four records (must stop at the first end-of-table answer)'.format(title, n_asked))
    good = {'B record number': 'bNR counts B records from 1', 'B end of input': 'stops at the first None record', 'match triple': 'matches are stored as (bNR, bNF, record)',
            'B order': 'matches of a key are appended in B order', 'max width': 'max_record_len is the maximum of the B field counts', 'bNF': 'bNF = len(record)', 'lookup': 'returns the bucket of the key (empty when absent)',
            'B table build': 'the map is built without error'}
    for k in ('B table build', 'B record number', 'B end of input', 'match triple', 'B order', 'max width', 'bNF', 'lookup'):
        rep.decide(k not in problems, k, b, good[k] + ' (abstract B tables of four records, single and composite key)', problems.get(k, ''))
    return True


def _jn_build_shape(cx, rep, port, p, mod, ms):
    from .. import cfg as cfgmod
    b = ms['build']
    # nr increments by one per record, before use; triple (nr, nf, fields) appended in read order
    nr = 'nr' if port == 'py' else 'self.nr'
    incs = [n for n in walk_no_nested(b) if isinstance(n, ast.AugAssign) and dotted(n.target) == nr and isinstance(n.value, ast.Constant) and n.value.value == 1]
    rep.decide(len(incs) == 1, 'B record number', incs[0] if incs else b, 'bNR counts B records from 1', 'B records are not numbered 1, 2, ... in read order')
    eof = [n for n in walk_no_nested(b) if isinstance(n, ast.If) and isinstance(n.test, ast.Compare) and is_none(n.test.comparators[0]) and isinstance(n.body[0], ast.Break)]
    rep.decide(len(eof) == 1 and (not incs or eof[0].pos < incs[0].pos), 'B end of input', eof[0] if eof else b, 'stops at the first None record, before counting it', 'B reading does not stop at the first None record before counting')
    recv = [dotted(n.targets[0]) for n in walk_no_nested(b) if isinstance(n, ast.Assign) and isinstance(n.value, ast.Call) and (call_name(n.value) or '').endswith('record_iterator.get_record')]
    rec = recv[0] if recv else 'fields'
    nfv = [dotted(n.targets[0]) for n in walk_no_nested(b) if isinstance(n, ast.Assign) and node_text(n.value) == 'len({})'.format(rec)]
    nfn = nfv[0] if nfv else 'nf'
    triples = [n for n in ast.walk(b) if isinstance(n, (ast.Tuple, ast.List)) and len(n.elts) == 3 and [dotted(e) for e in n.elts] == [nr, nfn, rec]]
    rep.decide(len(triples) >= 1, 'match triple', triples[0] if triples else b, 'matches are stored as (bNR, bNF, record)', 'B matches are not stored as (record number, field count, record)')
    apps = [c for c in walk_no_nested(b) if isinstance(c, ast.Call) and isinstance(c.func, ast.Attribute) and c.func.attr in ('append', 'push')]
    ins = [c for c in walk_no_nested(b) if isinstance(c, ast.Call) and isinstance(c.func, ast.Attribute) and c.func.attr in ('insert', 'unshift')]
    rep.decide(len(apps) == 1 and not ins, 'B order', apps[0] if apps else b, 'matches of a key are appended in B order', 'matches of a key are not kept in B order')
    mx = [n for n in walk_no_nested(b) if isinstance(n, ast.Assign) and dotted(n.targets[0]) == 'self.max_record_len']
    okm = len(mx) == 1 and 'max(self.max_record_len, {})'.format(nfn) in node_text(mx[0].value).replace('Math.', '')
    rep.decide(okm, 'max width', mx[0] if mx else b, 'max_record_len is the running maximum of the B field counts', 'max_record_len is not the maximum field count of B')
    if okm:
        # ... of *every* record: no way from one read of a B record to the next that skips the update (CFG)
        gb = cfgmod.CFG(b)
        is_fetch = lambda n_: cfgmod.node_contains(n_, lambda x: isinstance(x, ast.Call) and (call_name(x) or '').endswith('record_iterator.get_record'))  # noqa: E731
        is_upd = lambda n_: cfgmod.node_contains(n_, lambda x: x is mx[0])  # noqa: E731
        fetches = [n_ for n_ in gb.nodes if is_fetch(n_)]
        skip = any(gb.exists_path(f_, is_fetch, avoid=is_upd, edge_ok=lambda a_, b_, lab: lab not in ('exc', 'raise', 'assert')) for f_ in fetches)
        if fetches:
            rep.decide(not skip, 'max width every record', mx[0], 'every B record read takes part in the maximum', 'some B records are stored without updating max_record_len (the update sits in a branch): the LEFT JOIN null record can be narrower than the widest B record')
    nf = [n for n in walk_no_nested(b) if isinstance(n, ast.Assign) and is_name(n.targets[0], nfn)]
    rep.decide(len(nf) == 1 and node_text(nf[0].value) == 'len({})'.format(rec), 'bNF', nf[0] if nf else b, 'bNF = len(record)', 'bNF is not the field count of the B record')


def rule_jn_build(cx, rep, port):
    p = cx.port(port)
    mod = cx.engine_mod(port)
    hm = p.cls(mod, 'HashJoinMap')
    ms = roles.methods(hm)
    b = ms['build']
    modelled = _jn_build_model(cx, rep, port, p, mod, ms)
    if not modelled:
        with rep.as_fallback('HashJoinMap.build is outside the abstract interpreter'):
            _jn_build_shape(cx, rep, port, p, mod, ms)
    if 'init' in ms or '__init__' in ms:
        ini = ms.get('__init__') or ms.get('init')
        m0 = [n for n in walk_no_nested(ini) if isinstance(n, ast.Assign) and dotted(n.targets[0]) == 'self.max_record_len']
        if len(m0) == 1 and isinstance(m0[0].value, ast.Constant):
            rep.decide(m0[0].value.value == 0 and m0[0].value.value is not False, 'max width start', m0[0], 'the running maximum starts at 0 (an empty B table gives an empty null record)', 'the running maximum of the B field counts starts at {}: with an empty (or narrower) B table LEFT JOIN pads every record with that many nulls'.format(m0[0].value.value))
        elif m0:
            rep.undecided('max width start', m0[0], 'initial max_record_len is not a constant')
    if port == 'js' and ('init' in ms or '__init__' in ms):
        # the map from key to matches compares keys like the A-side lookup does (SameValueZero of a Map): a plain object coerces
        # every key to a string (7 and "7", null and "null" meet) and cannot hold the key `__proto__`
        ini_ = ms.get('__init__') or ms.get('init')
        hm0 = [n for n in walk_no_nested(ini_) if isinstance(n, ast.Assign) and dotted(n.targets[0]) == 'self.hash_map']
        if len(hm0) == 1 and isinstance(hm0[0].value, ast.Call) and dotted(hm0[0].value.func) == 'Map':
            rep.holds('key container', hm0[0], 'B records are kept in a Map (keys compared without coercion)')
        elif len(hm0) == 1 and (isinstance(hm0[0].value, ast.Dict) or (isinstance(hm0[0].value, ast.Call) and dotted(hm0[0].value.func) in ('Object.create', 'Object'))):
            rep.violated('key container', hm0[0], 'the join map is a plain object (`{}`): keys are coerced to strings, so a number and its decimal string (or null and "null") are paired although the key fields differ, and a B key `__proto__` is never stored'.format(node_text(hm0[0].value, 30)))
        else:
            rep.undecided('key container', hm0[0] if hm0 else ini_, 'construction of the join map not recognised')
    # key functions: index -1 -> record number ; missing field -> runtime error.  Decided on the abstract outcomes of the two key
    # functions for a B record of two fields F0, F1 and the index classes {-1, inside, outside}
    _jn_key_functions(cx, rep, port, p, mod, ms)
    dispatch_ok = _jn_key_dispatch(cx, rep, port, p, mod, ms)
    # key representation agrees with the lhs expression built by the parser
    init = ms['__init__']
    sel = [n for n in walk_no_nested(init) if isinstance(n, ast.If) and 'len(key_indices) == 1' in node_text(n.test)]
    sp = p.func(mod, 'shallow_parse_input_query')
    lhs = [n for n in walk_no_nested(sp) if isinstance(n, ast.Assign) and (dotted(n.targets[0]) or '').endswith('lhs_join_var_expression')]
    okrep = (len(sel) == 1 or dispatch_ok) and len(lhs) == 1 and isinstance(lhs[0].value, ast.IfExp) and 'len(lhs_variables) == 1' in node_text(lhs[0].value.test)
    rep.decide(okrep, 'key representation', lhs[0] if lhs else sp, 'single key -> bare value on both sides; several -> tuple / JSON array on both sides', 'the A-side key expression and the B-side key builder do not switch representation on the same condition (one key vs several)')
    if okrep:
        multi_b = ms['get_multi_key']
        rb = [r for r in walk_no_nested(multi_b) if isinstance(r, ast.Return)][0]
        b_kind = 'tuple' if 'tuple(' in node_text(rb.value) else ('json' if 'JSON.stringify' in node_text(rb.value) else '?')
        a_txt = node_text(lhs[0].value.orelse, 300)
        a_kind = 'tuple' if "'({})'" in a_txt else ('json' if 'JSON.stringify([' in a_txt else '?')
        rep.decide(a_kind == b_kind and a_kind != '?', 'multi-key representation', lhs[0], 'both sides build a {}'.format(a_kind), 'A side builds {} keys but B side builds {} keys: no record would ever match'.format(a_kind, b_kind))
    gj = ms['get_join_records']
    rets = [r for r in walk_no_nested(gj) if isinstance(r, ast.Return)]
    if not modelled:
      with rep.as_fallback('HashJoinMap.build is outside the abstract interpreter'):
        rep.decide(all('hash_map' in node_text(r.value) or node_text(r.value) in ('result', '[]') for r in rets), 'lookup', gj, 'returns the bucket of the key (empty when absent)', 'get_join_records does not return the bucket of its key')


def _pa_join_model(cx, rep, port, p, mod, rj):
    """resolve_join_variables decided on abstract tables (A has a1, a2; B has b1, b2) for every way to write a key pair: either operand
    order, record-number keys on either side, the unsupported `b-field == NR`, unknown and ambiguous names, two pairs in a row.
    True when every scenario could be evaluated."""
    from .. import absexec as AX
    amap = {'a1': AX.Abs('VarInfo', index=0), 'a2': AX.Abs('VarInfo', index=1), 'x': AX.Abs('VarInfo', index=5)}
    bmap = {'b1': AX.Abs('VarInfo', index=0), 'b2': AX.Abs('VarInfo', index=1), 'x': AX.Abs('VarInfo', index=6)}
    g = lambda i: 'safe_join_get(record_a, {})'.format(i)  # noqa: E731
    scen = [([('a1', 'b2')], ([g(0)], [1])), ([('b2', 'a1')], ([g(0)], [1])), ([('NR', 'b1')], (['NR'], [0])), ([('aNR', 'b2')], (['NR'], [1])), ([('a.NR', 'b1')], (['NR'], [0])),
            ([('a2', 'bNR')], ([g(1)], [-1])), ([('a2', 'b.NR')], ([g(1)], [-1])), ([('bNR', 'a1')], ([g(0)], [-1])), ([('NR', 'bNR')], (['NR'], [-1])),
            ([('b1', 'NR')], 'ERR'), ([('a1', 'a2')], 'ERR'), ([('q1', 'b1')], 'ERR'), ([('a1', 'q2')], 'ERR'), ([('x', 'b1')], 'ERR'),
            ([('a1', 'b1'), ('b2', 'a2')], ([g(0), g(1)], [0, 1])), ([('a2', 'b1'), ('NR', 'b2')], ([g(1), 'NR'], [0, 1])),
            ([('a1', 'b1'), ('a2', 'b2'), ('a1', 'b2')], ([g(0), g(1), g(0)], [0, 1, 1]))]
    bad = {}

    def on_attr(ex, node, obj, attr):
        if isinstance(obj, AX.Abs) and obj.kind == 'VarInfo' and attr == 'index':
            return ('nomemo', obj.props['index'])
        return AX.NOT_HANDLED

    def on_call(ex, node, fname, recv, args):
        short = node.func.attr if isinstance(node.func, ast.Attribute) else fname.split('.')[-1]
        if short.endswith('Error'):
            return AX.Abs(short)
        if short == 'combine_string_literals' and args:
            return args[0]
        return AX.NOT_HANDLED
    try:
        for pairs, want in scen:
            ex = AX.Explorer(p, mod, on_call=on_call, on_attr=on_attr, max_choices=1)
            runs, cut = ex.explore(rj, [dict(amap), dict(bmap), [list(pr) if port == 'js' else tuple(pr) for pr in pairs], []])
            if len(runs) != 1:
                return False
            kind, val, node = runs[0].outcome
            text = ' and '.join('{} == {}'.format(a, b) for a, b in pairs)
            if want == 'ERR':
                if not (kind == 'raise' and isinstance(val, AX.Abs) and val.kind == 'RbqlParsingError'):
                    bad.setdefault('operand swap' if pairs == [('b1', 'NR')] else 'variable resolution', 'ON {}: {} instead of a parsing error'.format(text, 'accepted as {}'.format(val) if kind == 'return' else 'raises {}'.format(getattr(val, 'kind', val))))
                continue
            if kind == 'raise':
                cls = 'operand swap' if any(a.startswith('b') for a, _ in pairs) else ('NR index' if 'NR' in text else 'variable resolution')
                bad.setdefault(cls, 'ON {} is rejected ({})'.format(text, getattr(val, 'kind', val)))
                continue
            if not (isinstance(val, (list, tuple)) and len(val) == 2):
                return False
            got = (list(val[0]) if isinstance(val[0], (list, tuple)) else val[0], list(val[1]) if isinstance(val[1], (list, tuple)) else val[1])
            if got != (want[0], want[1]):
                cls = 'NR index' if 'NR' in text and (got[1] != want[1] or ('NR' in want[0]) != ('NR' in (got[0] if isinstance(got[0], list) else []))) else ('operand swap' if any(a.startswith('b') for a, _ in pairs) else ('A-side key expression' if got[1] == want[1] else 'variable resolution'))
                bad.setdefault(cls, 'ON {} resolves to A keys {} / B indices {} instead of {} / {}'.format(text, got[0], got[1], want[0], want[1]))
    except (Undecided, AX.Cut, AX._NeedChoice, KeyError, IndexError, TypeError, ValueError) as e_:
        import os
        if os.environ.get('RBQL_VERIF_DEBUG'):
            print('PA-JOIN model gave up:', type(e_).__name__, e_)
        return False
    good = {'operand swap': 'a pair written b-side first is swapped; `b-field == NR` is rejected', 'NR index': 'record-number keys resolve to NR / index -1 on both sides',
            'A-side key expression': 'NR or safe_join_get(record_a, index)', 'variable resolution': 'A variable resolved in the input map, B variable in the join map; unknown and ambiguous names are parsing errors'}
    for k in ('operand swap', 'NR index', 'A-side key expression', 'variable resolution'):
        rep.decide(k not in bad, k, rj, good[k] + ' ({} abstract ON clauses)'.format(len(scen)), bad.get(k, ''))
    return True


def _pa_join_resolution(rep, rj):
    """what one iteration of the pair loop appends, per path: the A-side expression and the B-side index, and which of the two written variables each comes from"""
    from .. import pathsem as PS
    from ..idioms import membership, _minus_one
    params = [a.arg for a in rj.args.args]
    loops = [n for n in rj.body if isinstance(n, ast.For)]
    if len(loops) != 1 or len(params) < 3:
        rep.undecided('variable resolution', rj, 'expected one loop over the key pairs')
        return
    loop = loops[0]
    a_map, b_map = params[0], params[1]
    tgt = loop.target
    if isinstance(tgt, (ast.Tuple, ast.List)) and len(tgt.elts) == 2 and all(isinstance(e, ast.Name) for e in tgt.elts):
        vnames, pairvar = {tgt.elts[0].id: 1, tgt.elts[1].id: 2}, None
    elif isinstance(tgt, ast.Name):
        vnames, pairvar = {}, tgt.id
    else:
        rep.undecided('variable resolution', loop, 'unrecognised loop target')
        return

    def which(e):
        """the written variables (1 = first of the pair, 2 = second) an expression is computed from"""
        out = set()
        for x in ast.walk(e):
            if isinstance(x, ast.Name) and x.id in vnames:
                out.add(vnames[x.id])
            if pairvar and isinstance(x, ast.Subscript) and is_name(x.value, pairvar) and isinstance(x.slice, ast.Constant) and x.slice.value in (0, 1):
                out.add(x.slice.value + 1)
        return out

    def names(e):
        return {x.id for x in ast.walk(e) if isinstance(x, ast.Name)}
    ps = PS.paths_of_block(loop.body)
    if ps is None:
        rep.undecided('variable resolution', loop, 'loop body not summarised')
        return
    falls = [q for q in ps if q.kind in ('fall', 'continue')]
    if not falls:
        rep.undecided('variable resolution', loop, 'no completing path through the pair loop')
        return
    rets = [r for r in walk_no_nested(rj) if isinstance(r, ast.Return) and isinstance(r.value, (ast.Tuple, ast.List)) and len(r.value.elts) == 2 and all(isinstance(e, ast.Name) for e in r.value.elts)]
    if len(rets) != 1:
        rep.undecided('variable resolution', rj, 'expected `return (A expressions, B indices)`')
        return
    a_list, b_list = rets[0].value.elts[0].id, rets[0].value.elts[1].id
    # the two results may be unzipped after the loop from one list of (A expression, B index) pairs
    pair_list = None
    unz = {}
    for k_, nm_ in enumerate((a_list, b_list)):
        ds_ = [n for n in walk_no_nested(rj) if isinstance(n, ast.Assign) and len(n.targets) == 1 and is_name(n.targets[0], nm_)]
        if len(ds_) == 1 and isinstance(ds_[0].value, ast.ListComp) and len(ds_[0].value.generators) == 1 and not ds_[0].value.generators[0].ifs:
            g_ = ds_[0].value.generators[0]
            if isinstance(g_.iter, ast.Name) and isinstance(g_.target, (ast.Tuple, ast.List)) and len(g_.target.elts) == 2 and isinstance(ds_[0].value.elt, ast.Name) and is_name(g_.target.elts[k_], ds_[0].value.elt.id):
                unz[k_] = g_.iter.id
    if len(unz) == 2 and unz[0] == unz[1]:
        pair_list = unz[0]
    # module-level tuples / lists of constants the function refers to by name
    mod_tables = {}
    m_ = rj
    while m_ is not None and not isinstance(m_, ast.Module):
        m_ = getattr(m_, 'parent', None)
    for st_ in (m_.body if m_ is not None else []):
        if isinstance(st_, ast.Assign) and len(st_.targets) == 1 and isinstance(st_.targets[0], ast.Name) and isinstance(st_.value, (ast.Tuple, ast.List, ast.Set)) and st_.value.elts and all(isinstance(e, ast.Constant) and isinstance(e.value, str) for e in st_.value.elts):
            mod_tables[st_.targets[0].id] = st_.value
    bad_res, bad_swap, bad_nr, bad_expr, und = [], [], [], [], []
    seen_sw = {True: set(), False: set()}
    n_nr = 0
    for q in falls:
        app = {}
        for c in q.calls:
            if isinstance(c, ast.Call) and isinstance(c.func, ast.Attribute) and c.func.attr in ('append', 'push') and isinstance(c.func.value, ast.Name) and len(c.args) == 1:
                app.setdefault(c.func.value.id, []).append(c.args[0])
        if pair_list is not None and len(app.get(pair_list, [])) == 1 and isinstance(app[pair_list][0], (ast.Tuple, ast.List)) and len(app[pair_list][0].elts) == 2:
            ea, eb = app[pair_list][0].elts
        elif len(app.get(a_list, [])) != 1 or len(app.get(b_list, [])) != 1:
            und.append('a completing path does not append exactly one A expression and one B index')
            continue
        else:
            ea, eb = app[a_list][0], app[b_list][0]
        ats = PS.atoms(q.conds)
        mem = [(m, pol) for (m, pol) in ((membership(t), pol) for t, pol in ats) if m is not None]
        mem = [((k_, mod_tables.get(b_.id, b_) if isinstance(b_, ast.Name) else b_, p_), pol) for (k_, b_, p_), pol in mem]
        # record-number spellings tested true on this path
        nr_a = [which(k) for (k, box, pos), pol in mem if pos == pol and isinstance(box, (ast.List, ast.Tuple, ast.Set)) and any(isinstance(x, ast.Constant) and x.value == 'a.NR' for x in box.elts)]
        nr_b = [which(k) for (k, box, pos), pol in mem if pos == pol and isinstance(box, (ast.List, ast.Tuple, ast.Set)) and any(isinstance(x, ast.Constant) and x.value == 'b.NR' for x in box.elts)]
        # A side
        a_is_nr = isinstance(ea, ast.Constant) and ea.value == 'NR'
        if a_is_nr:
            ua = nr_a[0] if nr_a else which(ast.Tuple(elts=[t for t, pol in ats if a_map in names(t) and '.index' in ast.unparse(t)], ctx=ast.Load()))
            if nr_a:
                n_nr += 1
        else:
            ua = which(ea)
            ta = ast.unparse(ea)
            if nr_a:
                bad_nr.append('an A-side record-number key is not resolved to NR')
            if 'safe_join_get(record_a, ' not in ta:
                bad_expr.append(ta[:80])
            if a_map not in names(ea) or b_map in names(ea):
                bad_res.append('the A-side key `{}` is not looked up in {}'.format(ta[:80], a_map))
        # B side
        if _minus_one(eb):
            ub = nr_b[0] if nr_b else set()
            if not nr_b:
                bad_nr.append('index -1 appended for a B key that is not a record-number spelling')
            else:
                n_nr += 1
        else:
            ub = which(eb)
            if nr_b:
                bad_nr.append('a B-side record-number key is not resolved to index -1')
            if b_map not in names(eb) or a_map in names(eb):
                bad_res.append('the B-side key `{}` is not looked up in {}'.format(ast.unparse(eb)[:80], b_map))
        if len(ua) != 1 or len(ub) != 1 or ua == ub:
            if len(ua) == 1 and len(ub) == 1:
                bad_res.append('both sides of a pair are resolved from the same written variable')
            else:
                und.append('could not tell which written variable each side comes from (A {}, B {})'.format(sorted(ua), sorted(ub)))
            continue
        q.pa_sides = (next(iter(ua)), next(iter(ub)))
    # model check over the ways a pair can be written: (where the first variable lives, where the second lives) -> which one must become the A key
    SCEN = [('b-field == a-field', {1: 'B', 2: 'A'}, 2), ('a-field == b-field', {1: 'A', 2: 'B'}, 1), ('bNR == a-field', {1: 'bNR', 2: 'A'}, 2),
            ('aNR == b-field', {1: 'aNR', 2: 'B'}, 1), ('a-field == bNR', {1: 'A', 2: 'bNR'}, 1), ('b-field == aNR (not supported: must be rejected or resolved with aNR on the A side)', {1: 'B', 2: 'aNR'}, None)]

    def box_kind(box):
        if isinstance(box, ast.Name) and box.id in mod_tables:
            box = mod_tables[box.id]
        if is_name(box, a_map):
            return 'A'
        if is_name(box, b_map):
            return 'B'
        if isinstance(box, (ast.List, ast.Tuple, ast.Set)):
            vals = [x.value for x in box.elts if isinstance(x, ast.Constant)]
            if 'a.NR' in vals:
                return 'aNR'
            if 'b.NR' in vals:
                return 'bNR'
        return None
    for title, where, want in SCEN:
        def leaf(e):
            m = membership(e)
            if m is None:
                return None
            k, box, pos = m
            w, bk = which(k), box_kind(box)
            if len(w) != 1 or bk is None:
                return None
            return (where[next(iter(w))] == bk) == pos
        live = [q for q in ps if PS.consistent(q, leaf)]
        for q in live:
            if q.kind == 'raise':
                if want is not None:
                    bad_swap.append('`{}` is rejected ({})'.format(title, node_text(q.value, 70)))
            elif hasattr(q, 'pa_sides'):
                if want is not None and q.pa_sides[0] != want:
                    bad_swap.append('`{}`: the {} written variable is taken as the A key'.format(title, 'first' if q.pa_sides[0] == 1 else 'second'))
                if want is None and q.pa_sides[0] != 2:
                    bad_swap.append('`{}`: accepted with the B field as the A key'.format(title))
        if not live:
            und.append('no path for `{}`'.format(title))
    if und and not (bad_res or bad_swap or bad_nr or bad_expr):
        rep.undecided('variable resolution', loop, und[0])
        return
    rep.decide(not bad_swap, 'operand swap', loop, 'a pair written b-side first is swapped ({} completing paths)'.format(len(falls)), 'a key pair written with the B variable first is not swapped to (A, B): {}'.format('; '.join(sorted(set(bad_swap)))))
    rep.decide(not bad_nr and n_nr >= 2, 'NR index', loop, 'record-number keys resolve to NR / index -1 on both sides', 'record-number keys do not resolve to index -1 on both sides: {}'.format('; '.join(sorted(set(bad_nr))) or 'no record-number path'))
    rep.decide(not bad_expr, 'A-side key expression', loop, 'NR or safe_join_get(record_a, index)', 'the A-side key expression is not "NR if index == -1 else safe_join_get(record_a, index)": {}'.format('; '.join(sorted(set(bad_expr)))))
    rep.decide(not bad_res, 'variable resolution', loop, 'A variable resolved in the input map, B variable in the join map', 'join variables are not resolved in their own tables\' variable maps: {}'.format('; '.join(sorted(set(bad_res)))))


def rule_pa_join(cx, rep, port):
    """ON clause parsing: = and ==; either operand order; NR keys"""
    from .. import regexlang as R
    p = cx.port(port)
    mod = cx.engine_mod(port)
    fd = p.func(mod, 'parse_join_expression')
    from .pa import regexes_of
    # every pattern applied in the function, wherever it is written (inline, compiled or literal at module level, applied by a helper)
    pats = regexes_of(cx, port, fd)
    pair = [x for x in pats if '==?' in x[0]]
    if len(pair) != 1:
        rep.violated('ON pair regex', fd, 'the ON pair pattern accepting both `=` and `==` is not present')
    else:
        pat, _, node = pair[0]
        import re as _re
        rx_ok = True
        try:
            lang = R.Lang(pat, flavour=port)
            acc = [w for w in ('a1==b1', 'a1=b1', 'a1 == b1', 'a1 = b1', 'b1==a1') if not R.accepts(lang, w)]
            rej = [w for w in ('a1', 'a1=', '=b1', 'a1 b1') if R.accepts(lang, w)]
            rep.decide(not acc and not rej, 'ON pair regex', node, 'accepts `x == y`, `x=y` with optional spaces; needs both operands', 'the ON pair pattern `{}` rejects {} / accepts {}'.format(pat, acc, rej))
        except R.Unsupported as e:
            rep.undecided('ON pair regex', node, str(e))
    on = [x for x in pats if ' +on +' in x[0]]
    rep.decide(len(on) == 1 and on[0][1], 'ON keyword', on[0][2] if on else fd, 'ON is matched case-insensitively', 'the ON keyword is not matched case-insensitively')
    andp = [x for x in pats if 'and' in x[0].lower() and '==?' not in x[0] and 'on' not in x[0].replace('and', '')]
    rep.decide(len(andp) == 1 and andp[0][1], 'AND keyword', andp[0][2] if andp else fd, 'AND is matched case-insensitively', 'the AND between key pairs is not matched case-insensitively')
    # resolve_join_variables
    rj = p.func(mod, 'resolve_join_variables')
    lists = [n for n in ast.walk(rj) if isinstance(n, (ast.List, ast.Tuple, ast.Set)) and n.elts and all(isinstance(e, ast.Constant) and isinstance(e.value, str) and 'NR' in e.value for e in n.elts)]
    # ... or module-level tables of the spellings that the function names
    used_ = {x.id for x in ast.walk(rj) if isinstance(x, ast.Name)}
    for st_ in p.modules[mod].body:
        if isinstance(st_, ast.Assign) and len(st_.targets) == 1 and isinstance(st_.targets[0], ast.Name) and st_.targets[0].id in used_ and isinstance(st_.value, (ast.List, ast.Tuple, ast.Set)) and st_.value.elts and all(isinstance(e, ast.Constant) and isinstance(e.value, str) and 'NR' in e.value for e in st_.value.elts):
            lists.append(st_.value)
    vals = sorted(tuple(sorted(e.value for e in l.elts)) for l in lists)
    rep.decide(vals == [('NR', 'a.NR', 'aNR'), ('b.NR', 'bNR')], 'NR keys', lists[0] if lists else rj, 'NR/a.NR/aNR on the A side, bNR/b.NR on the B side', 'record-number key spellings are {}'.format(vals))
    if not _pa_join_model(cx, rep, port, p, mod, rj):
        _pa_join_resolution(rep, rj)
