"""LK rules: like() translation (C17) — taint, mapping, anchoring, partition schema, cache."""
import ast

from .. import cfg as cfgmod
from .. import regexlang as R
from ..core import Undecided, node_text
from ..idioms import increment_of, is_name
from ..model import call_name, dotted, names_in, walk_no_nested, const_value, NOCONST

ESCAPERS = {'py': ('re.escape',), 'js': ('regexp_escape',)}
ECMA_SYNTAX_CHARS = '^$\\.*+?()[]{}|'


def _fd(cx, port):
    p = cx.port(port)
    return p, p.func(cx.engine_mod(port), 'like_to_regex')


def _escrepl_family(fd, port):
    """`x = escape(pattern)` followed only by constant .replace(a, b) steps on x: returns (list of (search, repl, node)) or None"""
    pat = fd.args.args[0].arg
    esc = [n for n in walk_no_nested(fd) if isinstance(n, ast.Call) and call_name(n) in ESCAPERS[port] and len(n.args) == 1 and is_name(n.args[0], pat)]
    loops = [n for n in walk_no_nested(fd) if isinstance(n, (ast.While, ast.For))]
    if len(esc) != 1 or loops:
        return None
    steps = []
    for n in walk_no_nested(fd):
        if isinstance(n, ast.Call) and isinstance(n.func, ast.Attribute) and n.func.attr == 'replace' and len(n.args) == 2:
            a, b = n.args
            av = a.value if isinstance(a, ast.Constant) else (a.args[0].value if isinstance(a, ast.Call) and dotted(a.func) == '__regex__' else None)
            bv = b.value if isinstance(b, ast.Constant) else None
            if not isinstance(av, str) or not isinstance(bv, str):
                return None
            steps.append((n.lineno, n.col_offset, av, bv, n))
    # evaluation order of a chained x.replace(..).replace(..): inner call first; inner has the smaller end position
    steps.sort(key=lambda t: (t[0], getattr(t[4], 'end_col_offset', t[1])))
    return [(a, b, n) for _, _, a, b, n in steps]


def _escaped_chars():
    import re as _re
    return {chr(c) for c in range(32, 127) if _re.escape(chr(c)) != chr(c)}


def _prefix_of_escaped_text(s, esc):
    """is s a prefix of some text produced by the escape function (tokens: backslash+char for escaped chars, the char otherwise)?"""
    i = 0
    while i < len(s):
        if s[i] == '\\':
            if i + 1 == len(s):
                return True
            if s[i + 1] not in esc:
                return False
            i += 2
        else:
            if s[i] in esc:
                return False
            i += 1
    return True


def _check_escrepl(rep, fd, steps, port):
    esc = _escaped_chars() if port == 'py' else set('.*+?^${}()|[]\\')
    ok = True
    for (a, b, node) in steps:
        if not a:
            continue
        # an occurrence of `a` that starts in the middle of a two-character token \\x of the escaped text
        if a[0] in esc and _prefix_of_escaped_text(a[1:], esc):
            rep.violated('replace {!r} -> {!r}'.format(a, b), node, 'on the escaped pattern the search string {!r} can match across a token boundary (the second half of an escaped {!r} followed by the next character): an escaped literal is corrupted, e.g. a literal backslash followed by a wildcard'.format(a, a[0]))
            ok = False
    final = {}
    for (a, b, node) in steps:
        if len(a) == 1 and a not in esc:
            final[a] = b
    want = {'%': '.*', '_': '.'}
    if ok:
        if {k: v for k, v in final.items()} == want:
            later_hits = [(a, b) for i, (a, b, n) in enumerate(steps) for (a2, b2, n2) in steps[:i] if a in b2 and a2 in want]
            rep.decide(not later_hits, 'escape-then-replace mapping', fd, 'whole pattern escaped, then % -> .* and _ -> . on token-aligned matches only', 'a later replace rewrites the output of an earlier wildcard translation: {}'.format(later_hits))
        else:
            rep.violated('escape-then-replace mapping', fd, 'after escaping, the wildcard translation is {} (must be exactly % -> .* and _ -> .)'.format(final))


def _accum_var(fd):
    """the accumulator: the name concatenated in the return expression besides constants"""
    rets = [n for n in walk_no_nested(fd) if isinstance(n, ast.Return)]
    if len(rets) != 1:
        raise Undecided('like_to_regex: single return expected', fd)
    names = [n for n in names_in(rets[0].value)]
    if len(names) != 1:
        raise Undecided('like_to_regex: return expression `{}` not recognised'.format(node_text(rets[0].value)), rets[0])
    return names[0], rets[0]


def _slice_of_pattern(e, pat):
    """pattern[p:i] / pattern.substring(p, i) / pattern.slice(p, i) -> (lo, hi) expression texts"""
    if isinstance(e, ast.Subscript) and is_name(e.value, pat) and isinstance(e.slice, ast.Slice):
        return (node_text(e.slice.lower) if e.slice.lower is not None else '0', node_text(e.slice.upper) if e.slice.upper is not None else 'end')
    if isinstance(e, ast.Call) and isinstance(e.func, ast.Attribute) and e.func.attr in ('substring', 'slice') and is_name(e.func.value, pat) and len(e.args) in (1, 2):
        return (node_text(e.args[0]), node_text(e.args[1]) if len(e.args) == 2 else 'end')
    return None


class _nullctx(object):
    def __enter__(self):
        return None

    def __exit__(self, *a):
        return False


def _lk_model(cx, port):
    """like_to_regex evaluated on every abstract LIKE pattern of at most four characters over {%, _, a literal character}: the result,
    as a sequence of regex constants and escaped / unescaped pattern characters, must be ^ + (escape(c) | . | .*)* + $.
    Returns None when the abstract interpreter gives up, else {category: message} with categories taint / map / anchor / part
    (empty = all patterns translated correctly)."""
    cache = cx.__dict__.setdefault('_lk_model_cache', {})
    if port in cache:
        return cache[port]
    import itertools
    from .. import absexec as AX
    p, fd = _fd(cx, port)
    mod = cx.engine_mod(port)

    class AbsStr(list):
        # a string as its sequence of code units (JS: UTF-16 units - indexing, length, substring and charAt count units); iterating a
        # JS string (for-of, Array.from, spread) walks code points: a high surrogate and the low surrogate after it come out as one item
        is_abs_str = True

        def __getitem__(self, k):
            r = list.__getitem__(self, k)
            return AbsStr(r) if isinstance(k, slice) else r

        def __iter__(self):
            units = [list.__getitem__(self, i) for i in range(len(self))]
            i = 0
            while i < len(units):
                u = units[i]
                if port == 'js' and isinstance(u, AX.Abs) and u.props.get('surrogate') == 'high' and i + 1 < len(units) and isinstance(units[i + 1], AX.Abs) and units[i + 1].props.get('surrogate') == 'low':
                    yield AbsStr([u, units[i + 1]])
                    i += 2
                else:
                    yield u
                    i += 1

    def units(seq):
        out = []
        for i in range(len(seq)):
            x = list.__getitem__(seq, i)
            out.extend(units(x) if isinstance(x, list) else [x])
        return out

    def on_call(ex, node, fname, recv, args):
        short = node.func.attr if isinstance(node.func, ast.Attribute) else fname
        if (fname in ESCAPERS[port] or short in ('escape', 'regexp_escape', 'escapeRegExp')) and len(args) == 1 and isinstance(args[0], (list, AX.Abs, str)):
            seg = args[0]
            if isinstance(seg, AX.Abs) and seg.kind == 'Chr':
                seg = [seg]
            if isinstance(seg, str):
                seg = list(seg)
            if isinstance(seg, list):
                return AX.Abs('Esc', seg=tuple(units(seg)))
        if short in ('endswith', 'endsWith', 'startswith', 'startsWith') and len(args) == 1 and isinstance(args[0], str) and isinstance(recv, (str, AX.Abs)) and not (isinstance(recv, AX.Abs) and recv.kind not in ('Text', 'Esc', 'Joined')):
            # a test on the text built so far: decided when the text ends (starts) with constant characters; an escaped pattern
            # character may or may not be the character asked for, so both answers are explored
            seq = flat(recv)
            end = short.lower() == 'endswith'
            part = seq[-len(args[0]):] if end else seq[:len(args[0])]
            if len(seq) >= len(args[0]) and all(isinstance(x, str) for x in part):
                return ''.join(part) == args[0]
            if len(seq) < len(args[0]):
                return False
            return ex.choose('literal-char-test', [False, True])
        if isinstance(recv, list) and short == 'charAt' and len(args) == 1 and isinstance(args[0], int):
            return recv[args[0]] if 0 <= args[0] < len(recv) else ''
        if isinstance(recv, list) and short in ('substring', 'slice') and 1 <= len(args) <= 2 and all(isinstance(a, int) for a in args):
            a = max(0, min(args[0], len(recv)))
            b = max(0, min(args[1], len(recv))) if len(args) == 2 else len(recv)
            if short == 'substring' and a > b:
                a, b = b, a
            return AbsStr(list.__getitem__(recv, slice(a, b)))
        return AX.NOT_HANDLED

    def flat(v):
        if isinstance(v, AX.Abs) and v.kind == 'Text':
            out = []
            for x in v.props['parts']:
                out.extend(flat(x))
            return out
        if isinstance(v, AX.Abs) and v.kind == 'Joined':
            out = []
            for i, x in enumerate(v.props['items']):
                if i and v.props['sep'] != '':
                    out.append(v.props['sep'])
                out.extend(flat(x))
            return out
        if isinstance(v, AX.Abs) and v.kind == 'Esc':
            return [('esc', c) for c in v.props['seg']]
        if isinstance(v, str):
            return list(v)
        if isinstance(v, list):
            out = []
            for x in units(v):
                out.extend([('raw', x)] if not isinstance(x, list) else flat(x))
            return out
        return [('raw', v)]
    bad = {}
    n = 0
    try:
        shapes = [sh for ln in range(0, 5) for sh in itertools.product('%_L', repeat=ln)]
        if port == 'js':
            # A = a character outside the basic plane: two UTF-16 code units
            shapes += [sh for ln in range(1, 4) for sh in itertools.product('%_LA', repeat=ln) if 'A' in sh]
        for shape in shapes:
            if True:
                pat = AbsStr()
                for k, c in enumerate(shape):
                    if c == 'A':
                        list.append(pat, AX.Abs('Chr', id='c%dh' % k, distinct=True, surrogate='high'))
                        list.append(pat, AX.Abs('Chr', id='c%dl' % k, distinct=True, surrogate='low'))
                    else:
                        list.append(pat, c if c != 'L' else AX.Abs('Chr', id='c%d' % k, distinct=True))
                ex = AX.Explorer(p, mod, on_call=on_call, max_choices=4, follow=True)
                runs, cut = ex.explore(fd, [pat])
                if not runs or any(r_.outcome[0] != 'return' for r_ in runs):
                    cache[port] = None
                    return None
                n += 1
                # with several runs (answers explored both ways) the first one that differs from the expected text is reported
                want0 = ['^'] + [y for c in units(pat) for y in (['.'] if c == '_' else (['.', '*'] if c == '%' else [('esc', c)]))] + ['$']
                letters = {}

                def _regex_text(seq):
                    """the sequence as a concrete regular expression: each abstract literal stands for its own letter; None when an
                    unescaped pattern character occurs (judged as taint, whatever the language)"""
                    out = []
                    for x in seq:
                        if isinstance(x, str):
                            out.append(x)
                        elif x[0] == 'esc' and isinstance(x[1], AX.Abs):
                            out.append(letters.setdefault(x[1].uid, 'abcdefgh'[len(letters) % 8]))
                        elif x[0] == 'esc' and isinstance(x[1], str):
                            out.append('\\' + x[1] if not x[1].isalnum() else x[1])
                        else:
                            return None
                    return ''.join(out)

                def _same(g_):
                    if len(g_) == len(want0) and all((a == b) if isinstance(a, str) and isinstance(b, str) else (isinstance(a, tuple) and isinstance(b, tuple) and a[0] == b[0] and a[1] is b[1]) for a, b in zip(g_, want0)):
                        return True
                    # not the same text: the same language?  (`%%` may become one `.*`, `_%` may become `.*.` ...)
                    ta, tb = _regex_text(g_), _regex_text(want0)
                    if ta is None or tb is None or not (ta.startswith('^') and ta.endswith('$')):
                        return False
                    try:
                        from .. import regexlang as R
                        return R.compare(R.Lang(ta[1:-1], flavour='py'), R.Lang(tb[1:-1], flavour='py'))[0]
                    except Exception:
                        return False
                bad_runs = [r_ for r_ in runs if not _same(flat(r_.outcome[1]))]
                got = flat((bad_runs[0] if bad_runs else runs[0]).outcome[1])
                want = list(want0)
                same = not bad_runs
                if same:
                    continue
                shown = ''.join(shape).replace('L', 'x').replace('A', '<astral character>')

                def show(seq):
                    return ''.join(x if isinstance(x, str) else ('\\' + ('x' if isinstance(x[1], AX.Abs) else str(x[1])) if x[0] == 'esc' else '<unescaped ' + ('x' if isinstance(x[1], AX.Abs) else repr(x[1])) + '>') for x in seq)
                msg = 'LIKE pattern `{}` (x = any other character) becomes `{}` instead of `{}`'.format(shown, show(got), show(want))
                if any(isinstance(x, tuple) and x[0] == 'raw' for x in got):
                    bad.setdefault('taint', msg)
                elif got[:1] != ['^'] or got[-1:] != ['$']:
                    bad.setdefault('anchor', msg)
                else:
                    lits_g = [x[1] for x in got if isinstance(x, tuple)]
                    lits_w = [x[1] for x in want if isinstance(x, tuple)]
                    if len(lits_g) != len(lits_w) or any(a is not b for a, b in zip(lits_g, lits_w)):
                        bad.setdefault('part', msg)
                    else:
                        bad.setdefault('map', msg)
    except (Undecided, AX.Cut, AX._NeedChoice, IndexError, KeyError, TypeError):
        cache[port] = None
        return None
    bad['__n__'] = n
    cache[port] = bad
    return bad


def _lk_model_report(cx, rep, port, category, key, good):
    m = _lk_model(cx, port)
    if m is None:
        return False
    p, fd = _fd(cx, port)
    rep.decide(category not in m, key, fd, '{} ({} abstract patterns of up to 4 characters evaluated)'.format(good, m['__n__']), m.get(category, ''))
    return True


def rule_lk_taint(cx, rep, port):
    with rep.as_fallback('like_to_regex is outside the abstract interpreter') if (_lk_model(cx, port) is None and _escrepl_family(_fd(cx, port)[1], port) is None) else _nullctx():
        return _rule_lk_taint(cx, rep, port)


def _rule_lk_taint(cx, rep, port):
    """every piece of the pattern appended to the result passes through the escape function; only constants bypass it"""
    if _lk_model_report(cx, rep, port, 'taint', 'pattern text escaped', 'every character of the pattern other than _ and % reaches the result through the escape function'):
        return
    p, fd = _fd(cx, port)
    steps = _escrepl_family(fd, port)
    if steps is not None:
        rep.holds('whole pattern escaped', fd, 'the whole pattern passes through the escape function before wildcard translation')
        _check_escrepl(rep, fd, steps, port)
        return
    pat = fd.args.args[0].arg
    acc, ret = _accum_var(fd)
    n = 0
    bad = False
    for st in walk_no_nested(fd):
        val = None
        if isinstance(st, ast.AugAssign) and is_name(st.target, acc):
            val = st.value
        elif isinstance(st, ast.Assign) and is_name(st.targets[0], acc):
            val = st.value
        if val is None:
            continue
        for piece in _concat_pieces(val):
            if is_name(piece, acc):
                continue
            if isinstance(piece, ast.Constant) and isinstance(piece.value, str):
                continue
            if isinstance(piece, ast.IfExp) and all(isinstance(x, ast.Constant) and isinstance(x.value, str) for x in (piece.body, piece.orelse)):
                continue    # one of two constants: the pattern decides which, its text is not copied
            n += 1
            if isinstance(piece, ast.Call) and call_name(piece) in ESCAPERS[port] and len(piece.args) == 1:
                rep.holds('append `{}`'.format(node_text(piece)), st, 'pattern text is escaped before it is appended')
            elif pat in names_in(piece):
                bad = True
                rep.violated('append `{}`'.format(node_text(piece)), st, 'raw pattern text is appended to the regular expression without escaping: regex metacharacters in the LIKE pattern would be interpreted')
            else:
                rep.undecided('append `{}`'.format(node_text(piece)), st, 'appended value not recognised')
    for piece in _concat_pieces(ret.value):
        if pat in names_in(piece):
            n += 1
            if not (isinstance(piece, ast.Call) and call_name(piece) in ESCAPERS[port]):
                rep.violated('return piece `{}`'.format(node_text(piece)), ret, 'raw pattern text reaches the result without escaping')
    rep.require_count('escaped pattern pieces', n, 2, fd)


def _concat_pieces(e):
    if isinstance(e, ast.BinOp) and isinstance(e.op, ast.Add):
        return _concat_pieces(e.left) + _concat_pieces(e.right)
    return [e]


def rule_lk_map(cx, rep, port):
    with rep.as_fallback('like_to_regex is outside the abstract interpreter') if (_lk_model(cx, port) is None and _escrepl_family(_fd(cx, port)[1], port) is None) else _nullctx():
        return _rule_lk_map(cx, rep, port)


def _rule_lk_map(cx, rep, port):
    """'_' -> '.', '%' -> '.*' and nothing else is special"""
    if _lk_model_report(cx, rep, port, 'map', 'wildcard translation', "'_' -> '.', '%' -> '.*', every other character stands for itself"):
        return
    p, fd = _fd(cx, port)
    if _escrepl_family(fd, port) is not None:
        rep.holds('wildcard translation', fd, 'escape-then-replace family: judged by LK-TAINT')
        return
    pat = fd.args.args[0].arg
    acc, ret = _accum_var(fd)
    mapping = {}
    specials = set()
    from ..snippet import inline_single_defs
    for n in walk_no_nested(fd):
        if isinstance(n, ast.AugAssign) and is_name(n.target, acc) and isinstance(n.value, ast.IfExp) and all(isinstance(x, ast.Constant) for x in (n.value.body, n.value.orelse)):
            chars = _chars_tested(inline_single_defs(n.value.test, fd), pat)
            if chars is not None and len(chars) == 1:
                mapping[chars[0]] = n.value.body.value
                mapping['<else of {}>'.format(chars[0])] = n.value.orelse.value
        if isinstance(n, ast.If):
            chars = _chars_tested(inline_single_defs(n.test, fd), pat)
            if chars is None and n.body and isinstance(n.body[-1], ast.Continue) and not n.orelse:
                # guard clause `if c != '_' and c != '%': continue`: what follows handles exactly those characters
                neg = _chars_tested_neg(inline_single_defs(n.test, fd), pat)
                if neg is not None and len(neg) > 1:
                    specials |= set(neg)
                continue
            if chars is None:
                continue
            specials |= set(chars) if len(chars) > 1 else set()
            if len(chars) == 1:
                ch = chars[0]
                t = _appended_const(n.body, acc)
                if t is not None:
                    mapping[ch] = t
                # the else arm belongs to the other wildcard
                if n.orelse:
                    t2 = _appended_const(n.orelse, acc)
                    if t2 is not None:
                        mapping['<else of {}>'.format(ch)] = t2
    if not specials:
        raise Undecided('like_to_regex: wildcard test not recognised', fd)
    if specials != {'_', '%'}:
        rep.violated('wildcard set', fd, 'the characters treated as wildcards are {} (must be exactly _ and %)'.format(sorted(specials)))
        return
    # resolve else-arm
    res = {}
    for k, v in mapping.items():
        if k.startswith('<else of '):
            other = ({'_', '%'} - {k[len('<else of '):-1]}).pop()
            res.setdefault(other, v)
        else:
            res[k] = v
    want = {'_': '.', '%': '.*'}
    if res == want:
        rep.holds('wildcard translation', fd, '_ -> . and % -> .*')
    else:
        rep.violated('wildcard translation', fd, 'wildcards are translated as {} (must be {})'.format(res, want))
    # "." must match any single character of a single-line text and ".*" any run: the regex is compiled without flags that change that
    rep.holds('wildcard set', fd, 'exactly _ and % are special')


def _chars_tested(test, pat):
    """pattern[i] in ['_','%'] | pattern[i] == '_' | pattern.charAt(i) == '_' || ...  -> list of chars"""
    def subject_ok(e):
        if isinstance(e, ast.Subscript) and is_name(e.value, pat):
            return True
        if isinstance(e, ast.Call) and isinstance(e.func, ast.Attribute) and e.func.attr == 'charAt' and is_name(e.func.value, pat):
            return True
        return False
    if isinstance(test, ast.Compare) and len(test.ops) == 1 and subject_ok(test.left):
        c = test.comparators[0]
        if isinstance(test.ops[0], ast.In) and isinstance(c, (ast.List, ast.Tuple, ast.Set)):
            vals = [x.value for x in c.elts if isinstance(x, ast.Constant)]
            return vals if len(vals) == len(c.elts) else None
        if isinstance(test.ops[0], ast.In) and isinstance(c, ast.Constant) and isinstance(c.value, str):
            return list(c.value)
        if isinstance(test.ops[0], ast.Eq) and isinstance(c, ast.Constant):
            return [c.value]
    if isinstance(test, ast.BoolOp) and isinstance(test.op, ast.Or):
        out = []
        for v in test.values:
            r = _chars_tested(v, pat)
            if r is None:
                return None
            out.extend(r)
        return out
    return None


def _chars_tested_neg(test, pat):
    """pattern[i] != '_' and pattern[i] != '%' | pattern[i] not in '_%'  -> the characters the test excludes"""
    if isinstance(test, ast.Compare) and len(test.ops) == 1 and isinstance(test.ops[0], (ast.NotEq, ast.NotIn)):
        flipped = ast.Compare(left=test.left, ops=[ast.Eq() if isinstance(test.ops[0], ast.NotEq) else ast.In()], comparators=test.comparators)
        return _chars_tested(flipped, pat)
    if isinstance(test, ast.UnaryOp) and isinstance(test.op, ast.Not):
        return _chars_tested(test.operand, pat)
    if isinstance(test, ast.BoolOp) and isinstance(test.op, ast.And):
        out = []
        for v in test.values:
            r = _chars_tested_neg(v, pat)
            if r is None:
                return None
            out.extend(r)
        return out
    return None


def _appended_const(body, acc):
    for st in body:
        if isinstance(st, ast.AugAssign) and is_name(st.target, acc) and isinstance(st.value, ast.Constant):
            return st.value.value
    return None


def rule_lk_anchor(cx, rep, port):
    p, fd = _fd(cx, port)
    if not _lk_model_report(cx, rep, port, 'anchor', 'anchors', 'result is ^...$'):
      with rep.as_fallback('like_to_regex is outside the abstract interpreter') if _escrepl_family(fd, port) is None else _nullctx():
        acc, ret = _accum_var(fd)
        pieces = _concat_pieces(ret.value)
        consts = [x.value if isinstance(x, ast.Constant) else None for x in pieces]
        if len(pieces) == 3 and consts[0] == '^' and consts[2] == '$' and is_name(pieces[1], acc):
            rep.holds('anchors', ret, 'result is ^...$')
        elif consts and consts[0] != '^' or consts and consts[-1] != '$':
            rep.violated('anchors', ret, 'the translated pattern `{}` is not anchored at both ends: like() would accept a partial match'.format(node_text(ret.value)))
        else:
            rep.undecided('anchors', ret, 'return shape not recognised')
    # use site: match / fullmatch / test, compiled without flags
    mod = cx.engine_mod(port)
    users = []
    for f in p.all_funcs([mod]):
        for c in walk_no_nested(f):
            if isinstance(c, ast.Call) and call_name(c) == 'like_to_regex':
                users.append((f, c))
    if len(users) != 1:
        raise Undecided('like_to_regex is expected to be used by exactly one matcher, found {}'.format(len(users)), fd)
    f, c = users[0]
    comp = getattr(c, 'parent', None)
    ok_compile = isinstance(comp, ast.Call) and (call_name(comp) in ('re.compile', 'RegExp')) and len(comp.args) == 1 and not comp.keywords
    rep.decide(ok_compile, 'compile', c, 'compiled without flags', 'the translated pattern is compiled with extra flags/arguments: `{}`'.format(node_text(comp)))
    uses = [x for x in walk_no_nested(f) if isinstance(x, ast.Call) and isinstance(x.func, ast.Attribute) and x.func.attr in ('match', 'fullmatch', 'test', 'search', 'exec', 'findall')]
    good = [x for x in uses if x.func.attr in ('match', 'fullmatch', 'test', 'search', 'exec')]
    if not uses:
        rep.undecided('match call', f, 'no match call found in the LIKE matcher')
    elif len(good) != len(uses):
        rep.violated('match call', uses[0], 'LIKE uses `{}`'.format(node_text(uses[0])))
    else:
        u = good[0]
        text_param = f.args.args[0].arg
        rep.decide(len(u.args) == 1 and is_name(u.args[0], text_param), 'match call', u, 'the whole text is matched against the anchored pattern', 'LIKE matches `{}` instead of the text argument'.format(node_text(u)))
        # result must be turned into a boolean "matched"
        ret_f = [r for r in walk_no_nested(f) if isinstance(r, ast.Return)]
        ok_ret = False
        for r in ret_f:
            v = r.value
            if isinstance(v, ast.Compare) and isinstance(v.ops[0], ast.IsNot) and v.left is u:
                ok_ret = True
            if v is u and u.func.attr == 'test':
                ok_ret = True
        rep.decide(ok_ret, 'verdict', f, 'like() returns "matched"', 'like() does not return "the pattern matched" (negated or different value)')
        other = []
        for r in ret_f:
            v = r.value
            good_ret = (isinstance(v, ast.Compare) and isinstance(v.ops[0], ast.IsNot) and isinstance(v.left, ast.Call) and isinstance(v.left.func, ast.Attribute) and v.left.func.attr in ('match', 'fullmatch', 'search')) or (isinstance(v, ast.Call) and isinstance(v.func, ast.Attribute) and v.func.attr == 'test')
            if not good_ret:
                other.append(r)
        rep.decide(not other, 'single matching path', other[0] if other else f, 'every return of like() is the verdict of the translated, anchored regular expression', 'like() has a second matching path that bypasses the translated pattern: `{}`'.format(node_text(other[0], 100) if other else ''))


def rule_lk_part(cx, rep, port):
    with rep.as_fallback('like_to_regex is outside the abstract interpreter') if (_lk_model(cx, port) is None and _escrepl_family(_fd(cx, port)[1], port) is None) else _nullctx():
        return _rule_lk_part(cx, rep, port)


def _rule_lk_part(cx, rep, port):
    """scan-and-flush: index +1 every iteration unconditionally; on a wildcard flush [p,i) and set p = i+1; final flush [p,end)"""
    if _lk_model_report(cx, rep, port, 'part', 'pattern partition', 'every character of the pattern contributes exactly once, in order'):
        return
    p, fd = _fd(cx, port)
    if _escrepl_family(fd, port) is not None:
        rep.holds('scan schema', fd, 'escape-then-replace family: no scan loop; judged by LK-TAINT')
        return
    pat = fd.args.args[0].arg
    loops = [n for n in walk_no_nested(fd) if isinstance(n, (ast.While, ast.For))]
    if len(loops) != 1:
        raise Undecided('like_to_regex: one scanning loop expected', fd)
    lp = loops[0]
    from ..snippet import inline_single_defs

    def is_len_pat(e):
        e = inline_single_defs(e, fd)
        return isinstance(e, ast.Call) and dotted(e.func) == 'len' and e.args and is_name(e.args[0], pat)
    counted = isinstance(lp, ast.For)
    if counted:
        # for i in range(len(pattern)) / range(0, len(pattern)): the step is built in
        it = lp.iter
        if not (isinstance(lp.target, ast.Name) and isinstance(it, ast.Call) and dotted(it.func) == 'range' and len(it.args) in (1, 2)):
            raise Undecided('like_to_regex: scanning loop `for {} in {}` not recognised'.format(node_text(lp.target), node_text(it, 60)), lp)
        if not is_len_pat(it.args[-1]) or (len(it.args) == 2 and const_value(it.args[0]) != 0):
            rep.violated('loop bound', lp, 'the scan does not visit every position 0 .. len(pattern)-1: `{}`'.format(node_text(it)))
            return
        idx = lp.target.id
        touched = [st for st in walk_no_nested(lp) if isinstance(st, (ast.AugAssign, ast.Assign)) and any(is_name(t_, idx) for t_ in (st.targets if isinstance(st, ast.Assign) else [st.target]))]
        if touched:
            rep.violated('index step', touched[0], 'the scan index of the counting loop is modified in the body')
            return
        rep.holds('index step', lp, 'counting loop over every position')
    else:
        # index variable: while i < len(pattern)
        t = lp.test
        if not (isinstance(t, ast.Compare) and isinstance(t.ops[0], ast.Lt) and isinstance(t.left, ast.Name) and is_len_pat(t.comparators[0])):
            rep.violated('loop bound', lp, 'the scan does not run while index < len(pattern): `{}`'.format(node_text(t)))
            return
        idx = t.left.id
        # unconditional +1: a top-level statement of the loop body
        incs = [st for st in lp.body if increment_of(st, idx) == 1]
        nested_incs = [st for st in walk_no_nested(lp) if isinstance(st, (ast.AugAssign, ast.Assign)) and increment_of(st, idx) is not None and st not in incs]
        if len(incs) != 1 or nested_incs:
            rep.violated('index step', (incs + nested_incs + [lp])[0], 'the scan index is not advanced by exactly one, unconditionally, once per iteration')
            return
        rep.holds('index step', incs[0], 'index +1 per iteration, unconditionally')
    # flushes
    flushes = []
    for c in walk_no_nested(fd):
        if isinstance(c, ast.Call) and call_name(c) in ESCAPERS[port] and len(c.args) == 1:
            s = _slice_of_pattern(c.args[0], pat)
            if s is None:
                rep.undecided('flush `{}`'.format(node_text(c)), c, 'escaped piece is not a slice of the pattern')
                return
            flushes.append((c, s))
    in_loop = [(c, s) for c, s in flushes if _inside(c, lp)]
    after = [(c, s) for c, s in flushes if not _inside(c, lp)]
    if len(in_loop) != 1 or len(after) != 1:
        rep.violated('flushes', fd, 'expected one flush at each wildcard and one final flush, found {} in the loop and {} after it'.format(len(in_loop), len(after)))
        return
    # start variable p
    pv = in_loop[0][1][0]
    ok_in = in_loop[0][1] == (pv, idx)
    hi_after = after[0][1][1]
    len_alias = {n_.targets[0].id for n_ in walk_no_nested(fd) if isinstance(n_, ast.Assign) and isinstance(n_.targets[0], ast.Name) and is_len_pat(n_.value)}
    ok_after = after[0][1][0] == pv and (hi_after in ('end', 'len({})'.format(pat)) or hi_after in len_alias or (hi_after == idx and not counted))
    if counted and hi_after == idx:
        rep.violated('final flush', after[0][0], 'after a counting loop the index is the last position, not the length: the tail pattern[{}:{}] loses the last character'.format(pv, idx))
        return
    rep.decide(ok_in, 'wildcard flush', in_loop[0][0], 'flushes pattern[{}:{}] before a wildcard'.format(pv, idx), 'the literal run flushed at a wildcard is pattern[{}:{}] (must be [{}:{}))'.format(in_loop[0][1][0], in_loop[0][1][1], pv, idx))
    rep.decide(ok_after, 'final flush', after[0][0], 'flushes the tail pattern[{}:end]'.format(pv), 'the final literal run is pattern[{}:{}] (must start at the position after the last wildcard and reach the end)'.format(after[0][1][0], after[0][1][1]))
    # p = i + 1 next to the flush, in the same guarded block
    flush_stmt = _stmt_of(in_loop[0][0])
    block = _block_of(flush_stmt)
    resets = [st for st in block if isinstance(st, ast.Assign) and is_name(st.targets[0], pv)]
    ok_reset = len(resets) == 1 and isinstance(resets[0].value, ast.BinOp) and isinstance(resets[0].value.op, ast.Add) and is_name(resets[0].value.left, idx) and isinstance(resets[0].value.right, ast.Constant) and resets[0].value.right.value == 1
    rep.decide(ok_reset, 'run start reset', resets[0] if resets else flush_stmt, '{} = {} + 1 after each wildcard'.format(pv, idx), 'after a wildcard the start of the next literal run is not set to index + 1: the wildcard character itself would be copied or a character lost')
    # initial values
    inits = {}
    for st in fd.body:
        if isinstance(st, ast.Assign) and isinstance(st.targets[0], ast.Name) and isinstance(st.value, ast.Constant):
            inits[st.targets[0].id] = st.value.value
    if counted:
        inits[idx] = 0
    rep.decide(inits.get(idx) == 0 and inits.get(pv) == 0, 'initial positions', fd, 'scan and run start at 0', 'scan index / run start do not start at 0: {}'.format({k: inits.get(k) for k in (idx, pv)}))


def _inside(node, anc):
    p = node
    while p is not None:
        if p is anc:
            return True
        p = getattr(p, 'parent', None)
    return False


def _stmt_of(node):
    p = node
    while p is not None and not isinstance(p, ast.stmt):
        p = getattr(p, 'parent', None)
    return p


def _block_of(stmt):
    par = stmt.parent
    for fld in ('body', 'orelse', 'finalbody'):
        b = getattr(par, fld, None)
        if isinstance(b, list) and stmt in b:
            return b
    return [stmt]


def _derives_from_pattern(v, fd, pat, depth=0):
    """v is `cache.get(pat)`, `cache[pat]`, a compile/RegExp call over like_to_regex(pat), or a local defined only by such values"""
    if isinstance(v, ast.Call):
        if isinstance(v.func, ast.Attribute) and v.func.attr == 'get' and v.args and is_name(v.args[0], pat):
            return True
        inner = [c for c in ast.walk(v) if isinstance(c, ast.Call) and call_name(c) == 'like_to_regex']
        return bool(inner) and all(c.args and is_name(c.args[0], pat) for c in inner)
    if isinstance(v, ast.Subscript) and is_name(v.slice, pat):
        return True
    if isinstance(v, ast.Name) and depth < 3:
        defs = [a for a in walk_no_nested(fd) if isinstance(a, ast.Assign) and any(is_name(t, v.id) for t in a.targets)]
        return bool(defs) and all(_derives_from_pattern(a.value, fd, pat, depth + 1) for a in defs)
    return False


def _matcher_of_this_pattern(rep, fd, pat):
    """the compiled pattern that is applied to the text was obtained for *this* call's pattern"""
    apps = [c for c in walk_no_nested(fd) if isinstance(c, ast.Call) and isinstance(c.func, ast.Attribute) and c.func.attr in ('match', 'test', 'search', 'fullmatch', 'exec')]
    if len(apps) != 1:
        rep.undecided('matcher applied', fd, 'expected one application of the compiled pattern, found {}'.format(len(apps)))
        return
    recv = apps[0].func.value
    if isinstance(recv, ast.Name):
        ok = _derives_from_pattern(recv, fd, pat)
        rep.decide(ok, 'matcher applied', apps[0], 'the applied matcher is a local obtained from this call\'s pattern on every path', 'the matcher applied to the text (`{}`) is not always the one obtained for this call\'s pattern'.format(recv.id))
        return
    loc = dotted(recv)
    if loc is None:
        rep.undecided('matcher applied', apps[0], 'receiver `{}` not recognised'.format(node_text(recv, 60)))
        return
    # a matcher remembered between calls: it must change whenever the remembered pattern changes
    g = cfgmod.CFG(fd)
    v_nodes = [n for n in g.nodes if n.kind == 'stmt' and isinstance(n.ast, ast.Assign) and dotted(n.ast.targets[0]) == loc]
    keys = set()
    for t_ in [n.ast for n in g.nodes if n.kind == 'test']:
        for c in ast.walk(t_):
            if isinstance(c, ast.Compare) and len(c.ops) == 1:
                sides = [c.left, c.comparators[0]]
                if any(is_name(x, pat) for x in sides):
                    keys |= {dotted(x) for x in sides if dotted(x) and '.' in dotted(x)}
    k_nodes = [n for n in g.nodes if n.kind == 'stmt' and isinstance(n.ast, ast.Assign) and dotted(n.ast.targets[0]) in keys]
    if not k_nodes or not v_nodes:
        rep.undecided('matcher applied', apps[0], 'the applied matcher `{}` persists between calls and its pairing with a remembered pattern was not recognised'.format(loc))
        return
    is_v = lambda n: any(n is x for x in v_nodes)  # noqa: E731
    for k in k_nodes:
        to_k = k is g.entry or g.exists_path(g.entry, lambda n, k=k: n is k, avoid=is_v)
        from_k = g.exists_path(k, lambda n: n is g.exit or (isinstance(n.ast, ast.Return)), avoid=is_v)
        if to_k and from_k:
            rep.violated('matcher applied', k.ast, 'a path through the matcher function updates the remembered pattern `{}` without updating the remembered matcher `{}`: the next text is tested against the matcher of an earlier pattern'.format(dotted(k.ast.targets[0]), loc))
            return
    ok = all(_derives_from_pattern(n.ast.value, fd, pat) for n in v_nodes)
    if ok:
        rep.holds('matcher applied', apps[0], 'the remembered matcher is replaced on every path that replaces the remembered pattern, by a matcher obtained for this pattern')
    else:
        rep.undecided('matcher applied', apps[0], 'remembered matcher `{}` is assigned a value not recognised as derived from the pattern'.format(loc))


def rule_lk_cache(cx, rep, port):
    """compiled patterns are cached in the per-query context, keyed by the pattern alone"""
    p = cx.port(port)
    mod = cx.engine_mod(port)
    matcher = None
    for f in p.all_funcs([mod]):
        for c in walk_no_nested(f):
            if isinstance(c, ast.Call) and call_name(c) == 'like_to_regex':
                matcher = f
    if matcher is None:
        raise Undecided('LIKE matcher not found', (p.files[mod], 0))
    pat_param = matcher.args.args[1].arg
    gets = [c for c in walk_no_nested(matcher) if isinstance(c, ast.Call) and isinstance(c.func, ast.Attribute) and c.func.attr == 'get' and 'like_regex_cache' in (dotted(c.func.value) or '')]
    sets = [n for n in walk_no_nested(matcher) if (isinstance(n, ast.Assign) and isinstance(n.targets[0], ast.Subscript) and 'like_regex_cache' in (dotted(n.targets[0].value) or '')) or (isinstance(n, ast.Call) and isinstance(n.func, ast.Attribute) and n.func.attr == 'set' and 'like_regex_cache' in (dotted(n.func.value) or ''))]
    if not gets and not sets:
        rep.holds('cache', matcher, 'no cache: every call compiles its own pattern')
        return
    owner = {(dotted(c.func.value) or '').split('.')[0] for c in gets}
    ok_owner = owner <= {'query_context'}
    ok_get = all(c.args and is_name(c.args[0], pat_param) for c in gets)
    ok_set = True
    for s in sets:
        k = s.targets[0].slice if isinstance(s, ast.Assign) else s.args[0]
        if not is_name(k, pat_param):
            ok_set = False
    if not ok_owner:
        rep.violated('cache owner', matcher, 'the LIKE cache lives in `{}`, not in the per-query context'.format(sorted(owner)))
    elif not (ok_get and ok_set):
        rep.violated('cache key', matcher, 'the LIKE cache is not keyed by the pattern alone: a matcher compiled for one pattern can be used for another')
    else:
        rep.holds('cache', matcher, 'cache in query_context.like_regex_cache keyed by the pattern')
    _matcher_of_this_pattern(rep, matcher, pat_param)
    # the cache itself is created per RBQLContext
    ctx = p.cls(mod, 'RBQLContext')
    init = [m for m in ctx.body if isinstance(m, ast.FunctionDef) and m.name == '__init__'][0]
    created = [n for n in walk_no_nested(init) if isinstance(n, ast.Assign) and dotted(n.targets[0]) == 'self.like_regex_cache' and isinstance(n.value, (ast.Call, ast.Dict))]
    rep.decide(bool(created), 'cache creation', init, 'a fresh cache per RBQLContext', 'the LIKE cache is not created per context')


def rule_rx_jsesc(cx, rep, port='js'):
    """regexp_escape: class superset of ECMAScript SyntaxCharacter, replacement '\\$&', global flag"""
    p = cx.port('js')
    fd = p.func('rbql', 'regexp_escape')
    calls = [c for c in walk_no_nested(fd) if isinstance(c, ast.Call) and isinstance(c.func, ast.Attribute) and c.func.attr == 'replace']
    if len(calls) != 1:
        raise Undecided('regexp_escape: single replace call expected', fd)
    c = calls[0]
    rx, repl = c.args[0], c.args[1]
    if not (isinstance(rx, ast.Call) and dotted(rx.func) == '__regex__'):
        raise Undecided('regexp_escape: regex literal expected', c)
    pattern, flags = rx.args[0].value, rx.args[1].value
    try:
        lang = R.Lang(pattern, flavour='js')
    except R.Unsupported as e:
        raise Undecided('regexp_escape regex unsupported: {}'.format(e), c)
    missing = [ch for ch in ECMA_SYNTAX_CHARS if not R.accepts(lang, ch)]
    rep.decide(not missing, 'escape class', rx, 'class contains every ECMAScript SyntaxCharacter', 'regexp_escape does not escape {}: such a character in a LIKE pattern is interpreted as a regex operator'.format(missing))
    rep.decide('g' in flags, 'escape flags', rx, 'global replace', 'regexp_escape replaces only the first metacharacter (missing g flag)')
    rep.decide(isinstance(repl, ast.Constant) and repl.value == '\\$&', 'escape replacement', c, "replacement is '\\$&'", 'replacement `{}` does not prefix the matched character with a backslash'.format(node_text(repl)))
    multi = [w for w in ('ab', '..', '') if R.accepts(lang, w)]
    rep.decide(not multi, 'escape unit', rx, 'the class matches single characters only', 'the escape regex matches {!r}: the replacement would not escape each character'.format(multi))
