"""WR rules: writer chain (DESIGN.md section 4, WR-*)."""
import ast

from .. import cfg as cfgmod
from .. import conftable, roles
from ..core import Undecided, node_text
from ..idioms import concat_operands, copy_source, increment_of, is_false, is_name, is_true, negated
from ..model import call_name, dotted, is_none, names_in, walk_no_nested

NORMAL = lambda a, b, lab: lab not in ('exc', 'raise', 'assert')  # noqa: E731


def _roles(cx, port):
    p = cx.port(port)
    mod = cx.engine_mod(port)
    return p, mod, roles.chain_writers(p, mod), roles.sinks(p)


def _key(cls, meth=None):
    return cls.name + ('.' + meth if meth else '')


def _subwrite_calls(fd):
    return [c for c in ast.walk(fd) if isinstance(c, ast.Call) and call_name(c) == 'self.subwriter.write']


def _is_boolish(e, fd):
    """expression is a boolean verdict: constant, comparison, negation, or a name bound only to such / to a subwriter verdict"""
    if isinstance(e, ast.Constant):
        return isinstance(e.value, bool)
    if isinstance(e, (ast.Compare,)):
        return True
    if isinstance(e, ast.UnaryOp) and isinstance(e.op, ast.Not):
        return True
    if isinstance(e, ast.BoolOp):
        return all(_is_boolish(v, fd) for v in e.values)
    if isinstance(e, ast.IfExp):
        return _is_boolish(e.body, fd) and _is_boolish(e.orelse, fd)
    if isinstance(e, ast.Call):
        nm = call_name(e) or ''
        if nm.endswith('.write') or nm in ('add_to_set', 'bool', 'Boolean'):
            return True
        if nm == 'Promise':
            return _promise_resolves_true(e, fd)
        if nm == 'Promise.resolve' and len(e.args) == 1:
            return _is_boolish(e.args[0], fd)
        if nm == 'Promise.reject':
            return True       # a rejected promise is the error path (a raise), not a verdict
    if isinstance(e, ast.Name):
        defs = [n for n in walk_no_nested(fd) if isinstance(n, ast.Assign) and any(is_name(t, e.id) for t in n.targets)]
        return bool(defs) and all(_is_boolish(d.value, fd) for d in defs)
    return False


def _promise_resolves_true(call, fd):
    """return new Promise(function(resolve, reject) {... resolve(true) ...}) with no resolve(<non-true>)"""
    if not call.args:
        return False
    ex = call.args[0]
    body = None
    if isinstance(ex, ast.Name) and getattr(ex, 'js_function_ref', None) is not None:
        body = ex.js_function_ref
    if body is None:
        return False
    params = [a.arg for a in body.args.args]
    if not params:
        return False
    res = [c for c in ast.walk(body) if isinstance(c, ast.Call) and is_name(c.func, params[0])]
    return bool(res) and all(len(c.args) == 1 and is_true(c.args[0]) for c in res)


def rule_wr_ret(cx, rep, port):
    """every write() of a chain writer or sink returns a boolean on every normal path"""
    p, mod, chain, sinks = _roles(cx, port)
    rep.require_count('chain writers', len(chain), roles.MINIMA[port]['chain_writers'], (p.files[mod], 0))
    rep.require_count('sinks', len(sinks), roles.MINIMA[port]['sinks'], (p.files[mod], 0))
    n = 0
    for c in chain + sinks:
        ms = roles.methods(c)
        if 'write' not in ms:
            continue
        fd = ms['write']
        n += 1
        g = cfgmod.CFG(fd)
        falls = [pn for pn, lab in g.exit.pred if lab != 'return']
        if falls:
            rep.violated(_key(c, 'write'), falls[0].ast if falls[0].ast is not None else fd, 'a normal path falls off the end of write() and returns None: the caller treats it as a refusal and silently stops the query')
            continue
        rets = [x.ast for x, lab in g.exit.pred if lab == 'return']
        bad = [r for r in rets if r.value is None or not _is_boolish(r.value, fd)]
        # JS: a sink that hands back what the output *stream's* write() returned reports backpressure ("buffer full, wait for drain"),
        # not acceptance: the query stops silently once the stream's buffer has filled up
        backp = []
        if port == 'js' and c in sinks:
            for r in rets:
                v_ = r.value
                while isinstance(v_, ast.Await):
                    v_ = v_.value
                if isinstance(v_, ast.Name):
                    ds_ = [n_ for n_ in walk_no_nested(fd) if isinstance(n_, ast.Assign) and is_name(n_.targets[0], v_.id)]
                    v_ = ds_[0].value if len(ds_) == 1 else v_
                if isinstance(v_, ast.Call) and (call_name(v_) or '') in ('self.stream.write', 'this.stream.write'):
                    backp.append(r)
        if backp:
            rep.violated(_key(c, 'write'), backp[0], '`{}` returns the result of the output stream\'s write(): false there means "buffer full, wait for drain", so after the first 16 KiB of output the query is told to stop although nothing failed'.format(node_text(backp[0], 80)))
        elif bad:
            rep.violated(_key(c, 'write'), bad[0], '`{}` does not return a boolean verdict'.format(node_text(bad[0])))
        else:
            rep.holds(_key(c, 'write'), fd, '{} return(s), all boolean verdicts, no fall-through'.format(len(rets)))
    rep.require_count('write methods', n, 7 if port == 'py' else 6, (p.files[mod], 0))


JS_PROP_ALLOW = {'TopWriter.write': 'JS sinks signal failure by rejecting the promise, never by returning false; TopWriter forwards without looking at the verdict'}


def rule_wr_prop(cx, rep, port):
    """the verdict of every subwriter.write(..) is returned or tested with the false arm stopping the emitter"""
    p, mod, chain, sinks = _roles(cx, port)
    n = 0
    async_write = port == 'js' and any(getattr(roles.methods(c_).get('write'), 'is_async', False) for c_ in list(chain) + list(sinks))
    for c in chain:
        for mname, fd in roles.methods(c).items():
            calls = _subwrite_calls(fd)
            if not calls:
                continue
            g = cfgmod.CFG(fd)
            for call in calls:
                n += 1
                key = '{}.{}: {}'.format(c.name, mname, node_text(call))
                st = call
                while not isinstance(getattr(st, 'parent', None), ast.stmt) and getattr(st, 'parent', None) is not None:
                    st = st.parent
                stmt = st.parent if not isinstance(st, ast.stmt) else st
                stmt = _stmt_of(call)
                if port == 'js' and async_write and not getattr(call, 'awaited', False) and not (isinstance(stmt, ast.Return) and stmt.value is call):
                    rep.violated(key, call, 'write() of the downstream writer is asynchronous and its promise is used here without `await`: a promise is always truthy, so a refusal (TOP reached) never stops {}, and the writes are no longer serialised'.format('the emitting loop' if mname == 'finish' else 'the query'))
                    continue
                verdict = _verdict_use(call, stmt, fd, g)
                if verdict == 'dropped':
                    if port == 'js' and '{}.{}'.format(c.name, mname) in JS_PROP_ALLOW:
                        rep.holds(key, call, 'allow-listed: ' + JS_PROP_ALLOW['{}.{}'.format(c.name, mname)])
                    else:
                        rep.violated(key, call, 'the verdict of the downstream writer is dropped: a refusal (TOP reached / broken pipe) does not stop {}'.format('the emitting loop' if mname == 'finish' else 'the query'))
                elif verdict == 'ok':
                    rep.holds(key, call, 'verdict returned or tested; false stops the emitter')
                else:
                    rep.undecided(key, call, 'use of the verdict not recognised: ' + verdict)
    rep.require_count('subwriter.write call sites', n, 5, (p.files[mod], 0))


def _stmt_of(node):
    p = node
    while p is not None and not isinstance(p, ast.stmt):
        p = getattr(p, 'parent', None)
    return p


def _verdict_use(call, stmt, fd, g):
    par = getattr(call, 'parent', None)
    # return <call>
    if isinstance(stmt, ast.Return) and stmt.value is call:
        return 'ok'
    # return True if <call> else False / return bool(<call>): the verdict itself, as a boolean
    if isinstance(stmt, ast.Return) and isinstance(stmt.value, ast.IfExp) and stmt.value.test is call and is_true(stmt.value.body) and is_false(stmt.value.orelse):
        return 'ok'
    if isinstance(stmt, ast.Return) and isinstance(stmt.value, ast.IfExp) and isinstance(stmt.value.test, ast.UnaryOp) and isinstance(stmt.value.test.op, ast.Not) and stmt.value.test.operand is call \
            and is_false(stmt.value.body) and is_true(stmt.value.orelse):
        return 'ok'
    if isinstance(stmt, ast.Return) and isinstance(stmt.value, ast.Call) and dotted(stmt.value.func) in ('bool', 'Boolean') and len(stmt.value.args) == 1 and stmt.value.args[0] is call:
        return 'ok'
    # x = <call>; x later returned on all paths / tested
    if isinstance(stmt, ast.Assign) and stmt.value is call and len(stmt.targets) == 1 and isinstance(stmt.targets[0], ast.Name):
        var = stmt.targets[0].id
        rets = [r for r in walk_no_nested(fd) if isinstance(r, ast.Return)]
        after = [r for r in rets if r.pos > stmt.pos]
        if after and all(r.value is not None and is_name(r.value, var) for r in after):
            return 'ok'
        return 'verdict bound to `{}` but not returned on every later path'.format(var)
    # if not <call>: return False / break
    if isinstance(par, ast.UnaryOp) and isinstance(par.op, ast.Not) and isinstance(getattr(par, 'parent', None), ast.If) and par.parent.test is par:
        iff = par.parent
        first = iff.body[0] if iff.body else None
        if isinstance(first, ast.Return) and first.value is not None and is_false(first.value):
            return 'ok'
        if isinstance(first, ast.Break):
            return 'ok'
        return 'false arm is `{}`'.format(node_text(first))
    if isinstance(par, ast.If) and par.test is call:
        # if <call>: ... else: return False/break
        first = par.orelse[0] if par.orelse else None
        if isinstance(first, (ast.Break,)) or (isinstance(first, ast.Return) and first.value is not None and is_false(first.value)):
            return 'ok'
        return 'false arm is `{}`'.format(node_text(first))
    if isinstance(stmt, ast.Expr) and stmt.value is call:
        return 'dropped'
    # the call is the body of a callback applied to every element (map / forEach / a comprehension): all records are offered, the
    # verdict of one write cannot stop the next - whatever is done with the collected results afterwards
    q = par
    while q is not None and q is not stmt:
        if isinstance(q, ast.Lambda) or (isinstance(q, ast.FunctionDef) and q is not fd):
            host = getattr(q, 'parent', None)
            if isinstance(host, ast.Call) and isinstance(host.func, ast.Attribute) and host.func.attr in ('map', 'forEach', 'flatMap'):
                return 'dropped'
        if isinstance(q, (ast.ListComp, ast.GeneratorExp, ast.SetComp)) and isinstance(getattr(q, 'parent', None), ast.Call) and dotted(q.parent.func) not in ('all', 'any', 'next'):
            return 'dropped'
        if isinstance(q, ast.ListComp) and isinstance(getattr(q, 'parent', None), ast.Call) and dotted(q.parent.func) in ('all', 'any'):
            return 'dropped'       # a list is built first: every write happens before all()/any() looks at the verdicts
        q = getattr(q, 'parent', None)
    return 'call appears in `{}`'.format(node_text(stmt))


def rule_wr_fin(cx, rep, port):
    """finish() forwards to subwriter.finish() exactly once on every normal path, after the last subwriter.write"""
    p, mod, chain, sinks = _roles(cx, port)
    for c in chain:
        fd = roles.methods(c)['finish']
        g = cfgmod.CFG(fd)
        is_fin = lambda n: n.kind in ('stmt', 'test') and cfgmod.node_contains(n, lambda x: isinstance(x, ast.Call) and call_name(x) == 'self.subwriter.finish')  # noqa: E731
        is_wr = lambda n: n.kind in ('stmt', 'test') and cfgmod.node_contains(n, lambda x: isinstance(x, ast.Call) and call_name(x) == 'self.subwriter.write')  # noqa: E731
        rng = g.count_range(is_fin, edge_ok=NORMAL)
        fins = [n for n in g.nodes if is_fin(n)]
        if rng != (1, 1):
            rep.violated(_key(c, 'finish'), fins[0].ast if fins else fd, 'subwriter.finish() is called {} times on a normal path (must be exactly once)'.format(rng))
        elif any(g.exists_path(f, is_wr, edge_ok=NORMAL) for f in fins):
            rep.violated(_key(c, 'finish'), fins[0].ast, 'a record can be written downstream after subwriter.finish()')
        else:
            rep.holds(_key(c, 'finish'), fins[0].ast, 'exactly one subwriter.finish() on every normal path, after all writes')
        # a failing finishing stage (incomparable sort keys, the sink refusing a record by raising) must not finish the sink: the
        # user's writer would flush/close a truncated result as if the run had succeeded
        g2 = cfgmod.CFG(fd)
        fins2 = [n for n in g2.nodes if is_fin(n)]
        own_exc = lambda a, b, lab: not (lab in ('exc', 'raise') and any(a is f for f in fins2))  # noqa: E731
        rng2 = g2.count_range(is_fin, exits=[g2.raise_exit], edge_ok=own_exc)
        if rng2 is not None:
            rep.decide(rng2[1] == 0, _key(c, 'finish') + ' on failure', fins2[0].ast if fins2 else fd, 'no path that leaves finish() with an exception has called subwriter.finish()', 'subwriter.finish() is also called on a path that leaves finish() with an exception (try/finally): after a failed run the user\'s writer is finished as if the output were complete')


def _top_model(cx, port, p, mod, c):
    """the TOP writer evaluated for bounds 0, 1, 2 (JS: also null = no bound) on four records with an accepting downstream writer, and for
    bound 2 with a downstream writer that refuses the first record: {obligation: problem or None} - None when outside the interpreter"""
    from .. import absexec as AX
    ms = roles.methods(c)
    init, wr = ms.get('__init__'), ms.get('write')
    if init is None or wr is None or len(init.args.args) != 3:
        return None
    res = {'refusal': None, 'verdict': None, 'order': None, 'count': None}
    n = 0
    try:
        for bound in ([0, 1, 2] + ([None] if port == 'js' else [])):
            for refuse_first in ((False, True) if bound == 2 else (False,)):
                selfv, sub = AX.Abs('Self'), AX.Abs('Sub')
                recs = [AX.Abs('Rec', id='r%d' % i) for i in range(4)]
                forwarded = []

                def on_call(ex, node, fname, recv, args):
                    short = node.func.attr if isinstance(node.func, ast.Attribute) else fname
                    if recv is sub and short == 'write':
                        forwarded.append(args[0] if len(args) == 1 else None)
                        return not (refuse_first and len(forwarded) == 1)
                    return AX.NOT_HANDLED
                ex = AX.Explorer(p, mod, on_call=on_call, max_choices=1)
                ex.cls = c.name
                ex._script, ex._pos, ex.steps, ex.depth = [], 0, 0, 0
                ex.run = AX.Run()
                ex.call_fd(init, [selfv, sub, bound])
                n += 1
                taken = 0
                for i, r in enumerate(recs):
                    before = len(forwarded)
                    got = ex.call_fd(wr, [selfv, r])
                    if isinstance(got, AX.Abs):
                        return None
                    what = 'TOP {}: write() of record {}'.format('without bound' if bound is None else bound, i + 1)
                    if refuse_first:
                        # python: the receiver's refusal is handed on and the record is not counted; JS sinks never refuse (allow-listed)
                        if port == 'py' and i == 0 and (got is not False or len(forwarded) != 1):
                            res['verdict'] = res['verdict'] or '{}: the next writer refuses the record but write() returns {!r}'.format(what, got)
                        if port == 'py' and i > 0 and i <= 2 and len(forwarded) != before + 1:
                            res['count'] = res['count'] or '{}: a record that the next writer refused was counted as emitted (the bound is reached one record early)'.format(what)
                        continue
                    if bound is None or taken < bound:
                        if len(forwarded) != before + 1 or forwarded[-1] is not r:
                            res['refusal'] = res['refusal'] or '{}: the record is within the bound but is not forwarded (once, unchanged)'.format(what)
                            break
                        taken += 1
                        if got is not True:
                            res['verdict'] = res['verdict'] or '{}: the record was forwarded and accepted but write() returns {!r}: the caller is told to stop together with a permitted record'.format(what, got)
                    else:
                        if len(forwarded) != before:
                            res['order' if taken == bound else 'refusal'] = res['refusal'] or '{}: the bound is reached but the record is still forwarded'.format(what)
                            break
                        if got is not False:
                            res['refusal'] = res['refusal'] or '{}: the bound is reached but write() returns {!r} instead of False'.format(what, got)
    except (Undecided, AX.Cut, AX._NeedChoice, AX.Raised, KeyError, IndexError, TypeError, AttributeError) as e_:
        import os
        if os.environ.get('RBQL_VERIF_DEBUG'):
            print('top model gave up:', type(e_).__name__, e_)
        return None
    res['__n__'] = n
    return res


def rule_wr_top(cx, rep, port):
    p, mod, chain, sinks = _roles(cx, port)
    tops = [c for c in chain if roles.writer_kind(c) == 'top']
    if len(tops) != 1:
        raise Undecided('TOP writer (chain writer with a top_count attribute) not found', (p.files[mod], 0))
    c = tops[0]
    fd = roles.methods(c)['write']
    mres = _top_model(cx, port, p, mod, c)
    if mres is not None:
        good = {'refusal': 'forwards exactly the first N records and refuses (False, nothing forwarded) from then on', 'verdict': 'a forwarded record is reported as taken (or with the receiver\'s verdict)',
                'order': 'the bound is tested before forwarding', 'count': 'only forwarded' + (' and accepted' if port == 'py' else '') + ' records count towards the bound'}
        for k_ in ('refusal', 'verdict', 'order', 'count'):
            rep.decide(mres[k_] is None, _key(c, 'write') + ' ' + k_, fd, good[k_] + ' ({} scenarios evaluated)'.format(mres['__n__']), mres[k_] or '')
        if port == 'js' and getattr(fd, 'is_async', False):
            # the model runs one write at a time; an asynchronous write() that counts the record *before* the downstream write has settled
            # lets writes that are in flight together (an UNNEST list written with Promise.all) pass the bound test with a stale count
            g = cfgmod.CFG(fd)
            inits = [n.targets[0].attr for n in walk_no_nested(roles.methods(c)['__init__']) if isinstance(n, ast.Assign) and isinstance(n.targets[0], ast.Attribute) and isinstance(n.value, ast.Constant) and n.value.value == 0 and dotted(n.targets[0].value) == 'self']
            wrs = [n for n in g.nodes if n.kind in ('stmt', 'test') and cfgmod.node_contains(n, lambda x: isinstance(x, ast.Call) and call_name(x) == 'self.subwriter.write')]
            incs = [n for n in g.nodes if n.kind == 'stmt' and any(_attr_increment(n.ast, a_) is not None for a_ in inits)]
            if len(wrs) == 1 and len(incs) == 1:
                dom = g.dominators()
                # ... which matters only when the engine lets writes overlap: a Promise.all / allSettled over calls that reach the writer
                overlap = [x for x in ast.walk(p.modules[mod]) if isinstance(x, ast.Call) and (dotted(x.func) or '') in ('Promise.all', 'Promise.allSettled', 'Promise.race')
                           and any(isinstance(y, ast.Call) and ((call_name(y) or '').endswith('.write') or (call_name(y) or '').split('.')[-1] in ('select_simple', 'select_unnested', 'select_aggregated')) for a_ in x.args for y in ast.walk(getattr(a_, 'js_function_ref', a_)))]
                overlap += [x for x in ast.walk(p.modules[mod]) if isinstance(x, ast.Call) and isinstance(x.func, ast.Attribute) and x.func.attr in ('map', 'forEach') and dotted(getattr(getattr(x, 'parent', None), 'func', None) or ast.Name(id='', ctx=ast.Load())) in ('Promise.all', 'Promise.allSettled')]
                rep.decide(g.dominates(wrs[0], incs[0], dom) or not overlap, _key(c, 'write') + ' count order', incs[0].ast, 'the record is counted after the downstream write has settled', 'the record is counted before the downstream write is awaited: writes in flight together see a stale count and the bound can be exceeded or reached early')
        return
    with rep.as_fallback('TopWriter is outside the abstract interpreter'):
        _rule_wr_top_shape(cx, rep, port, p, mod, c, fd)


def _rule_wr_top_shape(cx, rep, port, p, mod, c, fd):
    g = cfgmod.CFG(fd)
    counter = None
    init = roles.methods(c)['__init__']
    for n in walk_no_nested(init):
        if isinstance(n, ast.Assign) and isinstance(n.targets[0], ast.Attribute) and isinstance(n.value, ast.Constant) and n.value.value == 0 and dotted(n.targets[0].value) == 'self':
            counter = n.targets[0].attr
    if counter is None:
        raise Undecided('TOP writer has no counter initialised to 0', init)
    # the refusal test
    tests = [n for n in g.nodes if n.kind == 'test' and ('self.' + counter) in _dotted_in(n.ast) and 'self.top_count' in _dotted_in(n.ast)]
    is_wr0 = lambda n: n.kind in ('stmt', 'test') and cfgmod.node_contains(n, lambda x: isinstance(x, ast.Call) and call_name(x) == 'self.subwriter.write')  # noqa: E731
    wrs0 = [n for n in g.nodes if is_wr0(n)]
    dom0 = g.dominators()
    guarding = [t_ for t_ in tests if wrs0 and all(g.dominates(t_, w_, dom0) for w_ in wrs0)]
    if not guarding:
        rep.violated(_key(c, 'write') + ' refusal', wrs0[0].ast if wrs0 else fd, 'the record is forwarded without first testing the emitted-record counter against the bound: TOP 0 (or a bound already reached) still emits a record')
        return
    if len(tests) != 1:
        raise Undecided('TOP writer: refusal test comparing self.{} with self.top_count not found'.format(counter), fd)
    t = tests[0]
    cmp_ = _find_cmp(t.ast, 'self.' + counter, 'self.top_count')
    if cmp_ is None:
        raise Undecided('TOP writer: comparison shape not recognised: `{}`'.format(node_text(t.ast)), t.ast)
    op = cmp_
    if op in ('>=', '=='):
        ok_cmp = True
    else:
        ok_cmp = False
    # on every path on which the refusal test holds: False is returned and nothing was forwarded (decided on path summaries, so a
    # single-exit layout with a result variable is the same as an early return)
    from .. import pathsem
    ps = pathsem.paths(fd)
    refuses = None
    if ps is not None:
        refuses = True
        seen_refusal = False
        for q in ps:
            holds_test = any(pol and ast.dump(atom) == ast.dump(t.ast) for atom, pol in q.conds) or any((not pol) and negated(t.ast) is not None and ast.dump(atom) == ast.dump(negated(t.ast)) for atom, pol in q.conds)
            if not holds_test:
                continue
            seen_refusal = True
            fwd = any(isinstance(x, ast.Call) and call_name(x) == 'self.subwriter.write' for e in list(q.env.values()) + q.calls + ([q.value] if q.value is not None else []) for x in ast.walk(e))
            if q.kind != 'return' or fwd or not (q.value is not None and is_false(q.value)):
                refuses = False
        refuses = refuses and seen_refusal
    if refuses is None:
        tsucc = [s for s, lab in t.succ if lab == 'T']
        refuses = tsucc and all(isinstance(s.ast, ast.Return) and s.ast.value is not None and is_false(s.ast.value) for s in tsucc)
    if not ok_cmp:
        rep.violated(_key(c, 'write') + ' refusal', t.ast, 'records are refused when `{}`: with `{}` the bound is off (TOP N must emit exactly the first N records, N=0 none)'.format(node_text(t.ast), op))
    elif not refuses:
        rep.violated(_key(c, 'write') + ' refusal', t.ast, 'reaching the bound does not return False without forwarding')
    else:
        rep.holds(_key(c, 'write') + ' refusal', t.ast, 'refuses (returns False, nothing forwarded) iff NW >= top_count')
    # a record that was forwarded is reported as taken: the verdict after forwarding is True or the receiver's own verdict - telling the
    # caller "stop" together with the last permitted record ends the query one record early (what the next record would have
    # raised - a STRICT LEFT JOIN miss, a bad field - is never evaluated, while the reference port evaluates it)
    if ps is not None:
        early = None
        for q in ps:
            if q.kind != 'return' or q.value is None:
                continue
            fwd = any(isinstance(x, ast.Call) and call_name(x) == 'self.subwriter.write' for e in list(q.env.values()) + q.calls + [q.value] + [t_ for t_, _ in q.conds] for x in ast.walk(e))
            if not fwd:
                continue
            v = q.value
            if is_false(v) and any(isinstance(x, ast.Call) and call_name(x) == 'self.subwriter.write' for t_, _ in q.conds for x in ast.walk(t_)):
                continue      # the receiver's refusal handed on
            if ('self.' + counter) in _dotted_in(v) or 'self.top_count' in _dotted_in(v):
                early = (q, v)
        if early:
            rep.violated(_key(c, 'write') + ' verdict', early[0].node, 'after forwarding a record write() returns `{}`: the caller is told to stop together with the last permitted record, one record earlier than the bound test at the top of write() would'.format(node_text(early[1], 60)))
        else:
            rep.holds(_key(c, 'write') + ' verdict', fd, 'a forwarded record is reported as taken (or with the receiver\'s verdict)')
    # the test must come first: no forwarding before it
    is_wr = lambda n: n.kind in ('stmt', 'test') and cfgmod.node_contains(n, lambda x: isinstance(x, ast.Call) and call_name(x) == 'self.subwriter.write')  # noqa: E731
    wrs = [n for n in g.nodes if is_wr(n)]
    dom = g.dominators()
    rep.decide(bool(wrs) and all(g.dominates(t, w_, dom) for w_ in wrs), _key(c, 'write') + ' order', fd, 'the bound is tested before forwarding', 'a record is forwarded before the bound is tested')
    # counting
    incs = [n for n in g.nodes if n.kind == 'stmt' and _attr_increment(n.ast, counter) is not None]
    if len(incs) != 1 or _attr_increment(incs[0].ast, counter) != 1:
        rep.violated(_key(c, 'write') + ' count', incs[0].ast if incs else fd, 'the emitted-record counter is not incremented by exactly one per forwarded record ({} increments)'.format(len(incs)))
    else:
        inc = incs[0]
        after_write = wrs and all(g.dominates(w_, inc, dom) for w_ in wrs)
        # python: only accepted records are counted (increment guarded by the verdict)
        guarded = True
        if port == 'py':
            guard = [n for n in g.nodes if n.kind == 'test' and g.dominates(n, inc, dom) and n is not t]
            guarded = bool(guard)
        if not after_write:
            rep.violated(_key(c, 'write') + ' count', inc.ast, 'the counter is incremented before/without forwarding the record')
        elif not guarded:
            rep.violated(_key(c, 'write') + ' count', inc.ast, 'records refused downstream are counted as emitted')
        else:
            rep.holds(_key(c, 'write') + ' count', inc.ast, 'counter +1 per forwarded' + (' and accepted' if port == 'py' else '') + ' record')


def _dotted_in(e):
    out = set()
    for n in ast.walk(e):
        d = dotted(n)
        if d:
            out.add(d)
    return out


def _find_cmp(e, a, b):
    """operator string of the comparison `a OP b` (normalised so that a is on the left)"""
    for n in ast.walk(e):
        if isinstance(n, ast.Compare) and len(n.ops) == 1:
            l, r = dotted(n.left), dotted(n.comparators[0])
            ops = {ast.Gt: '>', ast.GtE: '>=', ast.Lt: '<', ast.LtE: '<=', ast.Eq: '==', ast.NotEq: '!='}
            flip = {'>': '<', '>=': '<=', '<': '>', '<=': '>=', '==': '==', '!=': '!='}
            o = ops.get(type(n.ops[0]))
            if o is None:
                continue
            if l == a and r == b:
                return o
            if l == b and r == a:
                return flip[o]
    return None


def _attr_increment(st, attr):
    if isinstance(st, ast.AugAssign) and isinstance(st.target, ast.Attribute) and st.target.attr == attr and isinstance(st.op, ast.Add) and isinstance(st.value, ast.Constant):
        return st.value.value
    if isinstance(st, ast.Assign) and len(st.targets) == 1 and isinstance(st.targets[0], ast.Attribute) and st.targets[0].attr == attr and isinstance(st.value, ast.BinOp) and isinstance(st.value.op, ast.Add) and isinstance(st.value.right, ast.Constant) and dotted(st.value.left) == 'self.' + attr:
        return st.value.right.value
    return None


def _image_call(e, rec):
    """tuple(rec) / JSON.stringify(rec): the immutable image used as set/map key"""
    return isinstance(e, ast.Call) and dotted(e.func) in ('tuple', 'JSON.stringify', 'frozenset_NOT') and len(e.args) == 1 and is_name(e.args[0], rec)


def _add_to_set_is_insert_if_absent(p, mod):
    fd = p.func(mod, 'add_to_set', required=False)
    if fd is None:
        return False
    params = [a.arg for a in fd.args.args]
    if len(params) != 2:
        return False
    body = [s for s in fd.body]
    # len_before = len(s); s.add(v); return len_before != len(s)
    adds = [c for c in ast.walk(fd) if isinstance(c, ast.Call) and isinstance(c.func, ast.Attribute) and c.func.attr == 'add' and is_name(c.func.value, params[0]) and c.args and is_name(c.args[0], params[1])]
    rets = [s for s in body if isinstance(s, ast.Return)]
    if len(adds) != 1 or len(rets) != 1:
        return False
    r = rets[0].value
    if not (isinstance(r, ast.Compare) and isinstance(r.ops[0], ast.NotEq)):
        return False
    return True


def _len_before_after(e, fd):
    """`n == len(self.seen)` where n = len(self.seen) was taken before the one `self.seen.add(K)` that precedes the test: returns K"""
    def is_len_seen(x):
        return isinstance(x, ast.Call) and dotted(x.func) == 'len' and x.args and dotted(x.args[0]) == 'self.seen'
    sides = [e.left, e.comparators[0]]
    names = [x for x in sides if isinstance(x, ast.Name)]
    if len(names) != 1 or not any(is_len_seen(x) for x in sides):
        return None
    defs = [n for n in walk_no_nested(fd) if isinstance(n, ast.Assign) and is_name(n.targets[0], names[0].id)]
    adds = [c for c in walk_no_nested(fd) if isinstance(c, ast.Call) and isinstance(c.func, ast.Attribute) and c.func.attr == 'add' and dotted(c.func.value) == 'self.seen' and len(c.args) == 1]
    if len(defs) != 1 or len(adds) != 1 or not is_len_seen(defs[0].value):
        return None
    if not (defs[0].pos < adds[0].pos <= e.pos):
        return None
    return adds[0].args[0]


def _uniq_model(cx, port, p, mod, c):
    """the DISTINCT writer evaluated on the record sequence A, B, A' (A' a different record object with the content of A), B' with an
    abstract downstream writer, for every pattern of downstream verdicts: (problem text or None, number of scenarios); None when the
    constructor or write() is outside the abstract interpreter"""
    import json as _json
    from .. import absexec as AX
    ms = roles.methods(c)
    init, wr = ms.get('__init__'), ms.get('write')
    if init is None or wr is None:
        return None
    n = 0
    used_hash = []
    seqs = [(['x', '1'], ['x', '2'], ['x', '1'], ['x', '2']), (['k'], ['k'], ['m'], ['k']), ([], ['', ''], [], [''])]
    try:
        for seq in seqs:
            firsts = [i for i, r in enumerate(seq) if r not in seq[:i]]
            for refuse_at in [None] + list(range(len(firsts))):
                selfv, sub = AX.Abs('Self'), AX.Abs('Sub')
                recs = [list(r) for r in seq]
                forwarded = []

                def on_call(ex, node, fname, recv, args):
                    short = node.func.attr if isinstance(node.func, ast.Attribute) else fname
                    if recv is sub and short == 'write':
                        forwarded.append(args[0] if len(args) == 1 else None)
                        return not (refuse_at is not None and len(forwarded) - 1 == refuse_at)
                    if fname == 'JSON.stringify' and len(args) == 1 and isinstance(args[0], (list, tuple)) and all(isinstance(x, str) for x in args[0]):
                        return _json.dumps(list(args[0]))
                    if fname == 'hash' and len(args) == 1:
                        used_hash.append(1)
                        return 0         # hash() may give two different values the same number: the model takes a hash function that always does
                    return AX.NOT_HANDLED
                ex = AX.Explorer(p, mod, on_call=on_call, max_choices=1)
                ex.cls = c.name
                ex._script, ex._pos, ex.steps, ex.depth = [], 0, 0, 0
                ex.run = AX.Run()
                extra = [AX.Abs('Arg%d' % i_) for i_ in range(len(init.args.args) - 2)]
                ex.call_fd(init, [selfv, sub] + extra)
                n += 1
                want_fw = []
                for i, r in enumerate(recs):
                    is_first = i in firsts
                    before = len(forwarded)
                    got = ex.call_fd(wr, [selfv, r])
                    if isinstance(got, AX.Abs):
                        return None
                    what = 'write() of record {} of the sequence {}'.format(i + 1, [','.join(x) for x in seq])
                    if r != list(seq[i]):
                        return 'DISTINCT modifies the record it is given ({})'.format(what), n
                    if is_first:
                        if len(forwarded) != before + 1 or forwarded[-1] is not r:
                            return '{}: a first occurrence is not forwarded (unchanged, once) to the next writer{}'.format(what, ' - records are told apart by hash() only, and different records can have the same hash' if used_hash else ''), n
                        refused = refuse_at is not None and len(forwarded) - 1 == refuse_at
                        if bool(got) != (not refused) or not isinstance(got, bool):
                            return '{}: the next writer {} the record but DISTINCT returns {!r}'.format(what, 'refused' if refused else 'accepted', got), n
                        if refused:
                            break
                    else:
                        if len(forwarded) != before:
                            return '{}: a record whose content was already seen is forwarded again'.format(what), n
                        if got is not True:
                            return '{}: a repeated record makes write() return {!r} instead of True (duplicates are skipped without stopping the query)'.format(what, got), n
    except (Undecided, AX.Cut, AX._NeedChoice, AX.Raised, KeyError, IndexError, TypeError, AttributeError) as e_:
        import os
        if os.environ.get('RBQL_VERIF_DEBUG'):
            print('uniq model gave up:', type(e_).__name__, e_)
        return None
    return None if n == 0 else (None, n)


def rule_wr_uniq(cx, rep, port):
    p, mod, chain, sinks = _roles(cx, port)
    uniq = [c for c in chain if roles.writer_kind(c) == 'uniq']
    if len(uniq) != 1:
        raise Undecided('DISTINCT writer (chain writer with a `seen` set) not found', (p.files[mod], 0))
    c = uniq[0]
    fd = roles.methods(c)['write']
    mres = _uniq_model(cx, port, p, mod, c)
    if mres is not None:
        rep.decide(mres[0] is None, _key(c, 'write'), fd, 'forwards exactly the first occurrence of each record content and passes the downstream verdict on; repeated records return True ({} scenarios evaluated)'.format(mres[1]), mres[0] or '')
        return
    with rep.as_fallback('UniqWriter is outside the abstract interpreter'):
        _rule_wr_uniq_shape(cx, rep, port, p, mod, c, fd)


def _rule_wr_uniq_shape(cx, rep, port, p, mod, c, fd):
    rec = fd.args.args[1].arg
    g = cfgmod.CFG(fd)
    wrs = [n for n in g.nodes if n.kind in ('stmt', 'test') and cfgmod.node_contains(n, lambda x: isinstance(x, ast.Call) and call_name(x) == 'self.subwriter.write')]
    if len(wrs) != 1:
        rep.violated(_key(c, 'write'), fd, 'DISTINCT forwards at {} places'.format(len(wrs)))
        return
    wcall = [x for x in walk_no_nested(cfgmod.simple_header(wrs[0])) if isinstance(x, ast.Call) and call_name(x) == 'self.subwriter.write'][0]
    if not (len(wcall.args) == 1 and is_name(wcall.args[0], rec)):
        rep.violated(_key(c, 'write'), wcall, 'DISTINCT forwards `{}` instead of the record it received'.format(node_text(wcall)))
        return
    # a record judged a duplicate by comparison with one remembered record (the previous one) instead of membership in the set of all
    # records seen: only adjacent duplicates are found, and output is ordered by the sort key, not by the whole record
    from .. import pathsem as _ps
    wps = _ps.paths(fd)
    if wps is not None:
        for q in wps:
            if q.kind != 'return' or not (q.value is not None and is_true(q.value)):
                continue
            if any(isinstance(x, ast.Call) and call_name(x) == 'self.subwriter.write' for e in q.calls + [t_ for t_, _ in q.conds] for x in ast.walk(e)):
                continue
            for atom, pol in _ps.atoms(q.conds):
                if pol and isinstance(atom, ast.Compare) and len(atom.ops) == 1 and isinstance(atom.ops[0], (ast.Eq, ast.Is)):
                    sides = [atom.left, atom.comparators[0]]
                    mem = [x for x in sides if (dotted(x) or '').startswith('self.') and dotted(x) != 'self.seen']
                    keyside = [x for x in sides if rec in names_in(x)]
                    if mem and keyside:
                        attr_ = dotted(mem[0])
                        overwritten = any(dotted(t_) == attr_ and rec in names_in(v_) for q2 in wps for t_, v_ in q2.stores)
                        if overwritten:
                            rep.violated(_key(c, 'write'), atom, 'a record is dropped as a duplicate when it equals `{}`, the one record remembered from the previous call: duplicates that are not adjacent survive DISTINCT (records arrive ordered by the sort key at most, not by their whole content)'.format(attr_))
                            return
    # membership test on the immutable image
    tests = [n for n in g.nodes if n.kind == 'test' and 'self.seen' in _dotted_in(n.ast)]
    if len(tests) != 1:
        rep.undecided(_key(c, 'write'), fd, 'membership test on self.seen not recognised')
        return
    t = tests[0]
    e = t.ast
    neg = False
    if negated(e) is not None:
        neg, e = True, negated(e)
    is_new_when_true = None
    keyexpr = None
    if isinstance(e, ast.Call) and call_name(e) == 'add_to_set' and len(e.args) == 2 and dotted(e.args[0]) == 'self.seen':
        if not _add_to_set_is_insert_if_absent(p, mod):
            rep.violated(_key(c, 'write'), e, 'add_to_set no longer reports "newly inserted" (len before != len after)')
            return
        is_new_when_true = True
        keyexpr = e.args[1]
    elif isinstance(e, ast.Compare) and len(e.ops) == 1 and isinstance(e.ops[0], (ast.In, ast.NotIn)) and dotted(e.comparators[0]) == 'self.seen':
        is_new_when_true = isinstance(e.ops[0], ast.NotIn)
        keyexpr = e.left
    elif isinstance(e, ast.Call) and isinstance(e.func, ast.Attribute) and e.func.attr == 'has' and dotted(e.func.value) == 'self.seen':
        is_new_when_true = False
        keyexpr = e.args[0]
    elif isinstance(e, ast.Compare) and len(e.ops) == 1 and isinstance(e.ops[0], (ast.Eq, ast.NotEq)) and _len_before_after(e, fd) is not None:
        # size before == size after the insertion: the set did not grow, the record was there already (add_to_set inlined)
        keyexpr = _len_before_after(e, fd)
        is_new_when_true = isinstance(e.ops[0], ast.NotEq)
    else:
        rep.undecided(_key(c, 'write'), e, 'membership idiom not recognised: `{}`'.format(node_text(e)))
        return
    if neg:
        is_new_when_true = not is_new_when_true
    # key must be the immutable image of the whole record
    kdef = keyexpr
    if isinstance(keyexpr, ast.Name):
        defs = [n for n in walk_no_nested(fd) if isinstance(n, ast.Assign) and is_name(n.targets[0], keyexpr.id)]
        kdef = defs[0].value if len(defs) == 1 else None
    if kdef is None or not _image_call(kdef, rec):
        rep.violated(_key(c, 'write'), t.ast, 'the distinctness key `{}` is not the immutable image of the whole record'.format(node_text(kdef if kdef is not None else keyexpr)))
        return
    seen_lab = 'F' if is_new_when_true else 'T'
    new_lab = 'T' if is_new_when_true else 'F'
    seen_succ = [s for s, lab in t.succ if lab == seen_lab]
    ok_seen = seen_succ and all(isinstance(s.ast, ast.Return) and s.ast.value is not None and is_true(s.ast.value) for s in seen_succ)
    new_succ = [s for s, lab in t.succ if lab == new_lab]
    fwd = new_succ and all(s is wrs[0] or g.exists_path(s, lambda n: n is wrs[0], include_src=True) for s in new_succ) and not any(g.exists_path(s, lambda n: n is wrs[0], include_src=True) for s in seen_succ)
    if not ok_seen:
        rep.violated(_key(c, 'write'), t.ast, 'a record already seen does not simply return True (duplicates must be skipped without stopping the query)')
    elif not fwd:
        rep.violated(_key(c, 'write'), t.ast, 'first occurrences are not forwarded / repeated ones are')
    else:
        rep.holds(_key(c, 'write'), t.ast, 'forward iff the immutable image of the record was not yet in the seen-set (insert-if-absent); duplicates return True')


def _ucnt_model(cx, port, p, mod, c):
    """the DISTINCT COUNT writer evaluated on the records A, B, A', B', A'' (equal content, different objects) and an empty record, then
    finish(), with a downstream writer that accepts everything / refuses the first record: {obligation: problem or None}; None when
    outside the abstract interpreter"""
    import json as _json
    from .. import absexec as AX
    ms = roles.methods(c)
    init, wr, fin = ms.get('__init__'), ms.get('write'), ms.get('finish')
    if init is None or wr is None or fin is None or len(init.args.args) < 2 or len(wr.args.args) != 2:
        return None
    res = {'buffering': None, 'counting': None, 'key': None, 'order': None, 'prefix': None}
    n = 0
    OPAQUE = AX.Abs('Value', id='v', distinct=True)
    # further constructor parameters (a limit, a flag ...) are tried with "absent" and with 1
    import itertools
    extra_sets = list(itertools.product(*[[None, 1] for _ in init.args.args[2:]]))[:4]
    scenarios = [(False, (['x', '1'], ['x', '2'], ['x', '1'], ['x', '2'], ['x', '1'], [], ['x']), [[3, 'x', '1'], [2, 'x', '2'], [1], [1, 'x']]),
                 (True, (['x', '1'], ['x', '2'], ['x', '1']), None),
                 (False, ([5], [3], [5], ['5']), [[2, 5], [1, 3], [1, '5']]),        # lone numeric columns (what numbers do as keys of the buffer)
                 (False, ([OPAQUE, 'a'], [OPAQUE, 'a'], ['b', OPAQUE]), [[2, OPAQUE, 'a'], [1, 'b', OPAQUE]])]   # a value only the record itself carries (a date, NaN ...)
    try:
        for (refuse_first, seq, want), extra in itertools.product(scenarios, extra_sets):
            selfv, sub = AX.Abs('Self'), AX.Abs('Sub')
            forwarded, events = [], []

            def on_call(ex, node, fname, recv, args):
                short = node.func.attr if isinstance(node.func, ast.Attribute) else fname
                if recv is sub and short == 'write':
                    forwarded.append(list(args[0]) if len(args) == 1 and isinstance(args[0], (list, tuple)) else args)
                    events.append('write')
                    return not (refuse_first and len(forwarded) == 1)
                if recv is sub and short == 'finish':
                    events.append('finish')
                    return None
                if fname == 'JSON.stringify' and len(args) == 1 and isinstance(args[0], (list, tuple)) and all(isinstance(x, (str, int)) or x is OPAQUE for x in args[0]):
                    return _json.dumps(['\x00opaque' if x is OPAQUE else x for x in args[0]])      # the text form of the opaque value: not the value
                if fname == 'JSON.parse' and len(args) == 1 and isinstance(args[0], str):
                    return _json.loads(args[0])
                if short == 'iteritems6' and len(args) == 1 and isinstance(args[0], dict):
                    return list(args[0].items())
                if fname == 'OrderedDict' and not args:
                    return {}
                return AX.NOT_HANDLED
            ex = AX.Explorer(p, mod, on_call=on_call, max_choices=1)
            ex.cls = c.name
            ex._script, ex._pos, ex.steps, ex.depth = [], 0, 0, 0
            ex.run = AX.Run()
            ex.call_fd(init, [selfv, sub] + list(extra))
            n += 1
            for i, r in enumerate(seq):
                got = ex.call_fd(wr, [selfv, list(r)])
                if events:
                    res['buffering'] = res['buffering'] or 'write() of record {} forwards / finishes downstream: the counting writer must only buffer until finish()'.format(i + 1)
                if got is not True:
                    res['buffering'] = res['buffering'] or 'write() of record {} returns {!r} instead of True{}'.format(i + 1, got, ' (constructor arguments {})'.format(list(extra)) if any(x is not None for x in extra) else '')
            if res['buffering']:
                break
            ex.steps, ex.depth = 0, 0
            ex.call_fd(fin, [selfv])
            if events.count('finish') != 1 or events[-1] != 'finish':
                res['order'] = res['order'] or 'finish() does not finish the next writer exactly once, after the last record (events: {})'.format(' '.join(events))
                continue
            if refuse_first:
                if len(forwarded) != 1:
                    res['order'] = res['order'] or 'the next writer refused the first counted record but {} record(s) were written to it'.format(len(forwarded))
                continue
            if len(forwarded) == len(want) and all(isinstance(f_, list) and len(f_) == len(w_) and all((a_ is b_) if isinstance(b_, AX.Abs) else (not isinstance(a_, AX.Abs) and a_ == b_) for a_, b_ in zip(f_, w_)) for f_, w_ in zip(forwarded, want)):
                continue
            if any(x is OPAQUE for r_ in seq for x in r_) and not res['key']:
                res['key'] = 'a record with a value that only the record itself carries (a date, NaN, an object) is emitted as {!r}: the counting writer rebuilds records from their key text instead of keeping the first occurrence'.format([['<value>' if x is OPAQUE else x for x in f_] if isinstance(f_, list) else f_ for f_ in forwarded])
                continue
            got_recs = [f_[1:] if isinstance(f_, list) and f_ and isinstance(f_[0], int) else f_ for f_ in forwarded]
            if sorted(map(repr, forwarded)) == sorted(map(repr, want)):
                res['order'] = res['order'] or 'counted records are emitted in the order {} instead of first-occurrence order {}'.format(forwarded, want)
            elif [f_[1:] for f_ in want] == got_recs:
                res['counting'] = res['counting'] or 'after the records {} the multiplicities emitted are {} instead of {}'.format([','.join(map(str, x)) for x in seq], [f_[0] for f_ in forwarded], [f_[0] for f_ in want])
            elif all(isinstance(f_, list) and f_ and isinstance(f_[-1], int) for f_ in forwarded) or any(isinstance(f_, list) and not (f_ and isinstance(f_[0], int)) for f_ in forwarded):
                res['prefix'] = res['prefix'] or 'the multiplicity is not emitted as the first field: {}'.format(forwarded)
            else:
                res['key'] = res['key'] or 'after the records {} the counting writer emits {} instead of {}: records are not grouped by their whole content'.format([','.join(map(str, x)) for x in seq], forwarded, want)
    except (Undecided, AX.Cut, AX._NeedChoice, AX.Raised, KeyError, IndexError, TypeError, AttributeError, ValueError) as e_:
        import os
        if os.environ.get('RBQL_VERIF_DEBUG'):
            print('ucnt model gave up:', type(e_).__name__, e_)
        return None
    res['__n__'] = n
    return res


def rule_wr_ucnt(cx, rep, port):
    p, mod, chain, sinks = _roles(cx, port)
    cands = [c for c in chain if roles.writer_kind(c) == 'ucnt']
    if len(cands) != 1:
        raise Undecided('DISTINCT COUNT writer (chain writer with a `records` map) not found', (p.files[mod], 0))
    c = cands[0]
    ms = roles.methods(c)
    init = ms['__init__']
    mres = _ucnt_model(cx, port, p, mod, c)
    if mres is not None:
        good = {'buffering': 'write() only buffers and returns True', 'counting': 'multiplicity starts at 1 and grows by 1 per repeated record', 'key': 'records are grouped by their whole content',
                'order': 'finish() emits in first-occurrence order, stops when refused, then finishes the next writer once', 'prefix': 'the multiplicity is put in front of the record'}
        wr_, fin_ = ms['write'], ms['finish']
        rep.decide(mres['order'] is None or 'first-occurrence' not in (mres['order'] or ''), _key(c, '__init__'), init, 'the buffer keeps first-occurrence order', mres['order'] or '')
        for k_, where in (('buffering', wr_), ('counting', wr_), ('key', wr_)):
            rep.decide(mres[k_] is None, _key(c, 'write') + ' ' + k_, where, good[k_] + ' (7 records, then finish; evaluated with an accepting and a refusing next writer)', mres[k_] or '')
        for k_, where in (('order', fin_), ('prefix', fin_)):
            rep.decide(mres[k_] is None, _key(c, 'finish') + ' ' + k_, where, good[k_], mres[k_] or '')
        return
    with rep.as_fallback('UniqCountWriter is outside the abstract interpreter'):
        _rule_wr_ucnt_shape(cx, rep, port, p, mod, c, ms, init)


def _rule_wr_ucnt_shape(cx, rep, port, p, mod, c, ms, init):
    ctor = None
    for n in walk_no_nested(init):
        if isinstance(n, ast.Assign) and dotted(n.targets[0]) == 'self.records':
            ctor = n.value
    ordered = isinstance(ctor, ast.Call) and dotted(ctor.func) in ('OrderedDict', 'collections.OrderedDict', 'dict', 'Map') or isinstance(ctor, ast.Dict)
    rep.decide(ordered, _key(c, '__init__'), ctor if ctor is not None else init, 'records is an insertion-ordered map', '`{}` is not an insertion-ordered map: first-occurrence order is lost'.format(node_text(ctor)))
    wr = ms['write']
    rec = wr.args.args[1].arg
    # write: always returns True, never forwards
    g = cfgmod.CFG(wr)
    rets = [x.ast for x, lab in g.exit.pred if lab == 'return']
    all_true = rets and all(r.value is not None and is_true(r.value) for r in rets) and not [1 for x, lab in g.exit.pred if lab != 'return']
    rep.decide(all_true and not _subwrite_calls(wr), _key(c, 'write') + ' buffering', wr, 'write() only buffers and returns True', 'write() of the counting writer forwards or refuses records')
    # counting: +1 on a present key, =1 (or [1, record]) on an absent key
    incs = [n for n in walk_no_nested(wr) if isinstance(n, ast.AugAssign) and isinstance(n.op, ast.Add) and isinstance(n.value, ast.Constant) and n.value.value == 1]
    inits = []
    for n in walk_no_nested(wr):
        if isinstance(n, ast.Assign) and isinstance(n.targets[0], ast.Subscript) and dotted(n.targets[0].value) == 'self.records':
            inits.append(n.value)
        if isinstance(n, ast.Call) and isinstance(n.func, ast.Attribute) and n.func.attr == 'set' and dotted(n.func.value) == 'self.records' and len(n.args) == 2:
            inits.append(n.args[1])
    init_one = [v for v in inits if (isinstance(v, ast.Constant) and v.value == 1) or (isinstance(v, ast.List) and v.elts and isinstance(v.elts[0], ast.Constant) and v.elts[0].value == 1)]
    # the one-statement form: records[k] = records.get(k, 0) + 1   /   records.set(k, (records.get(k) || 0) + 1)
    def get_default_plus(v):
        """(default, increment) when v is `self.records.get(k, d) + n` (either operand order; JS `(get(k) || d) + n`)"""
        if not (isinstance(v, ast.BinOp) and isinstance(v.op, ast.Add)):
            return None
        for a, b in ((v.left, v.right), (v.right, v.left)):
            if isinstance(b, ast.Constant) and isinstance(b.value, int):
                g_ = a
                dflt = None
                if isinstance(g_, ast.BoolOp) and isinstance(g_.op, ast.Or) and len(g_.values) == 2 and isinstance(g_.values[1], ast.Constant):
                    g_, dflt = g_.values[0], g_.values[1].value
                if isinstance(g_, ast.Call) and isinstance(g_.func, ast.Attribute) and g_.func.attr == 'get' and dotted(g_.func.value) == 'self.records':
                    if len(g_.args) == 2 and isinstance(g_.args[1], ast.Constant):
                        dflt = g_.args[1].value
                    return dflt, b.value
        return None
    merged = [get_default_plus(v) for v in inits if get_default_plus(v) is not None]
    other_incs = [n for n in walk_no_nested(wr) if isinstance(n, ast.AugAssign) and isinstance(n.op, ast.Add) and isinstance(n.value, ast.Constant) and n.value.value != 1]
    other_inits = [v for v in inits if isinstance(v, ast.Constant) and v.value != 1]
    if len(incs) == 1 and len(init_one) == 1:
        rep.holds(_key(c, 'write') + ' counting', incs[0], 'multiplicity starts at 1 and is incremented by 1 per repeated record')
    elif len(merged) == 1 and not incs and merged[0] == (0, 1):
        rep.holds(_key(c, 'write') + ' counting', wr, 'multiplicity = previous multiplicity (0 when absent) + 1')
    elif merged and merged[0] != (0, 1):
        rep.violated(_key(c, 'write') + ' counting', wr, 'multiplicity is computed as get(key, {}) + {}: the count is off'.format(*merged[0]))
    elif other_incs or other_inits:
        rep.violated(_key(c, 'write') + ' counting', (other_incs or [wr])[0], 'multiplicity bookkeeping is not "1 on first occurrence, +1 on each repeat" (increment / initial value other than 1)')
    elif (len(incs) == 0) != (len(init_one) == 0):
        rep.violated(_key(c, 'write') + ' counting', wr, 'multiplicity bookkeeping is not "1 on first occurrence, +1 on each repeat" ({} increments, {} initialisations to 1)'.format(len(incs), len(init_one)))
    else:
        rep.undecided(_key(c, 'write') + ' counting', wr, 'multiplicity bookkeeping not recognised ({} increments, {} initialisations)'.format(len(incs), len(inits)))
    # key: immutable image of the record
    keys = [n.value for n in walk_no_nested(wr) if isinstance(n, ast.Assign) and isinstance(n.targets[0], ast.Name) and _image_call(n.value, rec)]
    rep.decide(bool(keys), _key(c, 'write') + ' key', wr, 'records are keyed by their immutable image', 'records are not keyed by the immutable image of the whole record')
    # finish: iterates the map in order and emits a count-prefixed fresh record
    fin = ms['finish']
    loops = [n for n in walk_no_nested(fin) if isinstance(n, ast.For)]
    ok_iter = False
    for lp in loops:
        it = lp.iter
        txt = node_text(it)
        if 'self.records' in _dotted_in(it) and not any(isinstance(x, ast.Call) and dotted(x.func) in ('sorted', 'reversed') for x in ast.walk(it)):
            ok_iter = True
    rep.decide(ok_iter, _key(c, 'finish') + ' order', fin, 'finish() iterates the map in insertion order', 'finish() does not iterate the map in insertion (first-occurrence) order')
    prefix = None
    for n in walk_no_nested(fin):
        if isinstance(n, ast.Call) and isinstance(n.func, ast.Attribute) and n.func.attr in ('insert', 'unshift'):
            if n.func.attr == 'insert' and len(n.args) == 2 and isinstance(n.args[0], ast.Constant) and n.args[0].value == 0:
                prefix = n
            if n.func.attr == 'unshift' and len(n.args) == 1:
                prefix = n
        if isinstance(n, ast.BinOp) and isinstance(n.op, ast.Add) and isinstance(n.left, ast.List) and len(n.left.elts) == 1:
            prefix = n
    rep.decide(prefix is not None, _key(c, 'finish') + ' prefix', prefix if prefix is not None else fin, 'the multiplicity is put in front of the record', 'the multiplicity is not emitted as the first field')


def _sort_model(cx, port, p, mod, c):
    """the ORDER BY writer evaluated on six entries (keys 2 1 2 1 3 1, text keys b B a, and - JS - two entries of one input record), ascending
    and descending, with a downstream writer that accepts everything / refuses the second record: problem text, or '' when everything
    agrees, or None when the writer is outside the abstract interpreter"""
    from .. import absexec as AX
    ms = roles.methods(c)
    init, wr, fin = ms.get('__init__'), ms.get('write'), ms.get('finish')
    if init is None or wr is None or fin is None or len(init.args.args) < 3:
        return None
    py = port == 'py'
    if len(wr.args.args) != (3 if py else 2):
        return None
    n = 0
    truncates = []
    try:
        import itertools
        extra_sets = list(itertools.product(*[[None, 2] for _ in init.args.args[3:]]))[:4]
        for keys in ([2, 1, 2, 1, 3, 1], ['b', 'B', 'a', 'B'], [(1, 'x'), (1, 'X'), (0, 'z')], [(1,), (1,), (0,), (1,)], [3, 2, 2, 1], [1, 2, 2, 3], [(1, 'b'), (1, 'a'), (2, 'a')], [5, 5]):
            for reverse in (False, True):
                for refuse_second, extra in itertools.product((False, True), extra_sets):
                    selfv, sub = AX.Abs('Self'), AX.Abs('Sub')
                    recs = [['rec', 'r%d' % (9 - i)] for i in range(len(keys))]    # records: distinct list objects whose texts run against arrival order
                    if keys == [5, 5]:
                        recs = [['rec', 'same'], ['rec', 'same']]                  # ... two of them with the same content
                    forwarded, events = [], []

                    def on_call(ex, node, fname, recv, args):
                        short = node.func.attr if isinstance(node.func, ast.Attribute) else fname
                        if recv is sub and short == 'write':
                            forwarded.append(args[0] if len(args) == 1 else None)
                            events.append('write')
                            return not (refuse_second and len(forwarded) == 2)
                        if recv is sub and short == 'finish':
                            events.append('finish')
                            return None
                        return AX.NOT_HANDLED
                    ex = AX.Explorer(p, mod, on_call=on_call, max_choices=1)
                    ex.cls = c.name
                    ex._script, ex._pos, ex.steps, ex.depth = [], 0, 0, 0
                    ex.run = AX.Run()
                    ex.call_fd(init, [selfv, sub, reverse] + list(extra))
                    n += 1
                    for i, (k, r) in enumerate(zip(keys, recs)):
                        kparts = list(k) if isinstance(k, tuple) else [k]
                        # the emitting side: python hands over (key, record); JS one entry [key components..., NR, record]; entries i and i+1 of
                        # the tuple-key scenario come from one input record (same NR), as join matches and UNNEST values do
                        got = ex.call_fd(wr, [selfv, (tuple(kparts) if isinstance(k, tuple) else k), r]) if py else ex.call_fd(wr, [selfv, kparts + [i if not isinstance(k, tuple) else 0, r]])
                        if events:
                            return 'write() of the ORDER BY writer forwards or finishes downstream before finish()'
                        if got is not True:
                            return 'write() of the ORDER BY writer returns {!r} instead of True'.format(got)
                    ex.steps, ex.depth = 0, 0
                    ex.call_fd(fin, [selfv])
                    asc = [recs[i] for i in sorted(range(len(keys)), key=lambda i: keys[i])]
                    want = list(reversed(asc)) if reverse else asc
                    if refuse_second:
                        want = want[:2]
                    bound = [x for x in extra if x is not None]
                    if bound and len(forwarded) < len(want) and not refuse_second:
                        # a further constructor argument set to 2 (a bound pushed down to the sorter) and the sorter keeps records back
                        if all(a is b for a, b in zip(forwarded, want)):
                            truncates.append(list(extra))
                            continue
                    what = 'ORDER BY{} over the keys {}{}{}'.format(' DESC' if reverse else '', keys, ', the next writer refusing the second record' if refuse_second else '', ' (constructor arguments {})'.format(list(extra)) if bound else '')
                    if events.count('finish') != 1 or events[-1] != 'finish':
                        return '{}: the next writer is not finished exactly once, after the last record'.format(what)
                    if len(forwarded) != len(want) or any(a is not b for a, b in zip(forwarded, want)):
                        def names(rs):
                            return [(x[1] if isinstance(x, (list, tuple)) and len(x) == 2 and x[0] == 'rec' else repr(x)) for x in rs]
                        return '{}: records are emitted in the order {} instead of {} (stable ascending order by key - code-point order for text - and its exact reverse for DESC)'.format(what, names(forwarded), names(want))
    except (Undecided, AX.Cut, AX._NeedChoice, AX.Raised, KeyError, IndexError, TypeError, AttributeError, ValueError) as e_:
        import os
        if os.environ.get('RBQL_VERIF_DEBUG'):
            print('sort model gave up:', type(e_).__name__, e_)
        return None
    if truncates:
        return 'UNDECIDED: constructed with the further argument(s) {} the ORDER BY writer emits only a prefix of the sorted records: whether every configuration that passes such a bound can afford it (a DISTINCT stage behind the sorter cannot) is not analysed'.format(truncates[0])
    return ''


def rule_wr_sort(cx, rep, port):
    p, mod, chain, sinks = _roles(cx, port)
    cands = [c for c in chain if roles.writer_kind(c) == 'sort']
    if len(cands) != 1:
        raise Undecided('ORDER BY writer (chain writer with reverse_sort) not found', (p.files[mod], 0))
    c = cands[0]
    ms = roles.methods(c)
    wr, fin = ms['write'], ms['finish']
    mres = _sort_model(cx, port, p, mod, c)
    if mres is not None and mres.startswith('UNDECIDED: '):
        rep.undecided(_key(c, 'finish') + ' sort', fin, mres[len('UNDECIDED: '):])
        return
    if mres is not None:
        for k_, where in ((_key(c, 'write'), wr), (_key(c, 'finish') + ' sort', fin), (_key(c, 'finish') + ' desc', fin), (_key(c, 'finish') + ' emit', fin)):
            rep.decide(mres == '', k_, where, 'buffers every record; finish() emits them in stable ascending key order, DESC as the exact reverse, stops when refused and finishes the next writer once (numeric, text and composite keys, ties, records of one input record, already ordered input; ascending and descending; accepting and refusing next writer)', mres)
        return
    with rep.as_fallback('SortedWriter is outside the abstract interpreter'):
        _rule_wr_sort_shape(cx, rep, port, p, mod, chain, c, ms, wr, fin)


def _rule_wr_sort_shape(cx, rep, port, p, mod, chain, c, ms, wr, fin):
    # write appends in arrival order
    apps = [n for n in walk_no_nested(wr) if isinstance(n, ast.Call) and isinstance(n.func, ast.Attribute) and n.func.attr in ('append', 'push') and dotted(n.func.value) == 'self.unsorted_entries']
    bad_ins = [n for n in walk_no_nested(wr) if isinstance(n, ast.Call) and isinstance(n.func, ast.Attribute) and n.func.attr in ('insert', 'unshift')]
    rep.decide(len(apps) == 1 and not bad_ins, _key(c, 'write'), wr, 'entries are appended in arrival order', 'entries are not kept in arrival order')
    if len(apps) == 1:
        # every arrival is buffered exactly once: dropping (or doubling) records before the sort changes which occurrence survives DISTINCT
        g = cfgmod.CFG(wr)
        rng = g.count_range(lambda n: cfgmod.node_contains(n, lambda x: x is apps[0]), edge_ok=NORMAL)
        rep.decide(rng == (1, 1), _key(c, 'write') + ' buffers every record', apps[0], 'every path through write() buffers the record exactly once', 'some path through the ORDER BY writer\'s write() buffers the record {} times: records are dropped or doubled before the sort, so DISTINCT/TOP downstream no longer see the sorted sequence of all records'.format(rng))
    # the sort
    sort_calls = []
    for n in walk_no_nested(fin):
        if isinstance(n, ast.Call):
            d = dotted(n.func) or ''
            if d == 'sorted' or d.endswith('.sort'):
                sort_calls.append(n)
    # every definition of the emitted sequence must be the recognised stable sort (plus the optional reversal): any other ordering
    # primitive reaching the emission loop changes tie order
    emit_loops = [n for n in walk_no_nested(fin) if isinstance(n, (ast.For, ast.While)) and any(isinstance(x, ast.Call) and call_name(x) == 'self.subwriter.write' for x in ast.walk(n))]
    if len(emit_loops) == 1 and isinstance(emit_loops[0], ast.For):
        seq = emit_loops[0].iter
        if isinstance(seq, ast.Call) and dotted(seq.func) == 'range' and seq.args and isinstance(seq.args[-1], ast.Call) and dotted(seq.args[-1].func) == 'len':
            seq = seq.args[-1].args[0]
        if isinstance(seq, ast.Name):
            def source(v):
                """looks through order-preserving projections / copies: [f(e) for e in X], map(f, X), list(X), X[:], X.slice()"""
                while True:
                    if isinstance(v, ast.ListComp) and len(v.generators) == 1 and not v.generators[0].ifs:
                        v = v.generators[0].iter
                    elif isinstance(v, ast.Call) and dotted(v.func) == 'list' and len(v.args) == 1:
                        v = v.args[0]
                    elif isinstance(v, ast.Call) and dotted(v.func) == 'map' and len(v.args) == 2:
                        v = v.args[1]
                    elif isinstance(v, ast.Call) and isinstance(v.func, ast.Attribute) and v.func.attr in ('map', 'slice') and len(v.args) <= 1:
                        v = v.func.value
                    elif isinstance(v, ast.Subscript) and isinstance(v.slice, ast.Slice) and v.slice.lower is None and v.slice.upper is None and v.slice.step is None:
                        v = v.value
                    else:
                        return v
            other = []
            seen_names = set()
            work = [seq.id]
            while work:
                nm = work.pop()
                if nm in seen_names:
                    continue
                seen_names.add(nm)
                for d in [n for n in walk_no_nested(fin) if isinstance(n, ast.Assign) and any(is_name(t_, nm) for t_ in n.targets)]:
                    v = source(d.value)
                    dn = dotted(v.func) if isinstance(v, ast.Call) else None
                    if dn == 'sorted' or dotted(v) == 'self.unsorted_entries':
                        continue
                    if isinstance(v, ast.Name) and v is not d.value:
                        work.append(v.id)
                        continue
                    other.append(d)
            if other:
                dn = dotted(other[0].value.func) if isinstance(other[0].value, ast.Call) else node_text(other[0].value, 60)
                rep.violated(_key(c, 'finish') + ' sort', other[0], 'the emitted sequence can also come from `{}`: an ordering primitive other than the stable sort (+ reversal) does not keep ties in input order / DESC as the exact reverse'.format(dn))
                return
    others = [n for n in walk_no_nested(fin) if isinstance(n, ast.Call) and (dotted(n.func) or '').split('.')[0] in ('heapq', 'bisect')]
    if others:
        rep.violated(_key(c, 'finish') + ' sort', others[0], '`{}` is used to order entries: it does not preserve the tie order required of ORDER BY'.format(dotted(others[0].func)))
        return
    if len(sort_calls) != 1:
        rep.undecided(_key(c, 'finish') + ' sort', fin, 'expected exactly one sort call, found {}'.format(len(sort_calls)))
        return
    sc = sort_calls[0]
    # the sort runs on every path to the emission: a sort that is skipped under some condition leaves the arrival order
    gfin = cfgmod.CFG(fin)
    sn = [n for n in gfin.nodes if cfgmod.node_contains(n, lambda x: x is sc)]
    emit_nodes = [n for n in gfin.nodes if cfgmod.node_contains(n, lambda x: isinstance(x, ast.Call) and call_name(x) == 'self.subwriter.write')]
    if sn and emit_nodes:
        dom_ = gfin.dominators()
        if not all(gfin.dominates(sn[0], e_, dom_) for e_ in emit_nodes):
            guard = getattr(_stmt_of(sc), 'parent', None)
            cond = node_text(guard.test, 80) if isinstance(guard, ast.If) else '?'
            # a guard that compares neighbours with the sort's own comparator would be a sound "already sorted" test
            cmp_name = dotted(sc.args[0]) if sc.args else None
            same_cmp = False
            if isinstance(guard, ast.If) and cmp_name:
                for c_ in ast.walk(guard.test):
                    if isinstance(c_, ast.Call) and dotted(c_.func):
                        g_ = p.func(mod, dotted(c_.func), required=False)
                        if g_ is not None and any(isinstance(x, ast.Call) and dotted(x.func) == cmp_name for x in ast.walk(g_)):
                            same_cmp = True
            if same_cmp:
                rep.undecided(_key(c, 'finish') + ' sort', sc, 'the sort is skipped when `{}`, a test built on the sort comparator: not analysed'.format(cond))
            else:
                rep.violated(_key(c, 'finish') + ' sort', sc, 'the sort is skipped when `{}`: that test does not use the ORDER BY comparator (all key components, then arrival order), so entries can be emitted unsorted'.format(cond))
            return
    kw = {k.arg: k.value for k in sc.keywords}
    if 'reverse' in kw and not is_false(kw['reverse']):
        rep.violated(_key(c, 'finish') + ' sort', sc, 'DESC is implemented with a descending sort (`reverse=` keyword): ties come out in input order instead of the exact reverse of the ascending result')
        return
    if port == 'py':
        key = kw.get('key')
        ok_key = isinstance(key, ast.Lambda) and isinstance(key.body, ast.Subscript) and isinstance(key.body.slice, ast.Constant) and key.body.slice.value == 0
        if not ok_key:
            if key is None:
                rep.violated(_key(c, 'finish') + ' sort', sc, 'entries are sorted without a key function: ties are broken by comparing the records themselves')
            else:
                rep.violated(_key(c, 'finish') + ' sort', sc, 'sort key `{}` is not the ORDER BY key component of the entry'.format(node_text(key)))
            return
        rep.holds(_key(c, 'finish') + ' sort', sc, 'stable sort on the key component only (ties keep arrival order)')
    else:
        # comparator must never reach the payload (last element) and ties must compare equal
        if not sc.args:
            rep.violated(_key(c, 'finish') + ' sort', sc, 'Array.sort() without comparator sorts entries by their string image')
            return
        cmpf = sc.args[0]
        if isinstance(cmpf, ast.IfExp):
            # comparator chosen by a condition: each alternative is examined; an inverted one is the descending-comparator defect
            for alt in (cmpf.body, cmpf.orelse):
                afd = getattr(alt, 'js_function_ref', None)
                body = alt.body if isinstance(alt, ast.Lambda) else afd
                if body is None:
                    continue
                params = [a.arg for a in (alt.args.args if isinstance(alt, ast.Lambda) else afd.args.args)]
                inner = [x for x in ast.walk(body) if isinstance(x, ast.Call) and dotted(x.func) and p.func(mod, dotted(x.func), required=False) is not None]
                scaled = [x for x in ast.walk(body) if isinstance(x, (ast.BinOp, ast.UnaryOp)) and any(i is y for i in inner for y in ast.walk(x))]
                swapped = [x for x in inner if len(x.args) == 2 and [dotted(a) for a in x.args] == list(reversed(params))]
                if scaled or swapped:
                    rep.violated(_key(c, 'finish') + ' sort', sc, 'DESC is implemented by a descending comparator (`{}`): entries with equal keys stay in emission order instead of being reversed, so DESC is not the exact reverse of ASC'.format(node_text(alt, 80)))
                    return
            rep.undecided(_key(c, 'finish') + ' sort', sc, 'comparator chosen by a condition (`{}`) not recognised'.format(node_text(cmpf, 80)))
            return
        cname = dotted(cmpf)
        cfd = p.func(mod, cname, required=False) if cname else None
        if cfd is None and getattr(cmpf, 'js_function_ref', None) is not None:
            cfd = cmpf.js_function_ref
        if isinstance(cmpf, ast.Lambda) or (cfd is not None and getattr(cfd, 'js_anonymous', False)):
            body = cmpf.body if isinstance(cmpf, ast.Lambda) else cfd
            inner = [x for x in ast.walk(body) if isinstance(x, ast.Call) and dotted(x.func) and p.func(mod, dotted(x.func), required=False) is not None]
            scaled = [x for x in ast.walk(body) if isinstance(x, (ast.BinOp, ast.UnaryOp)) and any(i is y for i in inner for y in ast.walk(x))]
            swapped = [x for x in inner if len(x.args) == 2 and isinstance(cmpf, ast.Lambda) and [dotted(a) for a in x.args] == [a.arg for a in reversed(cmpf.args.args)]]
            if scaled or swapped:
                rep.violated(_key(c, 'finish') + ' sort', sc, 'DESC is implemented by a descending comparator (`{}`): entries with equal keys stay in emission order instead of being reversed, so DESC is not the exact reverse of ASC'.format(node_text(cmpf, 80)))
                return
        if cfd is None:
            rep.undecided(_key(c, 'finish') + ' sort', sc, 'comparator `{}` not resolved'.format(node_text(cmpf)))
            return
        coll = [x for x in ast.walk(cfd) if isinstance(x, ast.Call) and ((isinstance(x.func, ast.Attribute) and x.func.attr == 'localeCompare') or (dotted(x.func) or '').endswith('Collator'))]
        if coll:
            rep.violated('{} comparator {}'.format(_key(c, 'finish'), cfd.name), coll[0], 'sort keys are compared with `{}`: locale collation is not the code-point order of the reference, so ORDER BY over text yields a different order'.format(node_text(coll[0], 60)))
            return
        verdict = _js_comparator_reaches_payload(cfd)
        if verdict is True:
            rep.violated('{} comparator {}'.format(_key(c, 'finish'), cfd.name), cfd, 'the comparator loops over every element of the entry, including the record payload: entries with equal key and equal NR (join matches, UNNEST) are ordered by their content instead of emission order')
        elif verdict is False:
            rep.holds('{} comparator {}'.format(_key(c, 'finish'), cfd.name), cfd, 'comparator stops before the payload; ties keep emission order (stable sort)')
        else:
            rep.undecided('{} comparator {}'.format(_key(c, 'finish'), cfd.name), cfd, 'comparator shape not recognised')
    # DESC = reverse of the sorted sequence, under the reverse flag
    revs = [n for n in walk_no_nested(fin) if isinstance(n, ast.Call) and isinstance(n.func, ast.Attribute) and n.func.attr == 'reverse']
    ok_rev = False
    for r in revs:
        par = _stmt_of(r)
        guard = getattr(par, 'parent', None)
        if isinstance(guard, ast.If) and dotted(guard.test) == 'self.reverse_sort' and par in guard.body and r.pos > sc.pos:
            ok_rev = True
    rep.decide(ok_rev, _key(c, 'finish') + ' desc', revs[0] if revs else fin, 'DESC reverses the ascending result, only when reverse_sort is set', 'DESC is not "reverse the ascending result when reverse_sort is set"')
    # emission: payload of each entry in order
    loops = [n for n in walk_no_nested(fin) if isinstance(n, (ast.For, ast.While))]
    rep.decide(len(loops) == 1, _key(c, 'finish') + ' emit', fin, 'one emission loop over the sorted entries', 'emission loop not recognised')


def _js_comparator_reaches_payload(cfd):
    """True: loop bound covers the last element; False: stops before it; None: unknown."""
    params = [a.arg for a in cfd.args.args]
    if len(params) != 2:
        return None
    for n in walk_no_nested(cfd):
        if isinstance(n, ast.For) and isinstance(n.iter, ast.Call) and dotted(n.iter.func) == 'range' and len(n.iter.args) == 2:
            stop = n.iter.args[1]
            if isinstance(stop, ast.Call) and dotted(stop.func) == 'len' and stop.args and isinstance(stop.args[0], ast.Name) and stop.args[0].id in params:
                return True
            if isinstance(stop, ast.BinOp) and isinstance(stop.op, ast.Sub) and isinstance(stop.left, ast.Call) and dotted(stop.left.func) == 'len' and isinstance(stop.right, ast.Constant) and stop.right.value >= 1:
                return False
        if isinstance(n, ast.While):
            t = n.test
            if isinstance(t, ast.Compare) and isinstance(t.ops[0], ast.Lt):
                stop = t.comparators[0]
                if isinstance(stop, ast.Call) and dotted(stop.func) == 'len':
                    return True
                if isinstance(stop, ast.BinOp) and isinstance(stop.op, ast.Sub) and isinstance(stop.right, ast.Constant) and stop.right.value >= 1:
                    return False
    return None


def rule_wr_aggw(cx, rep, port):
    p, mod, chain, sinks = _roles(cx, port)
    cands = [c for c in chain if 'aggregation_keys' in roles.self_attrs_assigned(roles.methods(c)['__init__'])]
    if len(cands) != 1:
        raise Undecided('aggregate writer (chain writer with aggregation_keys) not found', (p.files[mod], 0))
    c = cands[0]
    ms = roles.methods(c)
    init, fin = ms['__init__'], ms['finish']
    ctor = [n.value for n in walk_no_nested(init) if isinstance(n, ast.Assign) and dotted(n.targets[0]) == 'self.aggregation_keys']
    is_set = ctor and isinstance(ctor[0], ast.Call) and dotted(ctor[0].func) in ('set', 'Set')
    rep.decide(bool(is_set), _key(c, '__init__'), ctor[0] if ctor else init, 'group keys are collected in a set (one row per distinct key)', 'group keys are not collected in a set: a key seen twice yields two rows')
    # sorted order
    sorts = [n for n in walk_no_nested(fin) if isinstance(n, ast.Call) and ((dotted(n.func) == 'sorted') or (isinstance(n.func, ast.Attribute) and n.func.attr == 'sort'))]
    if len(sorts) != 1:
        rep.violated(_key(c, 'finish') + ' order', fin, 'group keys are not emitted in sorted order ({} sort calls)'.format(len(sorts)))
    else:
        s = sorts[0]
        kw = {k.arg: k.value for k in s.keywords}
        if 'reverse' in kw and not is_false(kw['reverse']):
            rep.violated(_key(c, 'finish') + ' order', s, 'group keys are emitted in descending order')
        else:
            rep.holds(_key(c, 'finish') + ' order', s, 'group keys are emitted in ascending sorted order')
    # one record per key: [ag.get_final(key) for ag in aggregators]
    gf = [n for n in ast.walk(fin) if isinstance(n, ast.Call) and isinstance(n.func, ast.Attribute) and n.func.attr == 'get_final']
    if len(gf) != 1 or len(gf[0].args) != 1:
        rep.undecided(_key(c, 'finish') + ' row', gf[0] if gf else fin, 'row assembly from get_final(key) not recognised ({} get_final call(s))'.format(len(gf)))
        return
    g0 = gf[0]

    def ranges_over(var, what):
        """is the name `var` bound, by a loop / comprehension / map callback that encloses the call, to the elements of a
        sequence whose text satisfies `what`?"""
        q = getattr(g0, 'parent', None)
        while q is not None and q is not fin:
            if isinstance(q, ast.For) and isinstance(q.target, ast.Name) and q.target.id == var:
                return what(q.iter)
            if isinstance(q, (ast.ListComp, ast.GeneratorExp)):
                for gen in q.generators:
                    if isinstance(gen.target, ast.Name) and gen.target.id == var:
                        return what(gen.iter)
            if isinstance(q, ast.Lambda) and [a.arg for a in q.args.args][:1] == [var]:
                call = getattr(q, 'parent', None)
                if isinstance(call, ast.Call) and isinstance(call.func, ast.Attribute) and call.func.attr == 'map':
                    return what(call.func.value)
            q = getattr(q, 'parent', None)
        # a counting loop `for i in range(len(seq)): var = seq[i]`
        for n in walk_no_nested(fin):
            if isinstance(n, ast.Assign) and len(n.targets) == 1 and is_name(n.targets[0], var) and isinstance(n.value, ast.Subscript) and isinstance(n.value.slice, ast.Name):
                return what(n.value.value)
        return None
    from ..snippet import inline_single_defs
    ag_ok = isinstance(g0.func.value, ast.Name) and ranges_over(g0.func.value.id, lambda e: (dotted(e) or '').endswith('aggregators'))
    key_ok = isinstance(g0.args[0], ast.Name) and ranges_over(g0.args[0].id, lambda e: True)
    if ag_ok is None or key_ok is None:
        rep.undecided(_key(c, 'finish') + ' row', g0, 'how `{}` ranges over the aggregators / keys is not recognised'.format(node_text(g0, 60)))
    else:
        rep.decide(bool(ag_ok and key_ok), _key(c, 'finish') + ' row', g0, 'each output field is get_final(key) of the column\'s aggregator, in column order', 'a row is not assembled as get_final(key) of every aggregator in column order (`{}`)'.format(node_text(g0, 60)))


def _mutates_param(p, cls, fd, idx, depth=0, seen=None):
    """does method fd store into elements of its parameter number idx (directly, or by handing it to a method of the same class that does)?"""
    seen = seen if seen is not None else set()
    if (fd.name, idx) in seen or depth > 3 or idx >= len(fd.args.args):
        return None
    seen.add((fd.name, idx))
    prm = fd.args.args[idx].arg
    for n in ast.walk(fd):
        if isinstance(n, (ast.Assign, ast.AugAssign)):
            tgts = n.targets if isinstance(n, ast.Assign) else [n.target]
            for t in tgts:
                if isinstance(t, ast.Subscript) and is_name(t.value, prm):
                    return n
        if isinstance(n, ast.Call) and isinstance(n.func, ast.Attribute) and is_name(n.func.value, prm) and n.func.attr in ('append', 'push', 'pop', 'insert', 'sort', 'reverse', 'splice', 'shift', 'unshift', 'extend', 'clear'):
            return n
        if isinstance(n, ast.Call) and isinstance(n.func, ast.Attribute) and is_name(n.func.value, 'self'):
            ms = {m.name: m for m in cls.body if isinstance(m, ast.FunctionDef)}
            callee = ms.get(n.func.attr)
            if callee is not None:
                for j, a in enumerate(n.args):
                    if is_name(a, prm):
                        off = 1 if callee.args.args and callee.args.args[0].arg in ('self', 'this') else 0
                        r = _mutates_param(p, cls, callee, j + off, depth + 1, seen)
                        if r is not None:
                            return r
    return None


def rule_wr_afterfwd(cx, rep, port):
    """a record that was handed to the next writer is not looked at again: output writers normalise the list they receive in place
    (None -> '', numbers -> text, sub-lists joined), so anything computed from the record afterwards - e.g. a DISTINCT key - is
    computed from a different value than the one tested before"""
    p, mod, chain, sinks = _roles(cx, port)
    mut = []
    for s in sinks:
        ms = {m.name: m for m in s.body if isinstance(m, ast.FunctionDef)}
        w = ms.get('write')
        if w is None:
            continue
        off = 1 if w.args.args and w.args.args[0].arg in ('self', 'this') else 0
        r = _mutates_param(p, s, w, off)
        if r is not None:
            mut.append((s, r))
    n = 0
    for c in chain:
        fd = roles.methods(c).get('write')
        if fd is None or len(fd.args.args) < 2:
            continue
        rec = fd.args.args[1].arg
        g = cfgmod.CFG(fd)
        is_fwd = lambda x: isinstance(x, ast.Call) and call_name(x) == 'self.subwriter.write' and any(is_name(a, rec) for a in x.args)  # noqa: E731
        fwd = [nd for nd in g.nodes if nd.kind in ('stmt', 'test') and cfgmod.node_contains(nd, is_fwd)]
        if not fwd:
            continue
        n += 1
        reads = lambda nd: nd not in fwd and nd.kind in ('stmt', 'test') and any(isinstance(x, ast.Name) and x.id == rec and isinstance(x.ctx, ast.Load) for x in ast.walk(cfgmod.simple_header(nd)))  # noqa: E731
        later = None
        for f_ in fwd:
            for s_, lab in f_.succ:
                if not NORMAL(f_, s_, lab):
                    continue
                if reads(s_):
                    later = s_
                elif g.exists_path(s_, reads, edge_ok=NORMAL):
                    later = [x for x in g.nodes if reads(x)][0]
        if later is None:
            rep.holds(_key(c, 'write'), fd, 'the record is not read after it was forwarded')
        elif mut:
            rep.violated(_key(c, 'write'), later.ast, '`{}` reads the record after it was handed to the next writer; {}.write normalises the list it receives in place (`{}`), so the value read here differs from the one seen before forwarding'.format(node_text(cfgmod.simple_header(later), 80), mut[0][0].name, node_text(mut[0][1], 60)))
        else:
            rep.holds(_key(c, 'write'), fd, 'the record is read after forwarding, but no output writer of this port modifies the list it receives')
    rep.require_count('forwarding writers', n, 2, (p.files[mod], 0))


def rule_wr_freshrow(cx, rep, port):
    """a writer that emits many records from a loop hands over a different list each time: a buffer created before the loop and
    refilled per iteration is one object, so a receiver that keeps what it is given (the table writers, a sorting writer, a
    user-defined writer) ends up with N references to the last record"""
    p, mod, chain, sinks = _roles(cx, port)
    n = 0
    for c in chain:
        for mname, fd in roles.methods(c).items():
            for call in _subwrite_calls(fd):
                if not call.args:
                    continue
                loop = getattr(call, 'parent', None)
                while loop is not None and loop is not fd and not isinstance(loop, (ast.For, ast.While)):
                    loop = getattr(loop, 'parent', None)
                if loop is None or loop is fd:
                    continue
                n += 1
                if not isinstance(call.args[0], ast.Name):
                    rep.holds(_key(c, mname) + ' row object', call, 'the record is an expression evaluated in every iteration')
                    continue
                v = call.args[0].id
                inside = {id(x) for x in ast.walk(loop)}
                binds_in = [x for x in ast.walk(loop) if isinstance(x, ast.Name) and x.id == v and isinstance(x.ctx, ast.Store)]
                binds_out = [x for x in walk_no_nested(fd) if isinstance(x, ast.Name) and x.id == v and isinstance(x.ctx, ast.Store) and id(x) not in inside]
                muts = [x for x in ast.walk(loop) if (isinstance(x, ast.Subscript) and isinstance(x.ctx, ast.Store) and is_name(x.value, v)) or
                        (isinstance(x, ast.Call) and isinstance(x.func, ast.Attribute) and is_name(x.func.value, v) and x.func.attr in ('append', 'push', 'clear', 'extend', 'insert', 'pop', 'splice', 'fill'))]
                key = _key(c, mname) + ' row object'
                if binds_in:
                    rep.holds(key, call, '`{}` is bound anew in every iteration'.format(v))
                elif binds_out and muts:
                    rep.violated(key, muts[0], '`{}` is created once before the loop and refilled for every record (`{}`): every record handed to the next writer is the same list object, so a writer that keeps the records it receives holds N references to the last one'.format(v, node_text(muts[0], 60)))
                else:
                    rep.undecided(key, call, 'where `{}` is bound was not recognised'.format(v))
    rep.require_count('records emitted from a loop', n, 1, (p.files[mod], 0))
