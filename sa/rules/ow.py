"""OW rules (C06): file/database/dataframe access discipline.  The interprocedural ownership analysis (OW-MUT / OW-FRESH)
lives in ownership.py."""
import ast

from .. import regexlang as R
from ..core import Undecided, node_text
from ..idioms import is_name
from ..model import NOCONST, PY_LIBRARY_MODULES, call_name, const_value, dotted, enclosing_func, names_in, walk_no_nested

FS_DESTRUCTIVE_PY = {'os.remove', 'os.unlink', 'os.rename', 'os.replace', 'os.truncate', 'os.rmdir', 'os.removedirs', 'os.chmod', 'os.chown', 'os.mkdir', 'os.makedirs', 'os.link', 'os.symlink', 'os.utime', 'os.ftruncate', 'os.write'}
FS_DESTRUCTIVE_JS = {'fs.unlink', 'fs.unlinkSync', 'fs.rename', 'fs.renameSync', 'fs.truncate', 'fs.truncateSync', 'fs.rm', 'fs.rmSync', 'fs.rmdir', 'fs.rmdirSync', 'fs.writeFile', 'fs.writeFileSync', 'fs.appendFile', 'fs.appendFileSync', 'fs.copyFile', 'fs.copyFileSync', 'fs.mkdir', 'fs.mkdirSync', 'fs.chmod', 'fs.chmodSync', 'fs.open', 'fs.openSync', 'fs.write', 'fs.writeSync', 'fs.ftruncate'}


def _open_sites(p, mods):
    out = []
    for m in mods:
        if m not in p.modules:
            continue
        for c in ast.walk(p.modules[m]):
            if isinstance(c, ast.Call) and dotted(c.func) in ('open', 'io.open', 'codecs.open'):
                out.append((m, c))
    return out


def _mode_of(c):
    mode = None
    if len(c.args) >= 2:
        mode = c.args[1]
    for k in c.keywords:
        if k.arg == 'mode':
            mode = k.value
    if mode is None:
        return 'r'
    if isinstance(mode, ast.Constant) and isinstance(mode.value, str):
        return mode.value
    return None


def rule_ow_open(cx, rep, port):
    """files are opened for writing only through the output_path parameter; input and join paths are opened read-only"""
    p = cx.port(port)
    if port == 'py':
        mods = PY_LIBRARY_MODULES + ['rbql_main']
        sites = _open_sites(p, mods)
        # low-level opens: os.open(path, flags[, mode])
        low = [(m, c) for m in mods if m in p.modules for c in ast.walk(p.modules[m]) if isinstance(c, ast.Call) and dotted(c.func) == 'os.open' and len(c.args) >= 2]
        for m, c in low:
            flags = {dotted(x).split('.')[-1] for x in ast.walk(c.args[1]) if isinstance(x, ast.Attribute) and (dotted(x) or '').startswith('os.O_')}
            key = '{}:{}: {}'.format(m, getattr(enclosing_func(c), 'name', '<module>'), node_text(c, 60))
            writes = bool(flags & {'O_WRONLY', 'O_RDWR'})
            if not writes:
                rep.holds(key, c, 'opened read-only ({})'.format(sorted(flags)))
                continue
            path = c.args[0]
            if not is_name(path, 'output_path'):
                rep.violated(key, c, 'a file is opened for writing through `{}`, which is not the output path: a source could be modified'.format(node_text(path)))
            elif not (flags & {'O_TRUNC', 'O_EXCL', 'O_APPEND'}):
                rep.violated(key, c, 'the output file is opened with {} but without O_TRUNC: when it already exists and the new result is shorter, the tail of the old content stays in the file - the output of an earlier query shows up in this one'.format(' | '.join(sorted(flags))))
            else:
                rep.holds(key, c, 'output file opened with {}'.format(sorted(flags)))
        rep.require_count('open() call sites', len(sites) + 2 * len(low), 8, (p.files['rbql_csv'], 0))
        for m, c in sites:
            mode = _mode_of(c)
            path = c.args[0] if c.args else None
            key = '{}:{}: {}'.format(m, getattr(enclosing_func(c), 'name', '<module>'), node_text(c))
            if mode is None:
                rep.undecided(key, c, 'open() mode is not a constant')
                continue
            writes = any(ch in mode for ch in 'wax+')
            if writes:
                ok = path is not None and is_name(path, 'output_path')
                rep.decide(ok, key, c, 'write mode only on the output_path parameter', 'a file is opened in mode {!r} through `{}`, which is not the output path: a source could be truncated or modified'.format(mode, node_text(path)))
            else:
                rep.holds(key, c, 'opened read-only (mode {!r})'.format(mode))
    else:
        n = 0
        for m in ('rbql_csv', 'rbql', 'csv_utils'):
            for c in ast.walk(p.modules[m]):
                if isinstance(c, ast.Call):
                    d = dotted(c.func) or ''
                    if d == 'fs.createWriteStream':
                        n += 1
                        path = c.args[0] if c.args else None
                        rep.decide(path is not None and is_name(path, 'output_path'), '{}: {}'.format(m, node_text(c)), c, 'write stream only on output_path', 'a write stream is created on `{}`, which is not the output path'.format(node_text(path)))
                    elif d in ('fs.createReadStream', 'fs.readFile', 'fs.readFileSync', 'fs.existsSync'):
                        n += 1
                        rep.holds('{}: {}'.format(m, node_text(c)), c, 'read-only access')
        rep.require_count('fs access sites', n, 6, (p.files['rbql_csv'], 0))


def rule_ow_fs(cx, rep, port):
    """no destructive file-system call in library modules"""
    p = cx.port(port)
    mods = PY_LIBRARY_MODULES if port == 'py' else ['rbql', 'rbql_csv', 'csv_utils']
    bad = []
    n_calls = 0
    for m in mods:
        for c in ast.walk(p.modules[m]):
            if isinstance(c, ast.Call):
                n_calls += 1
                d = dotted(c.func) or ''
                if port == 'py' and (d in FS_DESTRUCTIVE_PY or d.startswith('shutil.') or d.startswith('subprocess.') or d in ('os.system', 'os.popen')):
                    bad.append((m, c))
                if port == 'js' and (d in FS_DESTRUCTIVE_JS or d.startswith('child_process.')):
                    bad.append((m, c))
    for m, c in bad:
        rep.violated('{}: {}'.format(m, node_text(c)), c, 'library module {} calls `{}`: a query could alter or delete a file other than its output'.format(m, dotted(c.func)))
    if not bad:
        rep.holds('library modules', (p.files[mods[0]], 0), '{} call sites in {} scanned: no remove/rename/truncate/shell call'.format(n_calls, mods))
    # controls: the rule must recognise a positive example
    ctrl = ast.parse("import os\nos.remove(p)\n") if port == 'py' else None
    if ctrl is not None:
        hit = [c for c in ast.walk(ctrl) if isinstance(c, ast.Call) and dotted(c.func) in FS_DESTRUCTIVE_PY]
        if not hit:
            rep.undecided('control', ('/verif/sa/rules/ow.py', 0), 'embedded positive control did not match')


def rule_ow_sql(cx, rep, port='py'):
    """every cursor.execute(x): x is a constant, or a format of a value guarded by a raise on `re.match(R, v) is None` with R
    anchored and L(R) within [A-Za-z0-9_]*; only SELECT statements"""
    p = cx.port('py')
    sites = []
    for m in ('rbql_sqlite', 'rbql_main', 'rbql_engine', 'rbql_csv', 'rbql_pandas'):
        if m not in p.modules:
            continue
        for c in ast.walk(p.modules[m]):
            if isinstance(c, ast.Call) and isinstance(c.func, ast.Attribute) and c.func.attr in ('execute', 'executemany', 'executescript'):
                sites.append((m, c))
    rep.require_count('cursor.execute sites', len(sites), 2, (p.files['rbql_sqlite'], 0))
    word = R.Lang('[A-Za-z0-9_]*')
    for m, c in sites:
        key = '{}: {}'.format(m, node_text(c))
        if c.func.attr != 'execute':
            rep.violated(key, c, '`{}` can run several statements'.format(c.func.attr))
            continue
        arg = c.args[0] if c.args else None
        if isinstance(arg, ast.Constant) and isinstance(arg.value, str):
            sql = arg.value.strip().upper()
            rep.decide(sql.startswith('SELECT') and not any(k in sql for k in ('INSERT', 'UPDATE ', 'DELETE', 'DROP', 'ALTER', 'CREATE', 'REPLACE', 'ATTACH', 'PRAGMA')), key, c, 'constant SELECT statement', 'constant SQL statement is not a plain SELECT: `{}`'.format(arg.value))
            continue
        # 'SELECT * FROM {};'.format(v)
        tmpl, vals = _format_parts(arg)
        if tmpl is None:
            rep.violated(key, c, 'the SQL text is neither a constant nor a format of a validated identifier: `{}`'.format(node_text(arg)))
            continue
        up = tmpl.strip().upper()
        if not up.startswith('SELECT') or any(k in up for k in ('INSERT', 'UPDATE ', 'DELETE', 'DROP', 'ALTER', 'CREATE', 'REPLACE', 'ATTACH', 'PRAGMA')):
            rep.violated(key, c, 'SQL template is not a plain SELECT: `{}`'.format(tmpl))
            continue
        fd = enclosing_func(c)
        problems = []
        for v in vals:
            if not isinstance(v, ast.Name):
                problems.append('formatted value `{}` is not a plain variable'.format(node_text(v)))
                continue
            g = _guard_for(fd, v.id, c, p.modules[m])
            if g is None:
                problems.append('`{}` reaches the SQL text without a dominating `re.match(<pattern>, {}) is None -> raise` guard'.format(v.id, v.id))
                continue
            pat, node = g
            if not (pat.startswith('^') and (pat.endswith('$') or pat.endswith('\\Z'))):
                problems.append('the validation pattern `{}` is not anchored at both ends'.format(pat))
                continue
            try:
                ok, wit = R.subset(R.Lang(pat), word)
            except R.Unsupported as e:
                problems.append('validation pattern `{}` unsupported: {}'.format(pat, e))
                continue
            if not ok:
                problems.append('the validation pattern `{}` accepts {!r}: identifiers with characters other than letters, digits and underscore reach sqlite'.format(pat, wit))
            # reassignment between guard and use
            defs = [n for n in walk_no_nested(fd) if isinstance(n, ast.Assign) and any(is_name(t, v.id) for t in n.targets)]
            if defs:
                problems.append('`{}` is reassigned in {} after validation'.format(v.id, fd.name))
        if problems:
            rep.violated(key, c, problems[0])
        else:
            rep.holds(key, c, 'SELECT template; every formatted value is validated by an anchored pattern whose language is within [A-Za-z0-9_]* (regex inclusion decided by automata), guard dominates the call')


def rule_ow_conn(cx, rep, port='py'):
    """the sqlite connection belongs to the caller: the adapter only creates cursors on it and runs SELECTs; it never commits, rolls
    back, closes it or uses it as a context manager (`with connection:` commits on success and rolls back on an exception, i.e.
    it ends the caller's open transaction either way)"""
    p = cx.port('py')
    if 'rbql_sqlite' not in p.modules:
        raise Undecided('rbql_sqlite module missing')
    mod = p.modules['rbql_sqlite']
    n = 0
    bad = None
    for fd in p.funcs_in('rbql_sqlite'):
        conn = {a.arg for a in fd.args.args if 'connection' in a.arg}
        conn |= {'self.' + x for x in ('db_connection', 'connection')}
        for x in walk_no_nested(fd):
            if isinstance(x, ast.With):
                for it in x.items:
                    if (dotted(it.context_expr) or '') in conn:
                        bad = (x, '`with {}:` in {} commits or rolls back the caller\'s open transaction'.format(dotted(it.context_expr), fd.name))
            if isinstance(x, (ast.Assign, ast.AugAssign, ast.Delete)):
                tg_ = x.targets if isinstance(x, (ast.Assign, ast.Delete)) else [x.target]
                for t_ in tg_:
                    for y in ([t_] + (list(t_.elts) if isinstance(t_, (ast.Tuple, ast.List)) else [])):
                        if isinstance(y, ast.Attribute) and (dotted(y.value) or '') in conn:
                            bad = bad or (x, '{} sets `{}` on the caller\'s connection and the setting outlives the query (text_factory / row_factory / isolation_level change what every later user of the connection reads)'.format(fd.name, dotted(y)))
            if isinstance(x, ast.Call) and dotted(x.func) == 'setattr' and x.args and (dotted(x.args[0]) or '') in conn:
                bad = bad or (x, '{} sets an attribute of the caller\'s connection with setattr()'.format(fd.name))
            if isinstance(x, ast.Call) and isinstance(x.func, ast.Attribute) and (dotted(x.func.value) or '') in conn:
                n += 1
                if x.func.attr not in ('cursor',):
                    if x.func.attr in ('commit', 'rollback', 'close', 'executescript', 'execute', 'executemany', 'backup', 'create_function', 'set_authorizer', 'interrupt', '__enter__', '__exit__'):
                        bad = bad or (x, '{} calls {}() on the caller\'s connection'.format(fd.name, x.func.attr))
    if bad:
        rep.violated('caller\'s connection', bad[0], bad[1] + ': the database (or the caller\'s pending changes) can be altered by a query')
    else:
        rep.holds('caller\'s connection', (p.files['rbql_sqlite'], 0), 'the connection is only used to create cursors ({} uses)'.format(n))
    rep.require_count('connection uses', n, 1, (p.files['rbql_sqlite'], 0))


def _format_parts(e):
    if isinstance(e, ast.Call) and isinstance(e.func, ast.Attribute) and e.func.attr == 'format' and isinstance(e.func.value, ast.Constant) and isinstance(e.func.value.value, str) and not e.keywords:
        return e.func.value.value, list(e.args)
    if isinstance(e, ast.JoinedStr):
        t = ''
        vals = []
        for v in e.values:
            if isinstance(v, ast.Constant):
                t += str(v.value)
            else:
                t += '{}'
                vals.append(v.value)
        return t, vals
    if isinstance(e, ast.BinOp) and isinstance(e.op, ast.Mod) and isinstance(e.left, ast.Constant) and isinstance(e.left.value, str):
        vals = list(e.right.elts) if isinstance(e.right, ast.Tuple) else [e.right]
        return e.left.value, vals
    if isinstance(e, ast.BinOp) and isinstance(e.op, ast.Add):
        parts = []
        def flat(x):
            if isinstance(x, ast.BinOp) and isinstance(x.op, ast.Add):
                flat(x.left); flat(x.right)
            else:
                parts.append(x)
        flat(e)
        t = ''
        vals = []
        for x in parts:
            if isinstance(x, ast.Constant) and isinstance(x.value, str):
                t += x.value
            else:
                t += '{}'
                vals.append(x)
        return t, vals
    return None, None


def _guard_for(fd, var, use, module=None):
    """`if re.match(P, var) is None: raise` (or `not re.match(..)`, or the same through a pattern object compiled at module level or
    earlier in the function) as a top-level statement of fd before `use`, so that it dominates it.  Returns (effective pattern
    anchored at the start as re.match does, node)."""
    mod = fd
    while mod is not None and not isinstance(mod, ast.Module):
        mod = getattr(mod, 'parent', None)
    if mod is None:
        mod = module
    compiled = {}
    for scope in ([mod.body] if mod is not None else []) + [fd.body]:
        for st in scope:
            if isinstance(st, ast.Assign) and isinstance(st.targets[0], ast.Name) and isinstance(st.value, ast.Call) and dotted(st.value.func) == 're.compile' and st.value.args and isinstance(st.value.args[0], ast.Constant) and len(st.value.args) == 1 and not st.value.keywords:
                compiled[st.targets[0].id] = st.value.args[0].value

    def match_call(e):
        """(pattern, kind) when e is re.match(P, var) / re.fullmatch(P, var) / X.match(var) with X a compiled constant pattern"""
        if not isinstance(e, ast.Call):
            return None
        d = dotted(e.func) or ''
        if d in ('re.match', 're.fullmatch') and len(e.args) == 2 and is_name(e.args[1], var) and isinstance(e.args[0], ast.Constant):
            return e.args[0].value, d.split('.')[1]
        if isinstance(e.func, ast.Attribute) and e.func.attr in ('match', 'fullmatch') and isinstance(e.func.value, ast.Name) and e.func.value.id in compiled and len(e.args) == 1 and is_name(e.args[0], var):
            return compiled[e.func.value.id], e.func.attr
        return None
    for st in fd.body:
        if any(x is use for x in ast.walk(st)):
            break
        if isinstance(st, ast.If) and not st.orelse and st.body and isinstance(st.body[-1], ast.Raise):
            t = st.test
            mc = None
            if isinstance(t, ast.Compare) and len(t.ops) == 1 and isinstance(t.ops[0], (ast.Is, ast.Eq)) and isinstance(t.comparators[0], ast.Constant) and t.comparators[0].value is None:
                mc = match_call(t.left)
            elif isinstance(t, ast.UnaryOp) and isinstance(t.op, ast.Not):
                mc = match_call(t.operand)
            if mc is not None:
                pat, kind = mc
                pat = '^' + (pat[1:] if pat.startswith('^') else pat)      # match() is anchored at the start
                if kind == 'fullmatch' and not (pat.endswith('$') or pat.endswith('\\Z')):
                    pat = pat + '$'
                return pat, st
    return None


PANDAS_READONLY = {'itertuples', 'columns', 'iterrows', 'shape', 'values', 'to_numpy', 'iloc', 'loc', 'index', 'dtypes', 'head', 'copy'}


def rule_ow_pandas(cx, rep, port='py'):
    """the dataframe is used only through a read-only API; records leave the adapter as list(record)"""
    p = cx.port('py')
    if 'rbql_pandas' not in p.modules:
        raise Undecided('rbql_pandas module missing')
    it = p.cls('rbql_pandas', 'DataframeIterator')
    ms = {m.name: m for m in it.body if isinstance(m, ast.FunctionDef)}
    uses = []
    for m in ms.values():
        for n in walk_no_nested(m):
            if isinstance(n, ast.Attribute) and dotted(n.value) in ('self.table', 'table', 'dataframe'):
                uses.append((m, n))
            if isinstance(n, (ast.Subscript,)) and dotted(n.value) in ('self.table', 'table') and isinstance(n.ctx, (ast.Store, ast.Del)):
                uses.append((m, n))
    helper = p.func('rbql_pandas', 'get_dataframe_column_names_for_rbql')
    for n in walk_no_nested(helper):
        if isinstance(n, ast.Attribute) and is_name(n.value, helper.args.args[0].arg):
            uses.append((helper, n))
    bad = [(m, n) for m, n in uses if isinstance(n, ast.Subscript) or n.attr not in PANDAS_READONLY or isinstance(getattr(n, 'ctx', None), (ast.Store, ast.Del))]
    rep.require_count('dataframe accesses', len(uses), 3, it)
    if bad:
        rep.violated('dataframe access `{}`'.format(node_text(bad[0][1])), bad[0][1], 'the input dataframe is accessed through `{}`, which is not in the read-only API whitelist {}'.format(node_text(bad[0][1]), sorted(PANDAS_READONLY)))
    else:
        rep.holds('dataframe accesses', it, '{} accesses, all through {}'.format(len(uses), sorted({n.attr for m, n in uses})))
    # rows are taken by position: `table[label]` selects *all* columns carrying that label (a frame, not a column, when a header
    # name repeats), so a row assembled from label lookups differs from the positional row the other front ends see
    lbl = [n for m in ms.values() for n in walk_no_nested(m) if isinstance(n, ast.Subscript) and isinstance(n.ctx, ast.Load) and dotted(n.value) in ('self.table', 'table') and not isinstance(n.slice, ast.Slice)]
    if lbl:
        rep.violated('dataframe label lookup `{}`'.format(node_text(lbl[0], 40)), lbl[0], 'records are assembled from label lookups `{}`: with a repeated column name the lookup returns a frame instead of a column, so the rows differ from the positional rows of the same table in every other front end'.format(node_text(lbl[0], 40)))
    # inplace keyword anywhere in the module
    inpl = [k for c in ast.walk(p.modules['rbql_pandas']) if isinstance(c, ast.Call) for k in c.keywords if k.arg == 'inplace']
    rep.decide(not inpl, 'inplace operations', p.modules['rbql_pandas'].body[0], 'no inplace= keyword in the adapter', 'an inplace dataframe operation is used')
    gr = ms['get_record']
    rets = [r for r in walk_no_nested(gr) if isinstance(r, ast.Return) and r.value is not None and not (isinstance(r.value, ast.Constant) and r.value.value is None)]
    ok = rets and all(isinstance(r.value, ast.Call) and dotted(r.value.func) == 'list' for r in rets)
    rep.decide(bool(ok), 'DataframeIterator.get_record', gr, 'rows leave the adapter as fresh lists', 'a dataframe row is handed to the engine without conversion to a fresh list')


# ------------------------------------------------------------------------------------------------ ownership (OW-MUT / OW-FRESH)
from .. import ownership, roles  # noqa: E402
from ..idioms import MUTATORS  # noqa: E402
from ..model import func_params  # noqa: E402


def _program(cx, port):
    def build():
        p = cx.port(port)
        mods = ['rbql_engine', 'rbql_csv', 'csv_utils', 'rbql_pandas', 'rbql_sqlite'] if port == 'py' else ['rbql', 'rbql_csv', 'csv_utils']
        sks, errs = cx.skeletons(port)
        return ownership.Program(p, [m for m in mods if m in p.modules], sks)
    return cx.cached(('ownership', port), build)


def _mutates_summary(prog):
    """function -> set of its parameter names that it may modify in place (directly, through simple aliases/elements, or via callees)"""
    mut = {id(fd): set() for fd in prog.funcs}
    byid = {id(fd): fd for fd in prog.funcs}

    def base_param(e, fd, params):
        # p, p[i], p[i][j], alias = p
        while isinstance(e, ast.Subscript):
            e = e.value
        if isinstance(e, ast.Name):
            if e.id in params:
                return e.id
            defs = [n for n in prog.body_nodes(fd) if isinstance(n, ast.Assign) and any(isinstance(t, ast.Name) and t.id == e.id for t in n.targets)]
            fors = [n for n in prog.body_nodes(fd) if isinstance(n, ast.For) and isinstance(n.target, ast.Name) and n.target.id == e.id]
            for d in defs:
                v = d.value
                while isinstance(v, ast.Subscript) and not isinstance(v.slice, ast.Slice):
                    v = v.value
                if isinstance(v, ast.Name) and v.id in params and v.id != e.id:
                    return v.id
            for f in fors:
                if isinstance(f.iter, ast.Name) and f.iter.id in params:
                    return f.iter.id
        return None
    for fd in prog.funcs:
        params = func_params(fd) if isinstance(fd, ast.FunctionDef) else []
        for node, target, desc in prog.mutation_sites(fd):
            bp = base_param(target, fd, params)
            if bp and bp != 'self':
                mut[id(fd)].add(bp)
    changed = True
    while changed:
        changed = False
        for fd in prog.funcs:
            params = func_params(fd) if isinstance(fd, ast.FunctionDef) else []
            for n in prog.body_nodes(fd):
                if not isinstance(n, ast.Call):
                    continue
                nm = call_name(n)
                short = nm.split('.')[-1] if nm else None
                if not short:
                    continue
                cands = list(prog.by_name.get(short, []))
                for m in prog.call_sites() and prog.slots.get(short, ()):
                    cands += prog.by_name.get(m, [])
                for g in cands:
                    gp = func_params(g)
                    off = 1 if gp and gp[0] == 'self' else 0
                    for i, a in enumerate(n.args):
                        if i + off < len(gp) and gp[i + off] in mut[id(g)]:
                            bp = base_param(a, fd, params)
                            if bp and bp != 'self' and bp not in mut[id(fd)]:
                                mut[id(fd)].add(bp)
                                changed = True
    return mut


def _describe(atoms):
    kinds = sorted({a[0] for a in atoms})
    return ','.join(kinds)


def rule_ow_mut(cx, rep, port):
    """no mutating operation is applied to a value whose origin is a caller's source object"""
    prog = _program(cx, port)
    p = cx.port(port)
    n = 0
    n_unknown = 0
    sites = []
    for fd in prog.funcs:
        for node, target, desc in prog.mutation_sites(fd):
            sites.append((fd, node, target, desc))
    solved = prog.solve([(t, fd) for fd, node, t, desc in sites])
    for (fd, node, target, desc), atoms in zip(sites, solved):
        sk = getattr(fd, 'skeleton', None)
        fname = prog.qual(fd) if sk is None else 'skeleton[{}]'.format(sk.name)
        if True:
            n += 1
            inputs = [a for a in atoms if a[0] == 'input']
            key = '{}: {} on `{}`'.format(fname, desc, node_text(target, 60))
            if inputs:
                src = inputs[0][1]
                rep.violated(key, node, 'the object modified here can be a caller\'s source object (origin: `{}` at line {}): the query changes its input'.format(node_text(src, 80), getattr(src, 'lineno', '?')))
            elif any(a[0] == 'global' for a in atoms) and not isinstance(getattr(node, 'parent', None), ast.Module):
                src = [a for a in atoms if a[0] == 'global'][0][1]
                if isinstance(target, ast.Name) and getattr(fd, 'modname', None) in p.modules:
                    from ..idioms import pure_memo_store
                    stmt = node
                    while stmt is not None and not isinstance(stmt, ast.stmt):
                        stmt = getattr(stmt, 'parent', None)
                    if stmt is not None and pure_memo_store(fd, stmt, target.id, p.module_consts(fd.modname)):
                        continue    # filling a pure memo table (decided by GS-MODSTATE): unobservable
                rep.violated(key, node, 'the object modified here can be (an element of) the module-level object defined by `{}`: state shared by every query in the process is changed, so a later query sees what an earlier one left behind'.format(node_text(src, 70)))
            elif any(a[0] == 'unknown' for a in atoms):
                n_unknown += 1
            else:
                pass
    rep.holds('mutation sites', (p.files[cx.engine_mod(port)], 0), '{} in-place modification sites in library code and composed skeletons analysed; none reaches an input object ({} with an unresolved origin among receivers that are not records)'.format(n, n_unknown))
    rep.require_count('mutation sites', n, 60, (p.files[cx.engine_mod(port)], 0))
    # the generated assignments: safe_set(up_fields, idx, value)
    tu = p.func(cx.engine_mod(port), 'translate_update_expression')
    t = node_text(tu, 6000)
    ok = ("'safe_set(up_fields, {}, '.format(var_info.index)" in t) if port == 'py' else ("safe_set(up_fields, {var_index}, " in t)
    # every generated fragment that names the record copy does so as an argument of safe_set (on every path of the translator)
    frags = []
    for c_ in ast.walk(tu):
        if isinstance(c_, ast.Call) and isinstance(c_.func, ast.Attribute) and c_.func.attr in ('append', 'push') and c_.args:
            a_ = c_.args[0]
            if isinstance(a_, ast.JoinedStr):
                frags.append((''.join(str(v.value) if isinstance(v, ast.Constant) else '{}' for v in a_.values), c_))
            elif isinstance(a_, ast.Call) and isinstance(a_.func, ast.Attribute) and a_.func.attr == 'format' and isinstance(a_.func.value, ast.Constant) and isinstance(a_.func.value.value, str):
                frags.append((a_.func.value.value, c_))
            elif isinstance(a_, ast.Constant) and isinstance(a_.value, str):
                frags.append((a_.value, c_))
    ok = ok or any(f_.lstrip().startswith('safe_set(up_fields, {}, ') for f_, c_ in frags)
    direct = [(f_, c_) for f_, c_ in frags if 'up_fields' in f_ and not f_.lstrip(' {}').startswith('safe_set(up_fields, ')]
    if direct:
        rep.violated('generated assignments', direct[0][1], 'a generated UPDATE assignment is `{}...`: it writes the record copy without safe_set, so an assignment to a field the record does not have silently grows the record instead of raising the bad-field error that names the record'.format(direct[0][0][:50]))
    else:
        rep.decide(ok, 'generated assignments', tu, 'every UPDATE assignment is safe_set(up_fields, index, value): only the per-record copy is written', 'generated UPDATE assignments no longer write through safe_set(up_fields, ...)')


def rule_ow_fresh(cx, rep, port):
    """every record handed to a sink (which may keep or modify it) is freshly allocated by the engine; headers handed to a
    sink that modifies them are not the caller's"""
    prog = _program(cx, port)
    p = cx.port(port)
    mod = cx.engine_mod(port)
    sink_names = {c.name for c in roles.sinks(p)}
    chain_names = {c.name for c in roles.chain_writers(p, mod)}
    mut = _mutates_summary(prog)
    # 1. records reaching write()
    n = 0
    wsites = []
    for (fd, call) in prog.call_sites().get('write', []):
        recv = dotted(call.func.value) if isinstance(call.func, ast.Attribute) else None
        if recv is None or not (recv.endswith('writer') or recv.endswith('subwriter')):
            continue
        if not call.args:
            continue
        wsites.append((fd, call))
    wsolved = prog.solve([(call.args[-1], fd) for fd, call in wsites])
    for (fd, call), atoms in zip(wsites, wsolved):
        arg = call.args[-1]
        n += 1
        sk = getattr(fd, 'skeleton', None)
        fname = prog.qual(fd) if sk is None else 'skeleton[{}]'.format(sk.name)
        atoms = _resolve_holes(cx, port, atoms)
        key = '{}: {}'.format(fname, node_text(call, 80))
        inputs = [a for a in atoms if a[0] == 'input']
        unknown = [a for a in atoms if a[0] == 'unknown']
        if inputs:
            rep.violated(key, call, 'a record that can be a caller\'s input row (origin `{}` line {}) is handed to the output writer: output aliases input, and writers that normalise fields in place modify the source'.format(node_text(inputs[0][1], 80), getattr(inputs[0][1], 'lineno', '?')))
        elif unknown:
            rep.undecided(key, call, 'origin of the written record not resolved: `{}`'.format(node_text(unknown[0][1], 80)))
        else:
            rep.holds(key, call, 'origins: {}'.format(_describe(atoms)))
    rep.require_count('writer.write call sites', n, 8, (p.files[mod], 0))
    # 2. headers
    hdr_mutators = [g for g in prog.by_name.get('set_header', []) if any(q in mut[id(g)] for q in func_params(g)[1:2])]
    m = 0
    for (fd, call) in prog.call_sites().get('set_header', []):
        if not call.args:
            continue
        m += 1
        atoms = prog.solve([(call.args[0], fd)])[0]
        key = '{}: {}'.format(prog.qual(fd), node_text(call, 80))
        inputs = [a for a in atoms if a[0] == 'input']
        if hdr_mutators and inputs:
            g = hdr_mutators[0]
            rep.violated(key, call, 'the header passed here can be the caller\'s own column-name list (origin `{}` line {}) and {}.set_header modifies its argument in place'.format(node_text(inputs[0][1], 80), getattr(inputs[0][1], 'lineno', '?'), prog.qual(g).split('.')[0]))
        else:
            rep.holds(key, call, 'no header-modifying set_header implementation' if not hdr_mutators else 'header origins: {}'.format(_describe(atoms)))
    rep.require_count('set_header call sites', m, 2, (p.files[mod], 0))
    # 3. summary table of which library functions modify which parameter (evidence + regression anchor)
    table = sorted('{}({})'.format(prog.qual(byfd), ','.join(sorted(ps))) for byfd, ps in ((g, mut[id(g)]) for g in prog.funcs if getattr(g, 'skeleton', None) is None) if ps)
    rep.holds('parameter-modifying functions', (p.files[mod], 0), '; '.join(table)[:380])


def _resolve_holes(cx, port, atoms):
    """the select fragment is a list display / select_except(...) call, i.e. fresh (decided from the templates that produce it)"""
    out = set()
    for a in atoms:
        if a[0] == 'hole':
            if a[1] == 'select_expression' and _select_templates_fresh(cx, port):
                out.add(('fresh', None))
            elif a[1] in ('sort_key_expression', 'aggregation_key_expression', 'where_expression', 'lhs_join_var_expression'):
                out.add(('imm', None))
            else:
                out.add(('unknown', ast.Name(id='<hole {}>'.format(a[1]), ctx=ast.Load())))
        else:
            out.add(a)
    return out


def _select_templates_fresh(cx, port):
    def compute():
        p = cx.port(port)
        mod = cx.engine_mod(port)
        ok = True
        for fname, idx in (('translate_select_expression', 0), ('translate_except_expression', 1)):
            fd = p.func(mod, fname)
            rets = [r for r in walk_no_nested(fd) if isinstance(r, ast.Return) and isinstance(r.value, (ast.Tuple, ast.List))]
            if not rets:
                return False
            e = rets[-1].value.elts[idx]
            tmpl = None
            if isinstance(e, ast.Call) and isinstance(e.func, ast.Attribute) and e.func.attr == 'format' and isinstance(e.func.value, ast.Constant):
                tmpl = e.func.value.value.replace('{}', '__X__')
            elif isinstance(e, ast.JoinedStr):
                tmpl = ''.join(str(v.value) if isinstance(v, ast.Constant) else '__X__' for v in e.values)
            if tmpl is None:
                return False
            try:
                tree = ast.parse(tmpl, mode='eval').body
            except SyntaxError:
                return False
            fresh = isinstance(tree, ast.List) or (isinstance(tree, ast.Call) and dotted(tree.func) == 'select_except') or (isinstance(tree, ast.Call) and isinstance(tree.func, ast.Attribute) and tree.func.attr == 'concat' and isinstance(tree.func.value, ast.List))
            ok = ok and fresh
        return ok
    return cx.cached(('select_templates_fresh', port), compute)


def rule_ow_selwrap(cx, rep, port):
    """the select fragment that reaches the generated program is the list-display text produced by translate_select_expression
    (or the select_except(...) call text) and passes only through literal re-insertion: nothing may strip the wrapper that makes
    every evaluation allocate a fresh list"""
    p = cx.port(port)
    mod = cx.engine_mod(port)
    rep.decide(_select_templates_fresh(cx, port), 'select templates', p.func(mod, 'translate_select_expression'), 'translate_select_expression returns a list display, translate_except_expression a select_except(...) call', 'the text returned for the select list is no longer a list display / select_except call: star items and plain lists could evaluate to an input record itself')
    # select_except(record, indices), the other wrapper, allocates its result on every path (a fast path that hands the record
    # back makes output alias input: writers that add a count column or normalise fields in place then modify the source)
    se = p.func(mod, 'select_except')
    verdict, node, why = _returns_fresh(se)
    if verdict is True:
        rep.holds('select_except result', se, why)
    elif verdict is False:
        rep.violated('select_except result', node, why)
    else:
        rep.undecided('select_except result', node, why)
    sp = p.func(mod, 'shallow_parse_input_query')
    stores = [n for n in walk_no_nested(sp) if isinstance(n, ast.Assign) and (dotted(n.targets[0]) or '') == 'query_context.select_expression']
    rep.require_count('select_expression stores', len(stores), 1, sp)
    _embedded_verbatim(rep, p, mod, port)
    for st in stores:
        chain = []
        ok, why = _trace_select_text(p, mod, sp, st.value, st, chain, 0)
        key = 'select fragment `{}`'.format(node_text(st, 80))
        if ok is True:
            rep.holds(key, st, 'produced by {} and passed only through {}'.format(why, ', '.join(chain) or 'nothing'))
        elif ok is False:
            rep.violated(key, st, why)
        else:
            rep.undecided(key, st, why)


FRESH_METHODS = ('slice', 'filter', 'map', 'concat', 'copy', 'flat', 'flatMap', 'splice', 'toSorted', 'toReversed')


def _returns_fresh(fd):
    """(True, None, why) when every value fd returns is a list it allocated itself; (False, node, why) when a path returns one
    of its parameters; (None, node, why) otherwise"""
    params = {a.arg for a in fd.args.args}

    def fresh_expr(e, depth=0):
        if isinstance(e, (ast.List, ast.ListComp, ast.Tuple)):
            return True
        if isinstance(e, ast.Call):
            d = dotted(e.func)
            if d in ('list', 'Array.from', 'Array.of', 'Array', 'sorted', 'tuple'):
                return True
            if isinstance(e.func, ast.Attribute) and e.func.attr in FRESH_METHODS:
                return True
            return None
        if isinstance(e, ast.Subscript) and isinstance(e.slice, ast.Slice):
            return True
        if isinstance(e, ast.BinOp) and isinstance(e.op, ast.Add):
            a, b_ = fresh_expr(e.left, depth), fresh_expr(e.right, depth)
            return True if (a or b_) else None
        if isinstance(e, ast.IfExp):
            a, b_ = fresh_expr(e.body, depth), fresh_expr(e.orelse, depth)
            if a is False or b_ is False:
                return False
            return True if (a and b_) else None
        if isinstance(e, ast.Name):
            defs = [n for n in walk_no_nested(fd) if isinstance(n, ast.Assign) and any(isinstance(t, ast.Name) and t.id == e.id for t in n.targets)]
            if e.id in params and not defs:
                return False
            if not defs or depth > 3:
                return None
            vals = [fresh_expr(n.value, depth + 1) for n in defs]
            if e.id in params:
                vals.append(False)
            if any(v is False for v in vals):
                return False
            return True if all(vals) else None
        return None
    rets = [r for r in walk_no_nested(fd) if isinstance(r, ast.Return) and r.value is not None]
    if not rets:
        return None, fd, '{} returns nothing'.format(fd.name)
    unknown = None
    for r in rets:
        v = fresh_expr(r.value)
        if v is False:
            return False, r, '{}() hands back its own argument (`return {}`) on a path: the output record is then the caller\'s input row itself'.format(fd.name, node_text(r.value, 40))
        if v is None:
            unknown = r
    if unknown is not None:
        return None, unknown, 'origin of `{}` returned by {}() not resolved'.format(node_text(unknown.value, 40), fd.name)
    return True, None, 'every value {}() returns is a list it allocated ({} return(s))'.format(fd.name, len(rets))


def _embedded_verbatim(rep, p, mod, port):
    """the code generator embeds the stored select fragment as it is: a generator that cuts or rewrites the fragment text on its way
    into the template can strip the same wrapper"""
    gen = p.func(mod, 'generate_main_loop_code', required=False)
    if gen is None:
        return
    sites = [c for c in walk_no_nested(gen) if isinstance(c, ast.Call) and (call_name(c) or '') in ('embed_expression', 'embed_code', 'replace_all') and len(c.args) == 3 and isinstance(c.args[1], ast.Constant) and isinstance(c.args[1].value, str) and 'select_expression' in c.args[1].value]
    for c in sites:
        v = c.args[2]
        key = 'embedding of the select fragment'
        if (dotted(v) or '').endswith('select_expression'):
            rep.holds(key, c, 'the stored fragment is embedded verbatim')
            continue
        cuts = []
        seen = set()
        work = [v]
        while work:
            e = work.pop()
            for x in ast.walk(e):
                if (isinstance(x, ast.Subscript) and isinstance(x.slice, ast.Slice)) or (isinstance(x, ast.Call) and isinstance(x.func, ast.Attribute) and x.func.attr in ('replace', 'strip', 'lstrip', 'rstrip', 'substring', 'substr', 'slice', 'removeprefix', 'removesuffix')) or (isinstance(x, ast.Call) and dotted(x.func) == 're.sub'):
                    cuts.append(x)
                if isinstance(x, ast.Name) and x.id not in seen:
                    seen.add(x.id)
                    work.extend(d.value for d in walk_no_nested(gen) if isinstance(d, ast.Assign) and any(x.id in _tnames(t) for t in d.targets))
        if cuts:
            rep.violated(key, c, 'the code generator rewrites the select fragment before embedding it (`{}`): the list display that makes `select *` / `a.*` evaluate to a fresh list can be stripped, so output records alias input rows'.format(node_text(cuts[0], 60)))
        else:
            rep.undecided(key, c, 'the embedded select fragment is `{}`, not the stored fragment'.format(node_text(v, 60)))


def _trace_select_text(p, mod, sp, e, at, chain, depth):
    if depth > 6:
        return None, 'definition chain too deep'
    if isinstance(e, ast.Call):
        nm = call_name(e) or ''
        if nm == 'combine_string_literals' and e.args:
            chain.append('combine_string_literals')
            return _trace_select_text(p, mod, sp, e.args[0], at, chain, depth + 1)
        g = p.func(mod, nm, required=False)
        if g is not None and e.args and nm not in ('translate_select_expression', 'translate_except_expression'):
            # an extra transformation of the fragment text: does it cut or rewrite its argument?
            prm = g.args.args[0].arg if g.args.args else None
            cuts = [x for x in walk_no_nested(g) if (isinstance(x, ast.Subscript) and isinstance(x.slice, ast.Slice) and prm in names_in(x.value)) or (isinstance(x, ast.Call) and isinstance(x.func, ast.Attribute) and x.func.attr in ('replace', 'strip', 'lstrip', 'rstrip', 'substring', 'substr', 'slice', 'removeprefix', 'removesuffix') and prm in names_in(x.func.value)) or (isinstance(x, ast.Call) and dotted(x.func) == 're.sub')]
            if cuts:
                return False, 'the select fragment is post-processed by {}(), which cuts or rewrites the text (`{}`): the list display that makes `select *` / `a.*` evaluate to a fresh list can be stripped, so output records alias input rows'.format(nm, node_text(cuts[0], 60))
            return None, 'the select fragment passes through {}(), whose effect on the list-display wrapper is not known'.format(nm)
        return None, 'select fragment comes from `{}`'.format(node_text(e, 60))
    if isinstance(e, ast.Name):
        defs = [n for n in walk_no_nested(sp) if isinstance(n, ast.Assign) and n is not at and any(e.id in _tnames(t) for t in n.targets) and (n.pos < at.pos or e.id.startswith('__'))]
        if not defs:
            return None, 'no definition of `{}`'.format(e.id)
        results = []
        for d in defs:
            t = d.targets[0]
            if isinstance(t, (ast.Tuple, ast.List)) and isinstance(d.value, ast.Call):
                nm = call_name(d.value) or ''
                idx = [i for i, x in enumerate(t.elts) if isinstance(x, ast.Name) and x.id == e.id]
                if nm == 'translate_select_expression' and idx == [0]:
                    results.append((True, 'translate_select_expression'))
                    continue
                if nm == 'translate_except_expression' and idx == [1]:
                    results.append((True, 'translate_except_expression'))
                    continue
                results.append((None, '`{}` is element {} of {}()'.format(e.id, idx, nm)))
                continue
            if d.value is e:
                continue
            results.append(_trace_select_text(p, mod, sp, d.value, d, chain, depth + 1))
        bad = [r for r in results if r[0] is False]
        if bad:
            return bad[0]
        unk = [r for r in results if r[0] is None]
        if unk:
            return unk[0]
        return True, ' / '.join(sorted({r[1] for r in results}))
    if isinstance(e, ast.Subscript) and isinstance(e.slice, ast.Slice):
        return False, 'the select fragment is cut by slicing (`{}`): the list display that makes `select *` / `a.*` evaluate to a fresh list can be stripped, so output records alias input rows'.format(node_text(e, 60))
    if isinstance(e, ast.Constant) and isinstance(e.value, str):
        t = e.value.strip()
        if (t.startswith('[') and t.endswith(']')) or t.startswith('[].concat('):
            return True, 'constant list display'
        return False, 'the select fragment can be the constant text `{}`, which is not a list display: the generated program emits whatever object that expression denotes (for a star the input record\'s own field array) instead of a fresh list'.format(t)
    return None, 'select fragment expression `{}` not recognised'.format(node_text(e, 60))


def _tnames(t):
    if isinstance(t, ast.Name):
        return {t.id}
    if isinstance(t, (ast.Tuple, ast.List)):
        out = set()
        for x in t.elts:
            out |= _tnames(x)
        return out
    return set()


def rule_ow_brecords(cx, rep, port):
    """the records of the join table are the caller's (for a list table: the very rows of the caller's list): the join map stores
    them and hands them out, it never changes them in place - no `fields += ...`, element store or mutating method on a record that came
    from the join iterator, neither while building the map nor later on the stored matches"""
    from ..idioms import MUTATORS
    p = cx.port(port)
    mod = cx.engine_mod(port)
    classes = [c for c in (p.cls(mod, n_, required=False) for n_ in ('HashJoinMap', 'InnerJoiner', 'LeftJoiner', 'StrictLeftJoiner')) if c is not None]
    n = 0
    bad = None
    for c in classes:
        for m in [x for x in c.body if isinstance(x, ast.FunctionDef)]:
            owned = set()
            # names bound to a record fetched from the join iterator, or to the record component of a stored match
            for a in ast.walk(m):
                if isinstance(a, ast.Assign) and len(a.targets) == 1 and isinstance(a.targets[0], ast.Name) and isinstance(a.value, ast.Call) and (call_name(a.value) or '').endswith('get_record'):
                    owned.add(a.targets[0].id)
                if isinstance(a, ast.NamedExpr) and isinstance(a.target, ast.Name) and isinstance(a.value, ast.Call) and (call_name(a.value) or '').endswith('get_record'):
                    owned.add(a.target.id)
            # sequences of stored matches: `for recs in self.hash_map.values():` ... `for nr, nf, fields in recs:`
            match_seqs = {l.target.id for l in ast.walk(m) if isinstance(l, ast.For) and isinstance(l.target, ast.Name) and 'hash_map' in node_text(l.iter, 200)}
            for a in ast.walk(m):
                if isinstance(a, ast.For) and ('hash_map' in node_text(a.iter, 200) or any(isinstance(x, ast.Name) and x.id in match_seqs for x in ast.walk(a.iter))):
                    t = a.target
                    if isinstance(t, (ast.Tuple, ast.List)) and len(t.elts) == 3 and isinstance(t.elts[2], ast.Name):
                        owned.add(t.elts[2].id)
            if not owned:
                continue
            n += 1
            for x in ast.walk(m):
                hit = None
                if isinstance(x, ast.AugAssign) and isinstance(x.target, ast.Name) and x.target.id in owned and isinstance(x.op, (ast.Add, ast.Mult)):
                    hit = x
                if isinstance(x, (ast.Assign, ast.AugAssign)):
                    for t in (x.targets if isinstance(x, ast.Assign) else [x.target]):
                        if isinstance(t, ast.Subscript) and isinstance(t.value, ast.Name) and t.value.id in owned:
                            hit = x
                if isinstance(x, ast.Call) and isinstance(x.func, ast.Attribute) and isinstance(x.func.value, ast.Name) and x.func.value.id in owned and x.func.attr in MUTATORS:
                    hit = x
                if hit is not None and bad is None:
                    bad = (c, m, hit)
    if bad:
        c, m, hit = bad
        rep.violated('{}.{}'.format(c.name, m.name), hit, '`{}` changes a record of the join table in place: for a list table these are the caller\'s own rows, which a query must leave untouched'.format(node_text(hit, 70)))
    else:
        rep.holds('join table records', (p.files[mod], 0), 'records of the join table are stored and handed out, never modified ({} method(s) that hold them)'.format(n))
    rep.require_count('methods holding join records', n, 1, (p.files[mod], 0))
