"""RS / FL rules (C14, C15): resources, faults, warning flags (Python)."""
import ast

from .. import cfg as cfgmod
from ..core import Undecided, node_text
from ..idioms import is_false, is_name, is_true, negated
from ..model import call_name, dotted, enclosing_func, is_none, names_in, walk_no_nested
from ..snippet import inline_single_defs

NORMAL = lambda a, b, lab: lab not in ('exc', 'raise', 'assert')  # noqa: E731


def _open_calls(fd):
    return [c for c in walk_no_nested(fd) if isinstance(c, ast.Call) and dotted(c.func) in ('open', 'io.open')]


def rule_rs_close(cx, rep, port='py'):
    """typestate open -> close for every open() in the CSV/sqlite front-ends, on all paths including exceptional ones"""
    p = cx.py
    n = 0
    for mod in ('rbql_csv', 'rbql_sqlite', 'rbql_main'):
        if mod not in p.modules:
            continue
        for fd in p.funcs_in(mod):
            for c in _open_calls(fd):
                n += 1
                key = '{}.{}: {}'.format(mod, fd.qualname, node_text(c))
                verdict, detail = _close_discipline(p, mod, fd, c)
                if verdict is True:
                    rep.holds(key, c, detail)
                elif verdict is False:
                    rep.violated(key, c, detail)
                else:
                    rep.undecided(key, c, detail)
    rep.require_count('open() sites', n, 8, (p.files['rbql_csv'], 0))


def _close_discipline(p, mod, fd, c):
    par = getattr(c, 'parent', None)
    # idiom 1: with open(...) as f
    if isinstance(par, ast.withitem):
        return True, 'with-statement: closed on every path'
    st = c
    while not isinstance(st, ast.stmt):
        st = st.parent
    # idiom 2: (stream, flag) = (.., False) if cond else (open(..), True) inside try whose finally closes under the flag
    if isinstance(st, ast.Assign) and isinstance(st.targets[0], ast.Tuple) and len(st.targets[0].elts) == 2:
        svar, fvar = [dotted(e) for e in st.targets[0].elts]
        v = st.value
        arms = [v.body, v.orelse] if isinstance(v, ast.IfExp) else [v]
        ok_atomic = all(isinstance(a, ast.Tuple) and len(a.elts) == 2 for a in arms)
        if not ok_atomic:
            return None, 'flagged-open idiom not recognised'
        for a in arms:
            has_open = any(x is c for x in ast.walk(a.elts[0]))
            if has_open and not is_true(a.elts[1]):
                return False, 'the stream opened here is paired with close-flag `{}`: it is never closed'.format(node_text(a.elts[1]))
            if not has_open and not is_false(a.elts[1]):
                if any(isinstance(x, ast.Call) and dotted(x.func) == 'open' for x in ast.walk(a.elts[0])):
                    continue
                return False, 'a stream that was not opened here (stdin/stdout) is flagged for closing'
        t = st.parent
        while t is not None and not isinstance(t, ast.Try):
            t = getattr(t, 'parent', None)
        opened_before = False
        if t is None:
            # `stream, flag = open(..), True` as the last thing before the try (possibly as the tail of an if/else arm): nothing can
            # fail between the open and the protected region
            cur, tail_ok = st, True
            while getattr(cur, 'parent', None) is not fd and tail_ok:
                par_ = getattr(cur, 'parent', None)
                if isinstance(par_, ast.If) and ((par_.body and par_.body[-1] is cur) or (par_.orelse and par_.orelse[-1] is cur)):
                    cur = par_
                else:
                    tail_ok = False
            if tail_ok and cur in fd.body and fd.body.index(cur) + 1 < len(fd.body) and isinstance(fd.body[fd.body.index(cur) + 1], ast.Try):
                def assigns_both(stmts):
                    return any(isinstance(s_, ast.Assign) and isinstance(s_.targets[0], ast.Tuple) and [dotted(e) for e in s_.targets[0].elts] == [svar, fvar] for s_ in stmts)
                if cur is st or (isinstance(cur, ast.If) and assigns_both(cur.body) and assigns_both(cur.orelse)):
                    t = fd.body[fd.body.index(cur) + 1]
                    opened_before = True
        if t is None or (not opened_before and st not in t.body and not any(st in ast.walk(b) for b in t.body)):
            return False, 'the file is opened outside a try/finally: an error before the end of the function leaks the descriptor'
        closes = []
        for fs in t.finalbody:
            if isinstance(fs, ast.If) and dotted(fs.test) == fvar:
                for x in ast.walk(fs):
                    if isinstance(x, ast.Call) and dotted(x.func) == svar + '.close':
                        closes.append(x)
        if not closes:
            return False, 'the finally block does not close `{}` under its flag `{}`'.format(svar, fvar)
        # flag and stream are pre-initialised before the try so the finally block is safe
        pre = [s for s in fd.body if isinstance(s, ast.Assign) and s.pos < t.pos and isinstance(s.targets[0], ast.Tuple) and [dotted(e) for e in s.targets[0].elts] == [svar, fvar]]
        if not pre and not opened_before:
            return None, 'stream/flag are not pre-initialised before the try'
        return True, 'opened atomically with its close-flag inside try; finally closes it under the flag'
    # not an idiom: the fresh handle is an argument of a call that can fail (a constructor that reads the first record, say): until
    # that call returns nothing else refers to the descriptor, so nobody can close it when the call raises
    if isinstance(par, ast.Call) and par is not c and any(a is c for a in list(par.args) + [k.value for k in par.keywords]):
        nm = (dotted(par.func) or '').split('.')[-1]
        callee = None
        for m2 in p.modules:
            k_ = p.cls(m2, nm, required=False)
            if k_ is not None:
                inits = [m_ for m_ in k_.body if isinstance(m_, ast.FunctionDef) and m_.name == '__init__']
                callee = inits[0] if inits else None
                break
            f_ = p.func(m2, nm, required=False)
            if f_ is not None:
                callee = f_
                break
        if callee is not None:
            prm = None
            pos_ = [i for i, a in enumerate(par.args) if a is c]
            if pos_:
                off = 1 if callee.args.args and callee.args.args[0].arg == 'self' else 0
                if pos_[0] + off < len(callee.args.args):
                    prm = callee.args.args[pos_[0] + off].arg
            can_fail = [x for x in walk_no_nested(callee) if isinstance(x, (ast.Call, ast.Raise))]
            protected = any(isinstance(t_, ast.Try) and (t_.finalbody or t_.handlers) and prm and any(isinstance(x, ast.Call) and dotted(x.func) == prm + '.close' for x in ast.walk(t_)) for t_ in ast.walk(callee))
            if can_fail and not protected:
                return False, 'the file is opened as an argument of `{}(...)`: while that call runs nothing else refers to the descriptor, so when it raises (e.g. the first record cannot be decoded) the file stays open'.format(nm)
        return None, 'open() passed directly to `{}`: what happens to the handle when that call fails is not decided'.format(nm)
    # idiom 3: handle stored on self, closed by finish() which the creator calls in a finally
    if isinstance(st, ast.Assign) and st.value is c and (dotted(st.targets[0]) or '').startswith('self.'):
        attr = dotted(st.targets[0])
        cls = fd.parent if isinstance(fd.parent, ast.ClassDef) else None
        if cls is None:
            return None, 'self store outside a class'
        closers = [m for m in cls.body if isinstance(m, ast.FunctionDef) and any(isinstance(x, ast.Call) and dotted(x.func) == attr + '.close' for x in ast.walk(m))]
        if not closers:
            return False, 'the handle stored in {} is never closed by any method of {}'.format(attr, cls.name)
        closer = closers[0]
        # the guard of the close must test the handle itself, or something that is certainly set whenever the handle is
        for x in ast.walk(closer):
            if isinstance(x, ast.Call) and dotted(x.func) == attr + '.close':
                g = x
                while g is not None and not isinstance(g, ast.If):
                    g = getattr(g, 'parent', None)
                    if g is closer:
                        g = None
                        break
                if g is not None:
                    tested = {dotted(y) for y in ast.walk(g.test) if isinstance(y, ast.Attribute)}
                    if attr not in tested:
                        other = sorted(t for t in tested if t and t.startswith('self.'))
                        # is the other attribute assigned before the open in the opener?
                        later = [o for o in other if any(isinstance(z, ast.Assign) and dotted(z.targets[0]) == o and z.pos > st.pos for z in walk_no_nested(fd))]
                        if later:
                            return False, '{}.{}() closes {} only when `{}` holds, but {} is assigned after the file is opened: if creating it fails (e.g. the first record cannot be decoded) the descriptor stays open'.format(cls.name, closer.name, attr, node_text(g.test, 60), later[0])
        # guard: if self.x is not None: close
        # the creator of the registry object calls closer in a finally
        users = []
        for f2 in p.funcs_in(mod):
            for t in ast.walk(f2):
                if isinstance(t, ast.Try) and t.finalbody:
                    for x in ast.walk(ast.Module(body=t.finalbody, type_ignores=[])):
                        if isinstance(x, ast.Call) and isinstance(x.func, ast.Attribute) and x.func.attr == closer.name:
                            users.append((f2, x))
        if not users:
            return False, '{}.{}() is not called from a finally block by the code that creates the object'.format(cls.name, closer.name)
        return True, 'handle kept on the object; {}.{}() closes it and is called in the creator\'s finally'.format(cls.name, closer.name)
    # idiom 3b: opened into a local that is stored on self further down: until then only the local knows the handle
    if isinstance(st, ast.Assign) and len(st.targets) == 1 and isinstance(st.targets[0], ast.Name) and st.value is c and isinstance(getattr(fd, 'parent', None), ast.ClassDef):
        svar = st.targets[0].id
        blk = None
        for field in ('body', 'orelse', 'finalbody'):
            seq = getattr(st.parent, field, None)
            if isinstance(seq, list) and st in seq:
                blk = seq
        if blk is not None:
            after = blk[blk.index(st) + 1:]
            keep = None
            for j, s2 in enumerate(after):
                if isinstance(s2, ast.Assign):
                    tg, vl = s2.targets[0], s2.value
                    pairs = list(zip(tg.elts, vl.elts)) if isinstance(tg, (ast.Tuple, ast.List)) and isinstance(vl, (ast.Tuple, ast.List)) and len(tg.elts) == len(vl.elts) else [(tg, vl)]
                    for t_, v_ in pairs:
                        if is_name(v_, svar) and (dotted(t_) or '').startswith('self.'):
                            keep = (j, dotted(t_))
                if keep:
                    break
            if keep is not None:
                between = after[:keep[0]]
                risky = [s2 for s2 in between if any(isinstance(x, ast.Call) for x in ast.walk(s2))]
                in_try = st.parent if isinstance(st.parent, ast.Try) and (st.parent.finalbody or st.parent.handlers) else None
                if risky and in_try is None:
                    return False, 'the file opened here is known only to the local `{}` while `{}` runs (it is stored in {} afterwards): if that statement raises - e.g. the first record of the file cannot be decoded - nothing closes the descriptor'.format(svar, node_text(risky[0], 70), keep[1])
                if not risky:
                    attr = keep[1]
                    cls = fd.parent
                    closers = [m for m in cls.body if isinstance(m, ast.FunctionDef) and any(isinstance(x, ast.Call) and dotted(x.func) == attr + '.close' for x in ast.walk(m))]
                    if closers:
                        return True, 'opened into a local and stored in {} at once; {}.{}() closes it'.format(attr, cls.name, closers[0].name)
    # idiom 2b: `stream = open(..)` directly followed by `flag = True`, inside a try whose finally closes the stream under the flag
    if isinstance(st, ast.Assign) and len(st.targets) == 1 and isinstance(st.targets[0], ast.Name) and st.value is c:
        svar = st.targets[0].id
        t = st.parent
        while t is not None and not (isinstance(t, ast.Try) and t.finalbody and any(st is x for b in t.body for x in ast.walk(b))):
            t = getattr(t, 'parent', None)
        if t is None:
            return None, 'open() result handling not recognised: `{}`'.format(node_text(st))
        guards = [(fs, x) for fs in t.finalbody if isinstance(fs, ast.If) and isinstance(fs.test, ast.Name) for x in ast.walk(fs) if isinstance(x, ast.Call) and dotted(x.func) == svar + '.close' and any(x is y for b in fs.body for y in ast.walk(b))]
        if not guards:
            return None, 'the finally block does not close `{}` under a plain flag'.format(svar)
        fvar = guards[0][0].test.id
        blk = None
        for field in ('body', 'orelse', 'finalbody'):
            seq = getattr(st.parent, field, None)
            if isinstance(seq, list) and st in seq:
                blk = seq
        nxt = blk[blk.index(st) + 1] if blk is not None and blk.index(st) + 1 < len(blk) else None
        if not (isinstance(nxt, ast.Assign) and len(nxt.targets) == 1 and is_name(nxt.targets[0], fvar) and is_true(nxt.value)):
            return False, 'the stream opened here is not followed at once by `{} = True`: the finally block, which closes `{}` only under that flag, leaves it open'.format(fvar, svar)
        # the flag is raised nowhere else (a standard stream must not be closed) and starts False before the try
        def bound_value(n, var):
            """the expression an assignment statement binds to `var` (None when it cannot be told)"""
            if len(n.targets) != 1:
                return None
            tg = n.targets[0]
            if is_name(tg, var):
                return n.value
            if isinstance(tg, (ast.Tuple, ast.List)) and isinstance(n.value, (ast.Tuple, ast.List)) and len(tg.elts) == len(n.value.elts):
                for te, ve in zip(tg.elts, n.value.elts):
                    if is_name(te, var):
                        return ve
            return None
        sets = [n for n in walk_no_nested(fd) if isinstance(n, ast.Assign) and any(is_name(x, fvar) for tg in n.targets for x in ast.walk(tg))]
        for n in sets:
            bv = bound_value(n, fvar)
            if n is nxt or (bv is not None and is_false(bv)):
                continue
            return None, 'the close flag `{}` is also assigned at line {}'.format(fvar, n.lineno)
        pre_f = [n for n in fd.body if isinstance(n, ast.Assign) and n.pos < t.pos and bound_value(n, fvar) is not None and is_false(bound_value(n, fvar))]
        pre_s = [n for n in fd.body if isinstance(n, ast.Assign) and n.pos < t.pos and bound_value(n, svar) is not None]
        if not pre_f or not pre_s:
            return None, 'stream/flag are not pre-initialised before the try'
        return True, 'opened inside try and flagged at once; finally closes it under the flag'
    return None, 'open() result handling not recognised: `{}`'.format(node_text(st))


def _py3_class(mod, name):
    """what a module-level name denotes on Python 3: `try: n = BrokenPipeError / except NameError: n = IOError` -> BrokenPipeError"""
    for st in mod.body:
        if isinstance(st, ast.Try):
            for b in st.body:
                if isinstance(b, ast.Assign) and dotted(b.targets[0]) == name and dotted(b.value) is not None:
                    return dotted(b.value)
        if isinstance(st, ast.Assign) and dotted(st.targets[0]) == name and dotted(st.value) is not None:
            return dotted(st.value)
    return name


def _epipe_model(cx, p, w, ms):
    """the Python CSV writer over a stream whose k-th write() fails with the broken-pipe error (k = 1, 2, never): write() returns False and
    sets broken_pipe exactly when a stream write failed, True otherwise; finish() then leaves the stream alone, and flushes (or closes, if it
    owns the stream) exactly once when the pipe is intact.  '' / problem / None (outside the abstract interpreter)"""
    from .. import absexec as AX
    init, wr, fin = ms.get('__init__'), ms.get('write'), ms.get('finish')
    if init is None or wr is None or fin is None or len(init.args.args) < 6:
        return None
    try:
        for fail_at in (1, 2, None):
            for owns in (False, True):
                selfv, stream = AX.Abs('Self'), AX.Abs('Stream')
                calls = []

                def on_call(ex, node, fname, recv, args):
                    short = node.func.attr if isinstance(node.func, ast.Attribute) else fname
                    if recv is stream and short == 'write':
                        calls.append('write')
                        if fail_at is not None and calls.count('write') == fail_at:
                            raise AX.Raised(AX.Abs('broken_pipe_exception', errno=32), node)
                        return None
                    if recv is stream and short in ('flush', 'close'):
                        calls.append(short)
                        return None
                    if fname in ('sys.stdout.close', 'sys.stderr.close'):
                        return None
                    return AX.NOT_HANDLED

                def on_name(ex, node, name):
                    if name == 'PY3':
                        return True
                    if name == 'broken_pipe_exception':
                        return ('global', 'BrokenPipeError')
                    if name in ('IOError', 'OSError', 'BrokenPipeError'):
                        return ('global', name)
                    if name == 'EPIPE':
                        return 32
                    if name in ('basestring', 'unicode'):
                        return ('builtin', 'str')
                    if name == 'polymorphic_xrange':
                        return ('builtin', 'range')
                    return AX.NOT_HANDLED

                def on_attr(ex, node, obj, attr):
                    if isinstance(obj, AX.Abs) and obj.kind == 'broken_pipe_exception' and attr == 'errno':
                        return 32
                    return AX.NOT_HANDLED
                ex = AX.Explorer(p, 'rbql_csv', on_call=on_call, on_name=on_name, on_attr=on_attr, max_choices=1)
                ex.cls = 'CSVWriter'
                ex._script, ex._pos, ex.steps, ex.depth = [], 0, 0, 0
                ex.run = AX.Run()
                ex.call_fd(init, [selfv, stream, owns, None, ',', 'quoted'])
                got = ex.call_fd(wr, [selfv, ['a', 'b']])
                failed = fail_at is not None and calls.count('write') >= fail_at
                flag = bool(ex.run.state.get((selfv.uid, 'broken_pipe'), False))
                what = 'a record written to a stream whose write() number {} fails with the broken-pipe error'.format(fail_at) if fail_at else 'a record written to an intact stream'
                if failed and (got is not False or not flag):
                    return '{}: write() returns {!r} and broken_pipe is {} (must be False and set): the engine keeps writing into a closed pipe, or finish() touches the dead stream'.format(what, got, flag)
                if not failed and (got is not True or flag):
                    return '{}: write() returns {!r} and broken_pipe is {} (must be True and clear)'.format(what, got, flag)
                before = len(calls)
                ex.steps, ex.depth = 0, 0
                ex.call_fd(fin, [selfv])
                after = calls[before:]
                if failed and after:
                    return '{}: finish() still calls {} on the stream'.format(what, ', '.join(after))
                if not failed and after != (['close'] if owns else ['flush']):
                    return '{}: finish() performs {} on the stream (must be exactly one {})'.format(what, after or 'nothing', 'close' if owns else 'flush')
    except (Undecided, AX.Cut, AX._NeedChoice, AX.Raised, KeyError, IndexError, TypeError, AttributeError, ValueError) as e_:
        import os
        if os.environ.get('RBQL_VERIF_DEBUG'):
            print('broken-pipe model gave up:', type(e_).__name__, str(e_)[:200])
        return None
    return ''


def rule_rs_epipe(cx, rep, port='py'):
    p = cx.py
    w = p.cls('rbql_csv', 'CSVWriter')
    ms = {m.name: m for m in w.body if isinstance(m, ast.FunctionDef)}
    wr = ms['write']
    em = _epipe_model(cx, p, w, ms)
    if em is not None:
        for k_ in ('pipe handler coverage', 'pipe handler verdict', 'pipe flag', 'success verdict', 'finish after broken pipe', 'pipe flag init'):
            rep.decide(em == '', k_, wr, 'a failing stream write makes write() return False with broken_pipe set and finish() leaves the stream alone; an intact stream is flushed / closed once (writer evaluated with the 1st / 2nd / no write failing, owning and not owning the stream)', em)
        _rs_epipe_handlers(cx, rep, p, ms, model=em)
        return
    rep._fallback = 'the CSV writer is outside the abstract interpreter'
    tries = [t for t in walk_no_nested(wr) if isinstance(t, ast.Try)]
    swrites = [c for c in walk_no_nested(wr) if isinstance(c, ast.Call) and call_name(c) == 'self.stream.write']
    rep.require_count('stream.write sites', len(swrites), 2, wr)
    cover = [t for t in tries if all(any(c is x for b in t.body for x in ast.walk(b)) for c in swrites)]
    if not cover:
        rep.violated('pipe handler coverage', wr, 'a stream.write() call is outside the try that handles a broken pipe: the error escapes as a raw exception')
        return
    t = cover[0]
    hs = [h for h in t.handlers if h.type is not None and dotted(h.type) in ('broken_pipe_exception', 'BrokenPipeError', 'IOError', 'OSError')]
    if not hs:
        rep.violated('pipe handler', t, 'no handler for the broken-pipe exception around the stream writes')
        return
    h = hs[0]
    g = cfgmod.CFG(wr)
    hn = [n for n in g.nodes if n.kind == 'handler' and n.ast is h][0]
    # on handler paths that do not re-raise: flag set and False returned
    rets = [n for n in g.nodes if n.kind == 'stmt' and isinstance(n.ast, ast.Return) and g.exists_path(hn, lambda x, n=n: x is n)]
    flag_sets = [n for n in g.nodes if n.kind == 'stmt' and isinstance(n.ast, ast.Assign) and dotted(n.ast.targets[0]) == 'self.broken_pipe' and is_true(n.ast.value)]
    ok_ret = rets and all(r.ast.value is not None and is_false(r.ast.value) for r in rets)
    falls = g.exists_path(hn, lambda x: x is g.exit, avoid=lambda x: isinstance(x.ast, ast.Return), edge_ok=NORMAL)
    if falls:
        rep.violated('pipe handler verdict', h, 'the broken-pipe handler can fall through without returning False')
    elif not ok_ret:
        rep.violated('pipe handler verdict', rets[0].ast if rets else h, 'the broken-pipe handler returns `{}` instead of False: the engine keeps writing into a closed pipe'.format(node_text(rets[0].ast.value) if rets else None))
    else:
        rep.holds('pipe handler verdict', h, 'a broken pipe makes write() return False')
    dom = g.dominators()
    ok_flag = flag_sets and all(any(g.dominates(f, r, dom) for f in flag_sets) for r in rets)
    rep.decide(bool(ok_flag), 'pipe flag', flag_sets[0].ast if flag_sets else h, 'broken_pipe is set before returning False', 'the broken_pipe flag is not set on the path that returns False: finish() would flush/close the dead stream')
    # success path returns True after the separator was written
    # (the return may sit inside the try or behind it: what counts is every normal path from the last stream write to the exit)
    last_w = [n for n in g.nodes if cfgmod.node_contains(n, lambda x: x is swrites[-1])]
    is_ret_true = lambda n: n.kind == 'stmt' and isinstance(n.ast, ast.Return) and n.ast.value is not None and is_true(n.ast.value)  # noqa: E731
    ok_succ = bool(last_w) and all(not g.exists_path(n, lambda x: x is g.exit, avoid=is_ret_true, edge_ok=NORMAL) and g.exists_path(n, is_ret_true, edge_ok=NORMAL) for n in last_w)
    rep.decide(ok_succ, 'success verdict', swrites[-1], 'a completed write returns True', 'a completed write does not return True')
    # finish(): nothing when the flag is set
    fin = ms['finish']
    first = fin.body[0]
    ok = isinstance(first, ast.If) and dotted(first.test) == 'self.broken_pipe' and isinstance(first.body[0], ast.Return)
    rep.decide(ok, 'finish after broken pipe', first, 'finish() does nothing after a broken pipe', 'finish() still flushes/closes the stream after a broken pipe')
    init = ms['__init__']
    ini = [n for n in walk_no_nested(init) if isinstance(n, ast.Assign) and dotted(n.targets[0]) == 'self.broken_pipe']
    rep.decide(len(ini) == 1 and is_false(ini[0].value), 'pipe flag init', ini[0] if ini else init, 'broken_pipe starts False', 'broken_pipe is not initialised to False')
    rep._fallback = None
    _rs_epipe_handlers(cx, rep, p, ms)


def _rs_epipe_handlers(cx, rep, p, ms, model=None):
    w = p.cls('rbql_csv', 'CSVWriter')
    fin = ms['finish']
    # every handler of the broken-pipe class swallows *every* BrokenPipeError: a re-raise is allowed only under a test that is false
    # when the caught class is BrokenPipeError itself (the Python 2 fallback `broken_pipe_exception == IOError`)
    mod = p.modules['rbql_csv']
    n_h = 0
    for mname in ('write', 'finish'):
        for h in [x for x in walk_no_nested(ms[mname]) if isinstance(x, ast.ExceptHandler) and x.type is not None]:
            tname = dotted(h.type)
            cls3 = _py3_class(mod, tname)
            if cls3 not in ('BrokenPipeError', 'IOError', 'OSError', 'EnvironmentError'):
                continue
            n_h += 1
            raises = [r for r in ast.walk(ast.Module(body=h.body, type_ignores=[])) if isinstance(r, ast.Raise) and r.exc is None]
            bad = None
            py2_only = cls3 == 'BrokenPipeError' and tname != cls3

            def truth(e):
                """3-valued truth on Python 3, where the caught class `tname` is BrokenPipeError (not IOError / OSError)"""
                if isinstance(e, ast.Constant):
                    return bool(e.value)
                if isinstance(e, ast.UnaryOp) and isinstance(e.op, ast.Not):
                    v = truth(e.operand)
                    return None if v is None else (not v)
                if isinstance(e, ast.BoolOp):
                    vals = [truth(v) for v in e.values]
                    if isinstance(e.op, ast.And):
                        return False if False in vals else (True if all(v is True for v in vals) else None)
                    return True if True in vals else (False if all(v is False for v in vals) else None)
                if isinstance(e, ast.IfExp):
                    c = truth(e.test)
                    if c is None:
                        a, b_ = truth(e.body), truth(e.orelse)
                        return a if a == b_ else None
                    return truth(e.body if c else e.orelse)
                if isinstance(e, ast.Compare) and len(e.ops) == 1 and py2_only:
                    l_, r_ = dotted(e.left), dotted(e.comparators[0])
                    if {l_, r_} & {tname} and ({l_, r_} - {tname}) <= {'IOError', 'OSError', 'EnvironmentError'} and l_ != r_:
                        if isinstance(e.ops[0], (ast.Eq, ast.Is)):
                            return False
                        if isinstance(e.ops[0], (ast.NotEq, ast.IsNot)):
                            return True
                return None
            for r in raises:
                dead = False
                ch, q = r, getattr(r, 'parent', None)
                while q is not None and q is not h:
                    if isinstance(q, ast.If):
                        v = truth(q.test)
                        if v is not None and ((ch in q.body and v is False) or (ch in q.orelse and v is True)):
                            dead = True
                    ch, q = q, getattr(q, 'parent', None)
                if not dead:
                    bad = r
            if bad is not None:
                rep.violated('CSVWriter.{} broken-pipe handler re-raise'.format(mname), bad, 'the handler for `{}` (= {} on Python 3) re-raises unless errno == EPIPE: a BrokenPipeError with another errno (ESHUTDOWN) or none (in-process streams) escapes as an error instead of ending the query quietly'.format(tname, cls3))
            elif cls3 != 'BrokenPipeError':
                rep.undecided('CSVWriter.{} broken-pipe handler class'.format(mname), h, 'the handler catches {} and swallows it whole: whether other IO errors may be treated as a closed pipe is not decided'.format(cls3))
            else:
                rep.holds('CSVWriter.{} broken-pipe handler re-raise'.format(mname), h, 'every BrokenPipeError is swallowed ({} re-raise(s) are Python 2 only)'.format(len(raises)))
    rep.require_count('broken-pipe handlers', n_h, 2, w)
    if model is not None:
        rep.decide(model == '', 'finish close/flush', fin, 'close iff the writer owns the stream, otherwise flush (writer evaluated owning and not owning the stream)', model)
        return
    # finish(): flush errors from a dead pipe are swallowed, everything else propagates; closing iff close_stream_on_finish
    gf = cfgmod.CFG(fin)
    tn = [n for n in gf.nodes if n.kind == 'test' and dotted(n.ast) == 'self.close_stream_on_finish']
    is_close = lambda n: cfgmod.node_contains(n, lambda x: isinstance(x, ast.Call) and dotted(x.func) == 'self.stream.close')  # noqa: E731
    is_flush = lambda n: cfgmod.node_contains(n, lambda x: isinstance(x, ast.Call) and dotted(x.func) == 'self.stream.flush')  # noqa: E731
    if len(tn) != 1:
        rep.undecided('finish close/flush', fin, 'test of close_stream_on_finish not found in finish()')
    else:
        t_succ = [s_ for s_, lab in tn[0].succ if lab == 'T']
        f_succ = [s_ for s_, lab in tn[0].succ if lab == 'F']
        def reach(srcs, pred):
            return any(pred(s_) or gf.exists_path(s_, pred, edge_ok=NORMAL) for s_ in srcs)
        # owner: every normal path closes, none flushes; not owner: every normal path flushes, none closes
        def must(srcs, pred):
            return bool(srcs) and all(pred(s_) or not gf.exists_path(s_, lambda n: n is gf.exit, avoid=pred, edge_ok=NORMAL) for s_ in srcs)
        okc = must(t_succ, is_close) and not reach(t_succ, is_flush) and must(f_succ, is_flush) and not reach(f_succ, is_close)
        rep.decide(okc, 'finish close/flush', tn[0].ast, 'close iff the writer owns the stream, otherwise flush', 'finish() does not close the stream it owns / flush the one it does not own')


def rule_rs_decerr(cx, rep, port='py'):
    """every stream.read call site is reachable only through a try whose handler maps UnicodeDecodeError to the IO error class"""
    p = cx.py
    it = p.cls('rbql_csv', 'CSVRecordIterator')
    ms = {m.name: m for m in it.body if isinstance(m, ast.FunctionDef)}
    readers = {m.name for m in ms.values() if any(isinstance(c, ast.Call) and call_name(c) == 'self.stream.read' for c in walk_no_nested(m))}
    rep.require_count('methods that read the stream', len(readers), 2, it)
    # "exposed" methods: those from which a decoding error of stream.read() can escape - the methods that read, and every method
    # that calls an exposed method outside a try whose handler catches UnicodeDecodeError.  No exposed method may be an entry
    # point of the class (a method that nothing in the class calls): the raw decoding exception would reach the user.
    def protecting_try(m, c):
        t = c
        while t is not None and t is not m:
            par = getattr(t, 'parent', None)
            if isinstance(par, ast.Try) and t in par.body:
                for h in par.handlers:
                    if h.type is None or 'UnicodeDecodeError' in node_text(h.type) or dotted(h.type) in ('Exception', 'UnicodeError', 'ValueError'):
                        return (par, h)
            t = par
        return None
    exposed = {r: [r] for r in readers}       # method -> chain down to the method that reads
    guarded = []
    changed = True
    while changed:
        changed = False
        for m in ms.values():
            for c in walk_no_nested(m):
                if isinstance(c, ast.Call) and (call_name(c) or '').startswith('self.') and (call_name(c) or '')[5:] in exposed:
                    callee = call_name(c)[5:]
                    pr = protecting_try(m, c)
                    if pr is None:
                        if m.name not in exposed:
                            exposed[m.name] = [m.name] + exposed[callee]
                            changed = True
                    elif (m.name, callee, id(c)) not in [(a_, b_, id(c_)) for a_, b_, c_, _ in guarded]:
                        guarded.append((m.name, callee, c, pr))
    # an exposed method is an entry point unless it is private to the class (leading underscore) and only called - not handed out as a
    # bound method - by the class's own methods
    handed_out = {n.attr for m in ms.values() for n in walk_no_nested(m) if isinstance(n, ast.Attribute) and dotted(n.value) == 'self' and n.attr in ms and not (isinstance(getattr(n, 'parent', None), ast.Call) and n.parent.func is n)}
    for name in sorted(exposed):
        key = '{} reads the stream'.format(name) if name in readers else '{} reaches the stream unguarded'.format(name)
        if not name.startswith('_') or name in handed_out:
            rep.violated(key, ms[name], '{}() is an entry point of the reader and reaches stream.read() ({}) outside every try that handles UnicodeDecodeError: an invalid byte surfaces as a raw decoding exception'.format(name, ' -> '.join(exposed[name])))
        else:
            rep.holds(key, ms[name], 'only called from inside the class; every chain of calls to it passes a try that handles UnicodeDecodeError')
    if not guarded:
        rep.undecided('decode-error handler', it, 'no call of a stream-reading method inside a try that handles UnicodeDecodeError was found')
    for mname, callee, c, (tr, h) in guarded:
        key = '{} called from {}'.format(callee, mname)
        raises = [r for r in ast.walk(h) if isinstance(r, ast.Raise)]
        ok = raises and all(r.exc is not None and 'RbqlIOHandlingError' in node_text(r.exc) for r in raises)
        last_raises = isinstance(h.body[-1], ast.Raise)
        if not ok or not last_raises:
            rep.violated(key, h, 'the decode-error handler does not re-raise as RbqlIOHandlingError on every path (`{}`)'.format(node_text(h.body[-1])))
        else:
            rep.holds(key, c, 'inside try; UnicodeDecodeError -> RbqlIOHandlingError')


# ------------------------------------------------------------------------------------------------ warning flags
def _flag_sites(cls, attr):
    sets, reads = [], []
    for m in [x for x in cls.body if isinstance(x, ast.FunctionDef)]:
        for n in walk_no_nested(m):
            if isinstance(n, ast.Assign) and any(dotted(t) == 'self.' + attr for t in n.targets):
                sets.append((m, n))
            if isinstance(n, ast.Attribute) and n.attr == attr and isinstance(n.ctx, ast.Load) and dotted(n) == 'self.' + attr:
                reads.append((m, n))
            if isinstance(n, ast.Assign) and isinstance(n.targets[0], ast.Subscript) and dotted(n.targets[0].value) == 'self.' + attr:
                sets.append((m, n))
    return sets, reads


def rule_fl_flags(cx, rep, port):
    """each warning flag: one initialisation (False/None/empty), set-sites only under the condition named by the warning,
    and exactly one read in get_warnings guarding its message"""
    p = cx.port(port)
    specs = [
        ('rbql_csv', 'CSVWriter', 'none_in_output' if port == 'py' else 'null_in_output', 'None' if port == 'py' else 'null', _cond_none),
        ('rbql_csv', 'CSVWriter', 'delim_in_simple_output', 'separator', _cond_delim),
        ('rbql_csv', 'CSVRecordIterator', 'utf8_bom_removed', 'BOM', None),
        ('rbql_csv', 'CSVRecordIterator', 'first_defective_line', 'double quote', _cond_defect),
    ]
    for mod, cname, attr, word, condfn in specs:
        cls = p.cls(mod, cname)
        sets, reads = _flag_sites(cls, attr)
        inits = [(m, n) for m, n in sets if m.name == '__init__']
        others = [(m, n) for m, n in sets if m.name != '__init__']
        key = '{}.{}'.format(cname, attr)
        ok_init = len(inits) == 1 and (is_false(inits[0][1].value) or is_none(inits[0][1].value))
        rep.decide(ok_init, key + ' init', inits[0][1] if inits else cls, 'initialised to "no anomaly" in the constructor', 'the flag is not initialised to "no anomaly" exactly once in the constructor: the warning would be spurious or raise AttributeError')
        gw = [m for m in cls.body if isinstance(m, ast.FunctionDef) and m.name == 'get_warnings'][0]
        gw_reads = [n for m, n in reads if m is gw and _in_if_test(n)]
        ok_read = len(gw_reads) == 1
        msg_ok = False
        if ok_read:
            iff = gw_reads[0]
            while iff is not None and not isinstance(iff, ast.If):
                iff = getattr(iff, 'parent', None)
            if iff is not None:
                pos = _positive_flag_test(iff.test, attr)
                msgs = [c for c in ast.walk(ast.Module(body=iff.body, type_ignores=[])) if isinstance(c, ast.Call) and isinstance(c.func, ast.Attribute) and c.func.attr in ('append', 'push')]
                msg_ok = pos and len(msgs) == 1 and word.lower() in node_text(msgs[0], 500).lower()
        wm = _warnings_model(cx, port, mod, cname)
        wword = {'None': 'replaced by empty', 'null': 'replaced by empty', 'separator': 'separator', 'BOM': 'bom', 'double quote': 'double quote'}.get(word)
        if wm is not None and wword in wm:
            rep.decide(wm[wword] and wm.get('__extra__', True), key + ' report', gw, 'get_warnings reports the {} warning iff the flag is set (evaluated for every combination of the flags)'.format(word), 'get_warnings does not report the {} warning exactly when the flag is set'.format(word))
        elif wm is None and not (ok_read and msg_ok):
            rep.undecided(key + ' report', gw, 'how get_warnings reads the flag was not recognised')
        else:
            rep.decide(ok_read and msg_ok, key + ' report', gw_reads[0] if gw_reads else gw, 'get_warnings reports the {} warning iff the flag is set'.format(word), 'get_warnings does not report the {} warning exactly when the flag is set (negated test, missing read or wrong message)'.format(word))
        if condfn is _cond_none and _normalize_model(cx, port) is not None:
            nm = _normalize_model(cx, port)
            rep.decide(nm == '', key + ' set-sites', cls, 'set exactly when a missing value is written as empty text (normalize_fields evaluated on five records)', nm)
        elif condfn is not None:
            if not others:
                rep.violated(key + ' set-sites', cls, 'the flag is never set: the {} warning can never appear'.format(word))
            for m, n in others:
                okc, why = condfn(p, cls, m, n, port)
                if okc is None:
                    rep.undecided('{} set in {}'.format(key, m.name), n, why)
                else:
                    rep.decide(okc, '{} set in {}'.format(key, m.name), n, why, why)
    # result order: get_warnings returns its list
    for cname in ('CSVWriter', 'CSVRecordIterator'):
        cls = p.cls('rbql_csv', cname)
        gw = [m for m in cls.body if isinstance(m, ast.FunctionDef) and m.name == 'get_warnings'][0]
        rets = [r for r in walk_no_nested(gw) if isinstance(r, ast.Return)]
        if _warnings_model(cx, port, 'rbql_csv', cname) is not None:
            rep.holds(cname + '.get_warnings result', gw, 'returns the list of messages (evaluated for every combination of the flags)')
            continue
        rep.decide(len(rets) == 1 and isinstance(rets[0].value, ast.Name), cname + '.get_warnings result', gw, 'returns the collected list', 'get_warnings does not return the collected list')


def _in_if_test(n):
    p = n
    while p is not None:
        par = getattr(p, 'parent', None)
        if isinstance(par, ast.If):
            return par.test is p or any(p is x for x in ast.walk(par.test))
        if isinstance(par, ast.stmt):
            return False
        p = par
    return False


def _positive_flag_test(t, attr):
    if dotted(t) == 'self.' + attr:
        return True
    if isinstance(t, ast.Compare) and dotted(t.left) == 'self.' + attr and is_none(t.comparators[0]) and isinstance(t.ops[0], ast.IsNot):
        return True
    return False


def _enclosing_if(n):
    iff = n
    while iff is not None:
        par = getattr(iff, 'parent', None)
        if isinstance(par, ast.If):
            return par, (iff in par.body)
        iff = par
    return None, None


def _warnings_model(cx, port, mod, cname):
    """get_warnings() of a class evaluated for every combination of its warning flags (and one / two distinct field counts): for each
    flag word, is the warning that contains the word reported exactly when the flag is set?  {word: True/False, '__order__': stable order?}
    - None when the method is outside the abstract interpreter; computed once per class"""
    memo = '_warnings_model_{}_{}_{}'.format(port, mod, cname)
    if hasattr(cx, memo):
        return getattr(cx, memo)
    import itertools
    from .. import absexec as AX
    p = cx.port(port)
    cls = p.cls(mod, cname, required=False)
    gw = [x for x in (cls.body if cls is not None else []) if isinstance(x, ast.FunctionDef) and x.name == 'get_warnings']
    flagsets = {'CSVWriter': [('none_in_output' if port == 'py' else 'null_in_output', (False, True), 'replaced by empty'), ('delim_in_simple_output', (False, True), 'separator')],
                'CSVRecordIterator': [('utf8_bom_removed', (False, True), 'bom'), ('first_defective_line', (None, 7), 'double quote'), ('fields_info', (1, 2), 'not consistent')],
                'TableIterator': [('fields_info', (1, 2), 'not consistent')]}.get(cname)
    res = None
    try:
        if len(gw) != 1 or flagsets is None:
            raise Undecided('get_warnings not found', cls)
        ok = {w: True for _, _, w in flagsets}
        orders = set()
        for combo in itertools.product(*[vals for _, vals, _ in flagsets]):
            selfv = AX.Abs('Self')
            vals = {}
            for (attr, _, _), v in zip(flagsets, combo):
                vals[attr] = ({3: 1} if v == 1 else {3: 1, 4: 5}) if attr == 'fields_info' else v
            vals['table_name'] = 'input'

            def on_attr(ex, node, obj, attr, vals=vals):
                if obj is selfv and attr in vals:
                    return vals[attr]
                return AX.NOT_HANDLED

            def on_call(ex, node, fname, recv, args):
                short = node.func.attr if isinstance(node.func, ast.Attribute) else fname
                if short == 'make_inconsistent_num_fields_warning':
                    return 'Number of fields in "input" table is not consistent: e.g. ...'
                return AX.NOT_HANDLED
            ex = AX.Explorer(p, mod, on_call=on_call, on_attr=on_attr, max_choices=1)
            runs, cut = ex.explore(gw[0], [selfv], cls=cname)
            if cut or len(runs) != 1 or runs[0].outcome[0] != 'return' or not isinstance(runs[0].outcome[1], list):
                raise Undecided('get_warnings does not return a list', gw[0])

            def text(v):
                if isinstance(v, str):
                    return v
                if isinstance(v, AX.Abs) and v.kind == 'Text':
                    return ''.join(text(x) for x in v.props['parts'])
                return str(v)
            msgs = [text(m_).lower() for m_ in runs[0].outcome[1]]
            seen = []
            for (attr, vs, word), v in zip(flagsets, combo):
                is_set = v == vs[1]
                hits = [i_ for i_, m_ in enumerate(msgs) if word in m_]
                if (len(hits) == 1) != is_set or (not is_set and hits):
                    ok[word] = False
                if hits:
                    seen.append((hits[0], word))
            if len(msgs) != len(seen):
                ok['__extra__'] = False
            orders.add(tuple(w for _, w in sorted(seen)) if len(seen) == len(flagsets) else None)
        res = ok
    except (Undecided, AX.Cut, AX._NeedChoice, AX.Raised, KeyError, IndexError, TypeError, AttributeError, ValueError) as e_:
        import os
        if os.environ.get('RBQL_VERIF_DEBUG'):
            print('get_warnings model gave up ({}):'.format(cname), type(e_).__name__, e_)
        res = None
    setattr(cx, memo, res)
    return res


def _cited_records_model(cx, port, p, mod, fd):
    """the function that picks the two records cited by the inconsistent-field-count warning, evaluated on three tables {field count:
    first record number}: '' / problem text / None (outside the abstract interpreter)"""
    from .. import absexec as AX
    try:
        for table, want in (({3: 5, 4: 2, 7: 9}, (2, 4, 5, 3)), ({2: 1, 10: 12, 1: 11}, (1, 2, 11, 1)), ({5: 30, 6: 4}, (4, 6, 30, 5))):
            ex = AX.Explorer(p, mod, max_choices=1)
            args = [dict(table)] if len(fd.args.args) == 1 else ['input', dict(table)]
            runs, cut = ex.explore(fd, args)
            if cut or len(runs) != 1 or runs[0].outcome[0] != 'return':
                return None
            v = runs[0].outcome[1]
            if isinstance(v, (list, tuple)) and len(v) == 4:
                got = tuple(v)
            elif isinstance(v, str):
                import re as _re
                nums = [int(x) for x in _re.findall(r'\d+', v.split(':', 1)[-1])]
                got = tuple(nums) if len(nums) == 4 else None
            else:
                return None
            if got != want:
                return 'for the field-count table {} (count: first record) the warning cites (record, fields) {} instead of {}: it must name the two field counts that were seen first'.format(table, got, want)
    except (Undecided, KeyError, IndexError, TypeError, AttributeError, ValueError) as e_:
        import os
        if os.environ.get('RBQL_VERIF_DEBUG'):
            print('cited records model gave up:', type(e_).__name__, e_)
        return None
    return ''


def _normalize_model(cx, port):
    """CSVWriter.normalize_fields evaluated on records with text, a missing value, a number, nested lists (with a missing value inside) and on
    a record without missing values: problem text / '' / None (outside the abstract interpreter); computed once"""
    memo = '_normalize_model_' + port
    if hasattr(cx, memo):
        return getattr(cx, memo)
    from .. import absexec as AX
    p = cx.port(port)
    cls = p.cls('rbql_csv', 'CSVWriter')
    nf = [x for x in cls.body if isinstance(x, ast.FunctionDef) and x.name == 'normalize_fields']
    flag = 'none_in_output' if port == 'py' else 'null_in_output'
    res = None
    try:
        if len(nf) != 1 or len(nf[0].args.args) != 2:
            raise Undecided('normalize_fields not found', cls)
        out = ''
        for fields, want_py, want_js, want_flag in (
                (['s', None, 5, ['x', None, 7, ['y']], ''], ['s', '', '5', 'x||7|y', ''], ['s', '', 5, 'x||7|y', ''], True),
                (['a', 3, ['b', 'c'], []], ['a', '3', 'b|c', ''], ['a', 3, 'b|c', ''], False),
                ([None], [''], [''], True), ([[None]], [''], [''], True), ([], [], [], False)):
            selfv = AX.Abs('Self')
            init = {flag: False, 'sub_array_delim': '|'}

            def on_attr(ex, node, obj, attr, init=init):
                if obj is selfv and attr in init:
                    return init[attr]
                return AX.NOT_HANDLED

            def on_name(ex, node, name):
                if name == 'PY3':
                    return True
                if name in ('basestring', 'unicode'):
                    return ('builtin', 'str')
                if name == 'polymorphic_xrange':
                    return ('builtin', 'range')
                return AX.NOT_HANDLED

            def on_call(ex, node, fname, recv, args):
                if fname == 'Array.isArray' and len(args) == 1:
                    return isinstance(args[0], list)
                if fname == 'String' and len(args) == 1 and isinstance(args[0], (int, str)) and not isinstance(args[0], bool):
                    return str(args[0])
                return AX.NOT_HANDLED
            import copy
            data = copy.deepcopy(fields)
            ex = AX.Explorer(p, 'rbql_csv', on_call=on_call, on_attr=on_attr, on_name=on_name, max_choices=1)
            runs, cut = ex.explore(nf[0], [selfv, data], cls='CSVWriter')
            if cut or len(runs) != 1 or runs[0].outcome[0] != 'return':
                raise Undecided('normalize_fields does not complete on {!r}'.format(fields), nf[0])
            want = want_py if port == 'py' else want_js
            got_flag = runs[0].state.get((selfv.uid, flag), False)
            if data != want and not out:
                out = 'the record {!r} is written as {!r} instead of {!r}'.format(fields, data, want)
            if bool(got_flag) != want_flag and not out:
                out = ('the record {!r} contains a missing value that is written as empty text, but {} is not set: the "None values in output" warning is lost' if want_flag else 'the record {!r} contains no missing value but {} is set').format(fields, flag)
        res = out
    except (Undecided, AX.Cut, AX._NeedChoice, AX.Raised, KeyError, IndexError, TypeError, AttributeError, ValueError) as e_:
        import os
        if os.environ.get('RBQL_VERIF_DEBUG'):
            print('normalize_fields model gave up:', type(e_).__name__, e_)
        res = None
    setattr(cx, memo, res)
    return res


def _cond_none(p, cls, m, n, port):
    iff, in_body = _enclosing_if(n)
    if iff is None:
        return False, 'None-in-output flag is set unconditionally'
    t = iff.test
    def none_cmp(e):
        return isinstance(e, ast.Compare) and len(e.ops) == 1 and is_none(e.comparators[0]) and isinstance(e.ops[0], (ast.Is, ast.Eq))
    ok = none_cmp(t) and in_body
    if not ok and in_body and isinstance(t, ast.BoolOp) and isinstance(t.op, ast.Or) and all(none_cmp(v) for v in t.values) and len({ast.dump(v.left) for v in t.values}) == 1:
        ok = True      # `x === null || x === undefined`: the two spellings of a missing value in JavaScript
    if not ok:
        return False, 'None-in-output flag is set under `{}` instead of "the field is None"'.format(node_text(t))
    if not is_true(n.value):
        return False, 'flag is assigned {}'.format(node_text(n.value))
    # the same arm replaces the field by ''
    repl = [s for s in iff.body if isinstance(s, ast.Assign) and isinstance(s.targets[0], ast.Subscript) and isinstance(s.value, ast.Constant) and s.value.value == '']
    if not repl:
        return False, 'the None field is not replaced by an empty string where the flag is set'
    return True, 'set exactly where a None field is replaced by an empty string'


def _cond_delim(p, cls, m, n, port):
    iff, in_body = _enclosing_if(n)
    if iff is None:
        return False, 'separator-in-output flag is set unconditionally'
    if not is_true(n.value) or not in_body:
        return False, 'flag is not set to True in the positive arm'
    t = node_text(iff.test, 300)
    # before-join check: ''.join(fields).find(delim) != -1 ; after-join check: count(delim)+1 != expected
    if ('find(self.delim) != -1' in t or 'indexOf(self.delim) != -1' in t) and 'join' in t:
        return True, 'set iff the concatenated fields contain the delimiter'
    if 'num_fields_calculated != num_fields_expected' in t or ('!=' in t and 'count' in node_text(m, 2000)):
        calc = [s for s in walk_no_nested(m) if isinstance(s, ast.Assign) and is_name(s.targets[0], 'num_fields_calculated')]
        if calc and 'count(self.delim) + 1' in node_text(calc[0].value):
            return True, 'set iff the joined line has more delimiters than fields - 1'
        return False, 'field count after join is not count(delim) + 1'
    return False, 'separator flag is set under `{}`'.format(t)


def _guard_atoms(node, stop):
    """conditions known to hold at node: tests of the enclosing ifs (negated for else arms), conjunctions flattened"""
    from ..pathsem import atoms
    conds = []
    cur = node
    while cur is not None and cur is not stop:
        par = getattr(cur, 'parent', None)
        if isinstance(par, ast.If) and cur is not par.test:
            if cur in par.body:
                conds.append((par.test, True))
            elif cur in par.orelse:
                conds.append((par.test, False))
        cur = par
    return atoms(conds)


def _cond_defect(p, cls, m, n, port):
    ats = _guard_atoms(n, m)
    if not ats:
        return False, 'defective-line flag set unconditionally'
    once = [a for a, pol in ats if pol and isinstance(a, ast.Compare) and dotted(a.left) == 'self.first_defective_line' and is_none(a.comparators[0]) and isinstance(a.ops[0], (ast.Is, ast.Eq))]
    if not once:
        return False, 'the first defective line is not recorded set-once (guards: `{}`)'.format(' and '.join(node_text(a, 60) for a, _ in ats))
    if dotted(n.value) != 'self.NL':
        return False, 'the recorded line number is `{}` instead of the physical line counter'.format(node_text(n.value))
    # the splitter's warning: second component of the pair returned by the splitting call
    wnames = set()
    for d in walk_no_nested(m):
        if isinstance(d, ast.Assign) and isinstance(d.targets[0], (ast.Tuple, ast.List)) and len(d.targets[0].elts) == 2 and isinstance(d.value, ast.Call) and isinstance(d.targets[0].elts[1], ast.Name):
            wnames.add(d.targets[0].elts[1].id)
    if not any(pol and isinstance(a, ast.Name) and a.id in wnames for a, pol in ats):
        return False, 'the defective-line flag is not guarded by the splitter\'s warning'
    return True, 'set once, to the physical line number, when the splitter reports a warning'


def rule_fl_fields(cx, rep, port):
    """fields_info: insert-if-absent per field count; warning iff more than one count; message cites the two smallest record numbers"""
    p = cx.port(port)
    targets = [('rbql_csv', 'CSVRecordIterator', 'get_record' if port == 'py' else 'process_record_line'), (cx.engine_mod(port), 'TableIterator', 'get_record')]
    for mod, cname, mname in targets:
        cls = p.cls(mod, cname)
        m = [x for x in cls.body if isinstance(x, ast.FunctionDef) and x.name == mname][0]
        key = '{}.{}'.format(cname, mname)
        def is_store(n):
            if isinstance(n, ast.Assign) and isinstance(n.targets[0], ast.Subscript) and dotted(n.targets[0].value) == 'self.fields_info':
                return True
            return isinstance(n, ast.Call) and isinstance(n.func, ast.Attribute) and n.func.attr in ('set', 'setdefault') and dotted(n.func.value) == 'self.fields_info' and len(n.args) == 2
        stores = [n for n in walk_no_nested(m) if is_store(n)]
        if len(stores) != 1:
            if not stores:
                rep.undecided(key + ' store', m, 'no store into the field-count table was recognised in {}'.format(key))
            else:
                rep.violated(key + ' store', m, 'field-count bookkeeping has {} stores'.format(len(stores)))
            continue
        s = stores[0]
        okg = False
        if isinstance(s, ast.Call) and s.func.attr == 'setdefault':
            okg = True        # dict.setdefault is insert-if-absent
        else:
            iff, in_body = _enclosing_if(s)
            if iff is not None and in_body:
                t = iff.test
                if isinstance(t, ast.Compare) and isinstance(t.ops[0], ast.NotIn) and dotted(t.comparators[0]) == 'self.fields_info':
                    okg = True
                if negated(t) is not None and isinstance(negated(t), ast.Call) and isinstance(negated(t).func, ast.Attribute) and negated(t).func.attr == 'has':
                    okg = True
        rep.decide(okg, key + ' store', s, 'first record number per field count (insert-if-absent)', 'the record number of a field count is overwritten by later records: the warning would not cite the first record of each length')
        val = s.value if isinstance(s, ast.Assign) else s.args[1]
        nr = dotted(val)
        rep.decide(nr in ('self.NR', 'self.nr'), key + ' value', s, 'stores the current record number', 'stores `{}` instead of the current record number'.format(node_text(val)))
        keyexpr = s.targets[0].slice if isinstance(s, ast.Assign) else s.args[0]
        keyexpr = inline_single_defs(keyexpr, m, depth=2)
        okk = (isinstance(keyexpr, ast.Call) and dotted(keyexpr.func) == 'len' and len(keyexpr.args) == 1) or (isinstance(keyexpr, ast.Attribute) and keyexpr.attr == 'length')
        rep.decide(bool(okk), key + ' key', s, 'keyed by the number of fields of the record', 'field-count bookkeeping is not keyed by len(record)')
        # counter must be incremented before the store (on every path to the store)
        incs = [n for n in walk_no_nested(m) if isinstance(n, ast.AugAssign) and dotted(n.target) in ('self.NR', 'self.nr')]
        okc = False
        if len(incs) == 1:
            g = cfgmod.CFG(m)
            st_of = s
            while not isinstance(st_of, ast.stmt):
                st_of = st_of.parent
            a, b_ = g.stmt_nodes(incs[0]), g.stmt_nodes(st_of)
            if a and b_:
                dom = g.dominators()
                okc = all(any(g.dominates(x, y, dom) for x in a) for y in b_)
        rep.decide(okc, key + ' counter', incs[0] if incs else m, 'record counter is incremented before it is recorded (1-based)', 'the record counter is not incremented before it is recorded')
        gw = [x for x in cls.body if isinstance(x, ast.FunctionDef) and x.name == 'get_warnings'][0]
        tests = [n for n in walk_no_nested(gw) if isinstance(n, ast.If) and 'fields_info' in node_text(n.test)]
        okt = len(tests) == 1 and isinstance(tests[0].test, ast.Compare) and isinstance(tests[0].test.ops[0], ast.Gt) and isinstance(tests[0].test.comparators[0], ast.Constant) and tests[0].test.comparators[0].value == 1
        wm = _warnings_model(cx, port, mod, cname)
        if wm is not None and 'not consistent' in wm:
            rep.decide(wm['not consistent'], cname + '.get_warnings fields', gw, 'warning iff more than one distinct field count was seen (get_warnings evaluated with one and two counts)', 'the inconsistent-field-count warning is not issued exactly when more than one field count was seen')
        elif not okt and not tests:
            rep.undecided(cname + '.get_warnings fields', gw, 'how get_warnings tests the number of field counts was not recognised')
        else:
            rep.decide(okt, cname + '.get_warnings fields', tests[0] if tests else gw, 'warning iff more than one distinct field count was seen', 'the inconsistent-field-count warning is not issued exactly when more than one field count was seen')
    # message builder: sort by record number, take the first two
    for mod in (['rbql_engine', 'rbql_csv'] if port == 'py' else ['rbql']):
        fn = 'make_inconsistent_num_fields_warning' if port == 'py' else 'sample_first_two_inconsistent_records'
        fd = p.func(mod, fn)
        cited_m = _cited_records_model(cx, port, p, mod, fd)
        if cited_m is not None:
            rep.decide(cited_m == '', '{}.{} order'.format(mod, fn), fd, 'entries ordered by record number ascending (evaluated on three field-count tables)', cited_m)
            rep.decide(cited_m == '', '{}.{} picks'.format(mod, fn), fd, 'cites the two field counts seen first', cited_m)
            continue
        rep._fallback = fn + ' is outside the abstract interpreter'
        sorts = [c for c in walk_no_nested(fd) if isinstance(c, ast.Call) and ((dotted(c.func) == 'sorted') or (isinstance(c.func, ast.Attribute) and c.func.attr == 'sort'))]
        ok = False
        if len(sorts) == 1:
            s = sorts[0]
            if port == 'py':
                kw = {k.arg: k.value for k in s.keywords}
                k = kw.get('key')
                ok = isinstance(k, ast.Lambda) and isinstance(k.body, ast.Subscript) and isinstance(k.body.slice, ast.Constant) and k.body.slice.value == 1 and 'reverse' not in kw
            else:
                f = s.args[0] if s.args else None
                from ..idioms import difference_comparator
                ok = f is not None and difference_comparator(f) == ('asc', '_[1]')
        rep.decide(ok, '{}.{} order'.format(mod, fn), sorts[0] if sorts else fd, 'entries ordered by record number ascending', 'the field-count entries are not ordered by ascending record number before the first two are cited')
        # which positions of the ordered entries are cited: constant subscripts / leading slices of the sorted sequence
        seqs = set()
        for n in walk_no_nested(fd):
            if isinstance(n, ast.Assign) and len(n.targets) == 1 and isinstance(n.targets[0], ast.Name) and any(x is sc for sc in sorts for x in ast.walk(n.value)):
                seqs.add(n.targets[0].id)
        for sc in sorts:
            if isinstance(sc.func, ast.Attribute) and sc.func.attr == 'sort' and isinstance(sc.func.value, ast.Name):
                seqs.add(sc.func.value.id)
        cited = set()
        for n in ast.walk(fd):
            if isinstance(n, ast.Subscript) and ((isinstance(n.value, ast.Name) and n.value.id in seqs) or any(n.value is sc for sc in sorts)):
                if isinstance(n.slice, ast.Constant) and isinstance(n.slice.value, int) and not isinstance(n.slice.value, bool):
                    cited.add(n.slice.value)
                elif isinstance(n.slice, ast.Slice) and (n.slice.lower is None or (isinstance(n.slice.lower, ast.Constant) and n.slice.lower.value == 0)) and isinstance(n.slice.upper, ast.Constant) and isinstance(n.slice.upper.value, int) and n.slice.step is None:
                    cited |= set(range(n.slice.upper.value))
                else:
                    cited.add('?')
        if not cited or '?' in cited:
            rep.undecided('{}.{} picks'.format(mod, fn), fd, 'which of the ordered entries the warning cites is not recognised')
        else:
            rep.decide(cited == {0, 1}, '{}.{} picks'.format(mod, fn), fd, 'cites entries 0 and 1', 'the warning cites entries {} of the ordered list instead of the first two'.format(sorted(cited)))


def rule_fl_none_complete(cx, rep, port):
    """every place where the CSV writer replaces a None/null by an empty string sets the lossy-output flag"""
    p = cx.port(port)
    cls = p.cls('rbql_csv', 'CSVWriter')
    flag = 'none_in_output' if port == 'py' else 'null_in_output'
    nm = _normalize_model(cx, port)
    if nm is not None:
        rep.decide(nm == '', 'normalize_fields', cls, 'every missing value - nested ones included - becomes empty text and sets ' + flag + ' (normalize_fields evaluated on five records)', nm)
        return
    rep._fallback = 'normalize_fields is outside the abstract interpreter'
    n = 0
    for m in [x for x in cls.body if isinstance(x, ast.FunctionDef)]:
        for iff in walk_no_nested(m):
            if not isinstance(iff, ast.If):
                continue
            t = iff.test
            if not (isinstance(t, ast.Compare) and len(t.ops) == 1 and is_none(t.comparators[0]) and isinstance(t.ops[0], (ast.Is, ast.Eq))):
                continue
            arm = iff.body
            empties = [x for s_ in arm for x in ast.walk(s_) if isinstance(x, ast.Constant) and x.value == '']
            if not empties:
                continue
            n += 1
            sets = [x for s_ in arm for x in ast.walk(s_) if isinstance(x, ast.Assign) and dotted(x.targets[0]) == 'self.' + flag and is_true(x.value)]
            key = '{}: `{}`'.format(m.name, node_text(t, 60))
            rep.decide(bool(sets), key, iff, 'the None -> empty string replacement sets ' + flag, 'a None value is replaced by an empty string in {} without setting {}: the output silently loses the distinction (no "None values in output" warning)'.format(m.name, flag))
    rep.require_count('None replacement sites', n, 1, cls)
    # implicit replacements: joining a sub-array renders its None elements as '' (JS) or fails (Python) unless the very same array
    # was normalised (recursively, by the method that sets the flag) first
    nf = [x for x in cls.body if isinstance(x, ast.FunctionDef) and x.name == 'normalize_fields']
    if len(nf) != 1:
        rep.undecided('sub-array join', cls, 'normalize_fields not found')
        return
    nf = nf[0]
    joins = [c for c in walk_no_nested(nf) if isinstance(c, ast.Call) and isinstance(c.func, ast.Attribute) and c.func.attr == 'join']
    rep.require_count('sub-array joins', len(joins), 1, nf)
    g = cfgmod.CFG(nf)
    dom = g.dominators()
    for j in joins:
        arr = j.args[0] if port == 'py' else j.func.value
        recs = [c for c in walk_no_nested(nf) if isinstance(c, ast.Call) and call_name(c) == 'self.normalize_fields' and len(c.args) == 1 and ast.dump(c.args[0]) == ast.dump(arr)]
        jn = [n_ for n_ in g.nodes if cfgmod.node_contains(n_, lambda x: x is j)]
        ok = bool(jn) and any(g.dominates(rn, jn[0], dom) for r in recs for rn in g.nodes if cfgmod.node_contains(rn, lambda x, r=r: x is r))
        rep.decide(ok, 'sub-array join `{}`'.format(node_text(arr, 40)), j, 'the joined sub-array is normalised (None -> \'\' with the flag) before it is joined', 'the array joined here (`{}`) was not itself normalised first: None elements of a nested list reach the output as empty text without the "None values in output" warning'.format(node_text(arr, 60)))


def rule_fl_collect(cx, rep, port):
    """query(): after the writer was finished, the warnings of all three sources - input iterator, join table (when the query has
    one) and output writer - are appended to the caller's warning list on every normal path: a warning that was raised inside an
    adapter but never collected 'did not appear although the anomaly occurred'."""
    from .. import pathsem
    p = cx.port(port)
    mod = cx.engine_mod(port)
    fd = p.func(mod, 'query')
    params = [a.arg for a in fd.args.args]
    if len(params) < 4:
        raise Undecided('anchor vanished: query(query_text, input_iterator, output_writer, output_warnings, ...)', fd)
    it_p, wr_p, out_p = params[1], params[2], params[3]
    ps = pathsem.paths(fd)
    if ps is None:
        rep.undecided('warning collection', fd, 'query() is not summarisable as paths')
        return

    def source_of(c):
        """which get_warnings() result does this statement-level call add to the caller's list?"""
        if not (isinstance(c, ast.Call) and isinstance(c.func, ast.Attribute) and c.func.attr in ('extend', 'push') and is_name(c.func.value, out_p) and c.args):
            return None
        a = c.args[0]
        if isinstance(a, ast.Starred):
            a = a.value
        while isinstance(a, ast.Await):
            a = a.value
        if isinstance(a, ast.Call) and isinstance(a.func, ast.Attribute) and a.func.attr == 'get_warnings':
            return dotted(a.func.value) or node_text(a.func.value, 2000)
        return None
    n = 0
    for q in ps:
        if q.kind == 'raise':
            continue
        n += 1
        got = [source_of(c) for c in q.calls]
        got = [g for g in got if g]
        have_it = any(g == it_p or g.endswith('.input_iterator') for g in got)
        have_wr = any(g == wr_p or g.endswith('.writer') or g.endswith('.output_writer') for g in got)
        have_join = any(g.endswith('join_map_impl') or g.endswith('join_map') for g in got)
        # does this path have a join?  (atom `query_context.join_map_impl is not None` / truthiness)
        joined = None
        for atom, pol in pathsem.atoms(q.conds):
            t = node_text(atom, 2000)
            if 'join_map_impl' in t or 'join_map' in t:
                if isinstance(atom, ast.Compare) and len(atom.ops) == 1 and is_none(atom.comparators[0]):
                    joined = (isinstance(atom.ops[0], (ast.IsNot, ast.NotEq))) == pol
                elif isinstance(atom, (ast.Attribute, ast.Name)) and (getattr(atom, 'attr', None) or getattr(atom, 'id', '')).startswith('join_map'):
                    joined = pol
        if not have_it:
            rep.violated('warning collection', q.node, 'a normal path of query() does not add the input iterator\'s warnings (defective quoting, inconsistent field counts, BOM) to the caller\'s list')
            return
        if not have_wr:
            rep.violated('warning collection', q.node, 'a normal path of query() does not add the output writer\'s warnings (None values, separators inside fields) to the caller\'s list')
            return
        if joined is True and not have_join:
            rep.violated('warning collection', q.node, 'on the path with a join table its warnings are not added to the caller\'s list')
            return
        if joined is None and not have_join:
            rep.violated('warning collection', q.node, 'query() never collects the warnings of the join table: anomalies in table B go unreported')
            return
    if not n:
        rep.undecided('warning collection', fd, 'no normal path of query() found')
        return
    rep.holds('warning collection', fd, 'input iterator, join table (when present) and output writer warnings are appended on every normal path ({} path(s))'.format(n))
    # ... after the writer was finished (finish() may itself produce warnings, e.g. from buffered records)
    g = cfgmod.CFG(fd)
    fin = [x for x in g.nodes if cfgmod.node_contains(x, lambda y: isinstance(y, ast.Call) and isinstance(y.func, ast.Attribute) and y.func.attr == 'finish' and (dotted(y.func.value) or '').endswith('writer'))]
    gw = [x for x in g.nodes if cfgmod.node_contains(x, lambda y: isinstance(y, ast.Call) and isinstance(y.func, ast.Attribute) and y.func.attr == 'get_warnings' and ((dotted(y.func.value) or '') == wr_p or (dotted(y.func.value) or '').endswith('writer')))]
    if fin and gw:
        dom = g.dominators()
        rep.decide(all(any(g.dominates(f, w_, dom) for f in fin) for w_ in gw), 'warnings after finish', gw[0].ast, 'the writer\'s warnings are read after writer.finish()', 'the writer\'s warnings are read before writer.finish() has run: warnings produced while flushing buffered records are lost')


def rule_rs_nullderef(cx, rep, port='py'):
    """contradiction rule (Engler et al.): an attribute that the constructor sets to None, that is filled in later and that some method
    of the class tests against None before use ("may still be None") is not dereferenced by another method without such a test -
    in the adapters these are the lazily created iterators / streams, and the unguarded use sits in clean-up code that runs exactly
    when creating them failed"""
    from .. import pathsem
    p = cx.py
    n = 0
    for mod in ('rbql_csv', 'rbql_sqlite', 'rbql_pandas', 'rbql_engine'):
        if mod not in p.modules:
            continue
        for cls in p.classes_in(mod):
            ms = {m.name: m for m in cls.body if isinstance(m, ast.FunctionDef)}
            init = ms.get('__init__')
            if init is None:
                continue
            lazy = {dotted(a.targets[0]) for a in walk_no_nested(init) if isinstance(a, ast.Assign) and len(a.targets) == 1 and (dotted(a.targets[0]) or '').startswith('self.') and isinstance(a.value, ast.Constant) and a.value.value is None}
            filled = {dotted(t) for m in ms.values() if m is not init for a in walk_no_nested(m) if isinstance(a, ast.Assign) for t in a.targets if dotted(t) in lazy and not (isinstance(a.value, ast.Constant) and a.value.value is None)}

            def none_test(e, attr):
                """+1: e says attr is not None, -1: e says it is None, 0: says nothing"""
                if isinstance(e, ast.Compare) and len(e.ops) == 1 and dotted(e.left) == attr and isinstance(e.comparators[0], ast.Constant) and e.comparators[0].value is None:
                    return 1 if isinstance(e.ops[0], (ast.IsNot, ast.NotEq)) else -1
                if dotted(e) == attr:
                    return 1
                return 0
            for attr in sorted(lazy & filled):
                believers = [m for m in ms.values() if m is not init and any(none_test(x, attr) != 0 and isinstance(x, ast.Compare) for x in ast.walk(m))]
                # methods that clean-up code calls (from a finally block) run whether or not the attribute was ever filled in
                in_finally = {c.func.attr for f2 in p.funcs_in(mod) for t in ast.walk(f2) if isinstance(t, ast.Try) for fs in t.finalbody for c in ast.walk(fs) if isinstance(c, ast.Call) and isinstance(c.func, ast.Attribute)}
                for m in ms.values():
                    if m is init:
                        continue
                    if not believers and m.name not in in_finally:
                        continue
                    derefs = [x for x in ast.walk(m) if isinstance(x, ast.Attribute) and dotted(x.value) == attr and isinstance(x.ctx, ast.Load)]
                    if not derefs:
                        continue
                    # the method that fills the attribute uses it right after the assignment
                    if any(isinstance(a, ast.Assign) and any(dotted(t) == attr for t in a.targets) for a in walk_no_nested(m)):
                        continue
                    n += 1
                    ps = pathsem.paths(m)
                    key = '{}.{}.{}: {}'.format(mod, cls.name, m.name, attr)
                    if ps is None:
                        rep.undecided(key, m, 'method not summarisable as paths')
                        continue
                    bad = None
                    for q in ps:
                        known = False
                        for t_, pol in pathsem.atoms(q.conds):
                            k_ = none_test(t_, attr)
                            if (k_ == 1 and pol) or (k_ == -1 and not pol):
                                known = True
                            if not known and any(isinstance(x, ast.Attribute) and dotted(x.value) == attr for x in ast.walk(t_)):
                                bad = (q, t_)
                                break
                        if bad:
                            break
                        if not known:
                            used = [e_ for e_ in list(q.calls) + [v for _, v in q.stores] + ([q.value] if q.value is not None else []) for x in ast.walk(e_) if isinstance(x, ast.Attribute) and dotted(x.value) == attr]
                            if used:
                                bad = (q, used[0])
                                break
                    if bad:
                        rep.violated(key, derefs[0], '{}.{}() uses `{}` without having established that {} is set ({}): it is still None when creating it failed, and the AttributeError raised here replaces the real error and skips what follows'.format(cls.name, m.name, node_text(bad[1], 60), attr, '{}() tests it against None'.format(believers[0].name) if believers else 'the method is called from a finally block'))
                    else:
                        rep.holds(key, derefs[0], 'used only where {} is known to be set'.format(attr))
    rep.require_count('lazily created attributes dereferenced', n, 1, (p.files['rbql_csv'], 0))
