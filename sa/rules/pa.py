"""PA rules (C08): the shallow parser's text-level behaviour — case-insensitivity, statement groups, literal opacity,
cleanup order, TOP/LIMIT, ASC/DESC, redundant table names."""
import ast
import re

from .. import regexlang as R
from ..core import Undecided, node_text
from ..idioms import is_name, is_true, is_false, negated
from ..model import NOCONST, call_name, const_value, dotted, enclosing_func, is_none, names_in, walk_no_nested
from .ag import _statement_groups

try:
    import re._parser as sre_parse
except ImportError:
    import sre_parse


# ------------------------------------------------------------------------------------------------ regex inventory
class RegexSite(object):
    def __init__(self, node, func, pattern, ignorecase, flags_text, kind):
        self.node, self.func, self.pattern, self.ignorecase, self.flags_text, self.kind = node, func, pattern, ignorecase, flags_text, kind


def regex_sites(cx, port, mods=None):
    p = cx.port(port)
    mods = mods or [cx.engine_mod(port)]
    cache = cx.__dict__.setdefault('_regex_sites_cache', {})
    ck = (port, tuple(mods))
    if ck in cache:
        return cache[ck]
    out = []
    cache[ck] = out
    for m in mods:
        consts = p.module_consts(m)
        compiled_mod = {}
        for st in p.modules[m].body:
            if isinstance(st, ast.Assign) and isinstance(st.targets[0], ast.Name) and isinstance(st.value, ast.Call) and dotted(st.value.func) == 're.compile' and st.value.args:
                compiled_mod[st.targets[0].id] = st.value
        for fd in p.funcs_in(m):
            local = dict(consts)
            compiled = dict(compiled_mod)
            for n in walk_no_nested(fd):
                if isinstance(n, ast.Assign) and isinstance(n.targets[0], ast.Name) and isinstance(n.value, ast.Call) and dotted(n.value.func) == 're.compile' and n.value.args:
                    compiled[n.targets[0].id] = n.value
            for n in walk_no_nested(fd):
                if isinstance(n, ast.Assign) and isinstance(n.targets[0], ast.Name):
                    v = _pattern_value(n.value, local)
                    if v is not None:
                        local[n.targets[0].id] = v
            for c in walk_no_nested(fd):
                if not isinstance(c, ast.Call):
                    continue
                d = dotted(c.func) or ''
                if port == 'py' and d.startswith('re.') and d.split('.')[1] in ('match', 'search', 'sub', 'finditer', 'findall', 'compile', 'fullmatch', 'split') and c.args:
                    pat = _pattern_value(c.args[0], local)
                    ftxt = ' '.join(node_text(a) for a in c.args[(1 if d == 're.compile' else 2):] if 're.' in node_text(a)) + ' ' + ' '.join(node_text(k.value) for k in c.keywords if k.arg == 'flags')
                    # re.sub(p, r, s, count?, flags?) positional flags are at index 4; re.search(p, s, flags) at index 2; re.compile(p, flags) at index 1
                    ic = 'IGNORECASE' in ftxt or 're.I' in ftxt.split() or (pat is not None and pat.startswith('(?i)'))
                    out.append(RegexSite(c, fd, pat, ic, ftxt.strip(), d))
                elif port == 'py' and isinstance(c.func, ast.Attribute) and isinstance(c.func.value, ast.Name) and c.func.value.id in compiled and c.func.attr in ('match', 'search', 'sub', 'finditer', 'findall', 'fullmatch', 'split'):
                    # a method of a pattern compiled elsewhere (module level or earlier in the function): same site, pattern from the compile call
                    cc = compiled[c.func.value.id]
                    pat = _pattern_value(cc.args[0], local)
                    ftxt = ' '.join(node_text(a) for a in cc.args[1:]) + ' ' + ' '.join(node_text(k.value) for k in cc.keywords if k.arg == 'flags')
                    ic = 'IGNORECASE' in ftxt or 're.I' in ftxt.split() or (pat is not None and pat.startswith('(?i)'))
                    out.append(RegexSite(c, fd, pat, ic, ftxt.strip(), 're.' + c.func.attr))
                elif port == 'js' and d == '__regex__':
                    out.append(RegexSite(c, fd, c.args[0].value, 'i' in c.args[1].value, c.args[1].value, 'literal'))
                elif port == 'js' and d == 'RegExp' and c.args:
                    pat = _pattern_value(c.args[0], local)
                    fl = const_value(c.args[1], local) if len(c.args) > 1 else ''
                    fl = fl if isinstance(fl, str) else ''
                    out.append(RegexSite(c, fd, pat, 'i' in fl, fl, 'RegExp'))
    return out


def regexes_of(cx, port, fd, depth=1):
    """every pattern that function fd applies: patterns written (or applied through a compiled object) in fd itself, module-level
    pattern constants that fd names, and - to the given depth - the same for the engine functions fd calls.  [(pattern, ignorecase, node)]"""
    p = cx.port(port)
    m = getattr(fd, 'modname', None) or cx.engine_mod(port)
    out = [(st.pattern, st.ignorecase, st.node) for st in regex_sites(cx, port, [m]) if st.func is fd and st.pattern is not None]
    consts = p.module_consts(m)
    modpats = {}
    for st in p.modules[m].body:
        if isinstance(st, ast.Assign) and len(st.targets) == 1 and isinstance(st.targets[0], ast.Name) and isinstance(st.value, ast.Call):
            d = dotted(st.value.func)
            v = st.value
            if d == '__regex__':
                modpats[st.targets[0].id] = (v.args[0].value, 'i' in v.args[1].value, v)
            elif d == 're.compile' and v.args:
                pat = _pattern_value(v.args[0], consts)
                ftxt = ' '.join(node_text(a) for a in v.args[1:]) + ' ' + ' '.join(node_text(k.value) for k in v.keywords)
                if pat is not None:
                    modpats[st.targets[0].id] = (pat, 'IGNORECASE' in ftxt or 're.I' in ftxt.split() or pat.startswith('(?i)'), v)
            elif d == 'RegExp' and v.args:
                pat = _pattern_value(v.args[0], consts)
                fl = const_value(v.args[1], consts) if len(v.args) > 1 else ''
                if pat is not None:
                    modpats[st.targets[0].id] = (pat, 'i' in (fl if isinstance(fl, str) else ''), v)
    seen_nodes = {id(n) for _, _, n in out}
    applied_here = {st.node.func.value.id for st in regex_sites(cx, port, [m]) if st.func is fd and isinstance(st.node.func, ast.Attribute) and isinstance(st.node.func.value, ast.Name)} if port == 'py' else set()
    for n in walk_no_nested(fd):
        if isinstance(n, ast.Name) and isinstance(n.ctx, ast.Load) and n.id in modpats and n.id not in applied_here and id(modpats[n.id][2]) not in seen_nodes:
            seen_nodes.add(id(modpats[n.id][2]))
            out.append(modpats[n.id])
    if depth > 0:
        for c in walk_no_nested(fd):
            if isinstance(c, ast.Call) and isinstance(c.func, ast.Name):
                g = p.func(m, c.func.id, required=False)
                if g is not None and g is not fd:
                    for item in regexes_of(cx, port, g, depth - 1):
                        if id(item[2]) not in seen_nodes:
                            seen_nodes.add(id(item[2]))
                            out.append(item)
    # one module-level pattern can be reached both by name and through a helper that applies it: report each (pattern, flag) once
    uniq, seen_pf = [], set()
    for item in out:
        if (item[0], item[1]) not in seen_pf:
            seen_pf.add((item[0], item[1]))
            uniq.append(item)
    return uniq


def _pattern_value(e, env):
    """constant pattern text; format/template holes are replaced by the marker \\x00 (a character no keyword contains)"""
    v = const_value(e, env)
    if isinstance(v, str):
        return v
    if isinstance(e, ast.Call) and isinstance(e.func, ast.Attribute) and e.func.attr == 'format' and isinstance(e.func.value, ast.Constant) and isinstance(e.func.value.value, str):
        return e.func.value.value.replace('{}', 'X')
    if isinstance(e, ast.Call) and isinstance(e.func, ast.Attribute) and e.func.attr == 'format' and not e.keywords:
        base = _pattern_value(e.func.value, env)     # (CONST + 'text{}').format(x)
        if base is not None:
            return base.replace('{}', 'X')
    if isinstance(e, ast.JoinedStr):
        def piece(x):
            if isinstance(x, ast.Constant):
                return str(x.value)
            if isinstance(x, ast.FormattedValue):
                v_ = _pattern_value(x.value, env)
                if v_ is not None:
                    return v_          # a constant (or constant-built) piece interpolated into the template
            return 'X'
        return ''.join(piece(x) for x in e.values)
    if isinstance(e, ast.BinOp) and isinstance(e.op, ast.Add):
        l, r = _pattern_value(e.left, env), _pattern_value(e.right, env)
        if l is not None or r is not None:
            return (l if l is not None else 'X') + (r if r is not None else 'X')
    if isinstance(e, ast.Call) and dotted(e.func) in ('re.compile',) and e.args:
        return _pattern_value(e.args[0], env)
    return None


def _literal_runs(tree):
    """maximal runs of LITERAL alphabetic characters (as they appear consecutively in a sequence), recursing into groups/branches"""
    runs = []

    def seq(items):
        cur = ''
        for op, av in items:
            name = str(op)
            if name == 'LITERAL' and chr(av).isalpha():
                cur += chr(av)
                continue
            if cur:
                runs.append(cur)
                cur = ''
            if name == 'SUBPATTERN':
                seq(list(av[-1]))
            elif name == 'BRANCH':
                for alt in av[1]:
                    seq(list(alt))
            elif name in ('MAX_REPEAT', 'MIN_REPEAT'):
                seq(list(av[2]))
            elif name in ('ASSERT', 'ASSERT_NOT'):
                seq(list(av[1]))
        if cur:
            runs.append(cur)
    seq(list(tree))
    return runs


PARSER_ROOTS = ['shallow_parse_input_query']
NOT_KEYWORD_RUNS = {'RBQL', 'STRING', 'LITERAL', 'INTERNAL', 'STAR', 'X'}


def _parser_functions(cx, port):
    p = cx.port(port)
    mod = cx.engine_mod(port)
    seen = set()
    work = list(PARSER_ROOTS)
    while work:
        f = work.pop()
        if f in seen:
            continue
        fd = p.func(mod, f, required=False)
        if fd is None:
            continue
        seen.add(f)
        for c in ast.walk(fd):
            if isinstance(c, ast.Call):
                nm = call_name(c)
                if nm and p.func(mod, nm, required=False) is not None:
                    work.append(nm)
    return seen


def rule_pa_case(cx, rep, port):
    """every regex of the parser that matches a keyword is case-insensitive"""
    fnames = _parser_functions(cx, port)
    pp = cx.port(port)

    class _S(object):
        pass
    sites = []
    seen_nodes = set()
    for fname in sorted(fnames):
        f_ = pp.func(cx.engine_mod(port), fname, required=False)
        if f_ is None:
            continue
        # patterns applied in the function, inline or through constants compiled / written at module level
        for pat, ic, node in regexes_of(cx, port, f_, depth=0):
            if id(node) in seen_nodes:
                continue
            seen_nodes.add(id(node))
            s_ = _S()
            s_.pattern, s_.ignorecase, s_.node, s_.func = pat, ic, node, f_
            sites.append(s_)
    n_kw = 0
    for s in sites:
        if s.pattern is None:
            continue
        try:
            tree = R.parse(R.js_to_py(s.pattern) if port == 'js' else s.pattern)
        except R.Unsupported as e:
            rep.undecided('{}: {}'.format(s.func.name, s.pattern), s.node, str(e))
            continue
        runs = [r for r in _literal_runs(tree) if len(r) >= 2 and r.upper() not in NOT_KEYWORD_RUNS and not r.startswith('X')]
        if not runs:
            continue
        n_kw += 1
        key = '{}: {}'.format(s.func.name, s.pattern)
        inline_i = bool(tree.state.flags & re.IGNORECASE)
        if s.ignorecase or inline_i:
            rep.holds(key, s.node, 'keyword(s) {} matched case-insensitively'.format(runs))
        else:
            rep.violated(key, s.node, 'the keyword pattern `{}` matches {} only in that exact letter case (no IGNORECASE flag, no per-letter classes): the same query in another case is parsed differently'.format(s.pattern, runs))
    rep.require_count('keyword regexes', n_kw, 10, (cx.port(port).files[cx.engine_mod(port)], 0))
    # statement keywords themselves: locate_statements builds (?i)... / 'ig'
    p = cx.port(port)
    ls = p.func(cx.engine_mod(port), 'locate_statements')
    lm = _locate_model(cx, port)
    if lm is not None:
        rep.decide(lm['pattern'] is None, 'locate_statements pattern', ls, 'statement keywords: case-insensitive, preceded by start/space, followed by a space (locate_statements evaluated on eleven query texts)', lm['pattern'] or '')
        rep.decide(lm['multi'] is None, 'multi-word keywords', ls, 'spaces inside multi-word keywords match any number of spaces', lm['multi'] or '')
        return
    # ... in locate_statements itself or in a module function it calls
    scope = [ls]
    for c_ in walk_no_nested(ls):
        if isinstance(c_, ast.Call) and isinstance(c_.func, ast.Name):
            h_ = p.func(cx.engine_mod(port), c_.func.id, required=False)
            if h_ is not None and h_ not in scope:
                scope.append(h_)
    t = ' '.join(node_text(f_, 3000) for f_ in scope)
    ok = ("'(?i)(?:^| ){}(?= )'" in t) if port == 'py' else ("'(?= )', 'ig')" in t and "'(?:^| )'" in t)
    builds = [c for f_ in scope for c in ast.walk(f_) if isinstance(c, ast.Call) and (dotted(c.func) in ('RegExp', 're.compile', 're.finditer', 're.search', 're.findall') or (isinstance(c.func, ast.Attribute) and c.func.attr == 'format' and '{}' in node_text(c.func.value, 200)))]
    if ok or builds:
        rep.decide(ok, 'locate_statements pattern', ls, 'statement keywords: case-insensitive, preceded by start/space, followed by a space', 'the statement pattern is no longer case-insensitive with word boundaries on both sides')
    else:
        rep.undecided('locate_statements pattern', ls, 'where locate_statements builds the keyword pattern was not recognised')
    okspace = any(isinstance(c, ast.Call) and [const_value(a) for a in c.args][-2:] == [' ', ' *'] and ((isinstance(c.func, ast.Attribute) and c.func.attr == 'replace') or dotted(c.func) == 'replace_all') for f_ in scope for c in ast.walk(f_))
    if okspace or builds:
        rep.decide(okspace, 'multi-word keywords', ls, 'spaces inside multi-word keywords match any number of spaces', 'multi-word keywords no longer tolerate repeated spaces')
    else:
        rep.undecided('multi-word keywords', ls, 'where locate_statements builds the keyword pattern was not recognised')


def rule_pa_withcase(cx, rep, port):
    """the WITH modifier is captured case-insensitively and lower-cased before it is compared with the lower-case vocabulary"""
    p = cx.port(port)
    fd = p.func(cx.engine_mod(port), 'separate_actions')
    sites = [s for s in regex_sites(cx, port) if s.func is fd and s.pattern and '[Ww][Ii][Tt][Hh]' in s.pattern or (s.func is fd and s.pattern and s.ignorecase and 'with' in s.pattern.lower())]
    if len(sites) != 1:
        raise Undecided('separate_actions: WITH modifier pattern not found', fd)
    s = sites[0]
    m = re.search(r'\\\(\((.*?)\)\\\)', s.pattern)
    if not m:
        raise Undecided('WITH pattern capture not recognised: ' + s.pattern, s.node)
    cap = m.group(1)
    try:
        lang = R.Lang(cap, re.IGNORECASE if s.ignorecase else 0)
        upper_ok = R.accepts(lang, 'HEADER') and R.accepts(lang, 'NoHeader') and R.accepts(lang, 'header')
    except R.Unsupported as e:
        raise Undecided(str(e), s.node)
    stores = [n for n in walk_no_nested(fd) if isinstance(n, ast.Assign) and isinstance(n.targets[0], ast.Subscript) and node_text(n.targets[0].slice) == 'WITH']
    lowered = stores and all(isinstance(n.value, ast.Call) and isinstance(n.value.func, ast.Attribute) and n.value.func.attr in ('lower', 'toLowerCase') for n in stores)
    if not upper_ok:
        rep.violated('WITH modifier capture', s.node, 'the modifier word is captured by `{}`, which rejects upper-case spellings: WITH (HEADER) is not recognised although every other keyword is case-insensitive'.format(cap))
    elif not lowered:
        rep.violated('WITH modifier normalisation', stores[0] if stores else fd, 'the captured modifier is compared with the lower-case vocabulary without being lower-cased')
    else:
        rep.holds('WITH modifier', s.node, 'captured in any case and lower-cased before use')
    rep.decide(s.pattern.endswith(' *$') and s.pattern.startswith('^(.*)'), 'WITH position', s.node, 'the modifier is taken only from the very end of the query', 'the WITH pattern is no longer anchored at the end of the query')


def rule_pa_groups(cx, rep, port):
    p = cx.port(port)
    mod = cx.engine_mod(port)
    groups = _statement_groups(cx, port)
    if not groups:
        raise Undecided('statement groups not found', (p.files[mod], 0))
    for g in groups:
        bad = [(a, b) for i, a in enumerate(g) for b in g[i + 1:] if b.endswith(a) and a != b]
        rep.decide(not bad, 'group {}'.format(g), (p.files[mod], 0), 'longer statements precede their suffixes', 'in statement group {} `{}` is tried before `{}`, which contains it: the longer keyword is never recognised'.format(g, *(bad[0] if bad else ('', ''))))
    flat = [x for g in groups for x in g]
    consts = p.module_consts(mod)
    kw = {v for k, v in consts.items() if k.isupper() and isinstance(v, str) and k.replace('_', ' ') == v and k not in ('WITH',)}
    missing = kw - set(flat)
    dup = {x for x in flat if flat.count(x) > 1}
    rep.decide(not missing and not dup, 'keyword coverage', (p.files[mod], 0), 'every statement keyword constant is in exactly one group: {}'.format(sorted(flat)), 'keyword constants {} are in no group / {} in several'.format(sorted(missing), sorted(dup)))
    ls = p.func(mod, 'locate_statements')
    lm = _locate_model(cx, port)
    if lm is not None:
        rep.decide(lm['first'] is None, 'first match wins', ls, 'within a group the first (longest) matching statement wins (locate_statements evaluated on eleven query texts)', lm['first'] or '')
        rep.decide(lm['order'] is None, 'order-free location', ls, 'located statements are ordered by position, so clause order is free', lm['order'] or '')
        rep.decide(lm['dup'] is None, 'duplicate statement', ls, 'a statement occurring twice is a parsing error', lm['dup'] or '')
        _pa_groups_separate_actions(cx, rep, port, p, mod)
        return
    rep._fallback = 'locate_statements is outside the abstract interpreter'
    # helpers of locate_statements (module functions it calls, one level) belong to it
    helpers = []
    for c_ in walk_no_nested(ls):
        if isinstance(c_, ast.Call) and isinstance(c_.func, ast.Name):
            h_ = p.func(mod, c_.func.id, required=False)
            if h_ is not None and h_ is not ls and h_ not in helpers and any(isinstance(x, (ast.Raise, ast.Call)) and 'More than one' in node_text(x, 300) or (isinstance(x, ast.Call) and (dotted(x.func) or '').endswith(('finditer', 'exec', 'matchAll', 'search'))) for x in ast.walk(h_)):
                helpers.append(h_)
    brk = [n for n in ast.walk(ls) if isinstance(n, ast.Break)]
    inner_loops = [n for n in walk_no_nested(ls) if isinstance(n, (ast.For, ast.While)) and isinstance(getattr(n, 'parent', None), (ast.For, ast.While))]
    if len(brk) == 1:
        rep.holds('first match wins', brk[0], 'within a group the first (longest) matching statement wins')
    elif not brk and inner_loops and not helpers and all(isinstance(l_, ast.For) and not any(isinstance(x, ast.Return) for x in ast.walk(l_)) for l_ in inner_loops):
        rep.violated('first match wins', inner_loops[0], 'locate_statements no longer stops at the first matching statement of a group')
    else:
        rep.undecided('first match wins', ls, 'how locate_statements picks one statement of a group was not recognised ({} break statements)'.format(len(brk)))
    # every blank inside a multi-word keyword stands for "any number of blanks": the translation into a pattern replaces *all* of
    # them (JavaScript's String.replace with a string pattern replaces the first one only)
    flex = []
    for c in ast.walk(ls):
        if isinstance(c, ast.Call):
            if dotted(c.func) == 'replace_all' and len(c.args) == 3 and const_value(c.args[1]) == ' ':
                flex.append((c, True))
            elif isinstance(c.func, ast.Attribute) and c.func.attr in ('replace', 'replaceAll') and len(c.args) == 2:
                a0 = c.args[0]
                if const_value(a0) == ' ':
                    flex.append((c, port == 'py' or c.func.attr == 'replaceAll'))
                elif isinstance(a0, ast.Call) and dotted(a0.func) == '__regex__' and a0.args[0].value in (' ', ' +', '\\s', '\\s+', '[ ]'):
                    flex.append((c, 'g' in a0.args[1].value))
    if flex:
        firsts = [c for c, all_ in flex if not all_]
        rep.decide(not firsts, 'flexible blanks', (firsts or [flex[0][0]])[0], 'every blank of a keyword becomes a flexible blank in its pattern', '`{}` replaces only the first blank of a keyword: in a three-word keyword (LEFT OUTER JOIN, STRICT LEFT JOIN) the second gap accepts exactly one blank, so an extra space or a tab there makes the keyword unrecognised'.format(node_text((firsts or [flex[0][0]])[0], 60)))
    srt = [c for c in walk_no_nested(ls) if isinstance(c, ast.Call) and (dotted(c.func) == 'sorted' or (isinstance(c.func, ast.Attribute) and c.func.attr == 'sort'))]
    if len(srt) == 1:
        rep.holds('order-free location', srt[0], 'located statements are ordered by position, so clause order is free')
    elif not srt and not helpers:
        rep.violated('order-free location', ls, 'located statements are not sorted by position')
    else:
        rep.undecided('order-free location', ls, 'how the located statements are ordered was not recognised')
    dupchk = [r for f_ in [ls] + helpers for r in walk_no_nested(f_) if isinstance(r, ast.Raise)]
    def more_than_one(t):
        return isinstance(t, ast.Compare) and len(t.ops) == 1 and isinstance(t.left, ast.Call) and dotted(t.left.func) == 'len' and ((isinstance(t.ops[0], ast.Gt) and const_value(t.comparators[0]) == 1) or (isinstance(t.ops[0], ast.GtE) and const_value(t.comparators[0]) == 2))
    if len(dupchk) == 1 and isinstance(dupchk[0].parent, ast.If) and dupchk[0] in dupchk[0].parent.body and more_than_one(dupchk[0].parent.test):
        rep.holds('duplicate statement', dupchk[0], 'a statement occurring twice is a parsing error')
    elif not dupchk:
        rep.violated('duplicate statement', ls, 'a repeated statement is no longer rejected')
    else:
        rep.undecided('duplicate statement', dupchk[0], 'the condition under which a repeated statement is rejected (`{}`) was not recognised'.format(node_text(getattr(dupchk[0].parent, 'test', dupchk[0]), 60)))
    rep._fallback = None
    _pa_groups_separate_actions(cx, rep, port, p, mod)


def _pa_groups_separate_actions(cx, rep, port, p, mod):
    # separate_actions: join subtypes collapse to JOIN
    sa = p.func(mod, 'separate_actions')
    t = node_text(sa, 6000)
    okj = "statement_params['join_subtype'] = statement" in t and 'statement = JOIN' in t
    rep.decide(okj, 'join subtype', sa, 'all join spellings become the JOIN action with their subtype', 'join spellings are no longer collapsed into the JOIN action with a subtype')
    spans = "span = rbql_expression[span_start:span_end]" in t or 'span = rbql_expression.substring(span_start, span_end)' in t
    rep.decide(spans, 'clause span', sa, 'a clause extends from its keyword to the next located keyword', 'clause spans are no longer keyword-to-next-keyword')


def rule_pa_litorder(cx, rep, port):
    """character-rewriting cleanup (tab -> space) happens after literal extraction; cleanup before extraction acts only on whole
    lines and the final `;`; the parser extracts literals first"""
    p = cx.port(port)
    mod = cx.engine_mod(port)
    ssl = p.func(mod, 'separate_string_literals')
    param = ssl.args.args[0].arg
    lm = _literals_model(cx, port)
    reps = [c for c in walk_no_nested(ssl) if isinstance(c, ast.Call) and isinstance(c.func, ast.Attribute) and c.func.attr == 'replace']
    def extracts(c):
        # param.replace(<the literal pattern>, <function>): the extraction itself, written as a substitution with a callback
        if not (is_name(c.func.value, param) and len(c.args) == 2):
            return False
        a0 = c.args[0]
        pat_ = a0.args[0].value if isinstance(a0, ast.Call) and dotted(a0.func) == '__regex__' and a0.args and isinstance(a0.args[0], ast.Constant) else (const_value(a0) if isinstance(const_value(a0), str) else None)
        if pat_ is None and isinstance(a0, ast.Name):
            pat_ = next((st_.pattern for st_ in regex_sites(cx, port, [mod]) if st_.func is ssl and st_.pattern), None)
        return isinstance(pat_, str) and '"' in pat_ and "'" in pat_ and not isinstance(c.args[1], ast.Constant)
    bad = [c for c in reps if is_name(c.func.value, param) and not extracts(c)]
    good = [c for c in reps if not is_name(c.func.value, param)]
    if lm is not None:
        rep.decide(lm == '', 'tab rewrite', ssl, 'tab -> space is applied to the literal-free text only (separate_string_literals evaluated on query texts with tabs inside and outside literals)', lm)
    elif bad:
        rep.violated('tab rewrite', bad[0], 'characters are rewritten in the raw query text before the string literals are extracted: tabs inside literals are changed')
    elif len(good) == 1:
        rep.holds('tab rewrite', good[0], 'tab -> space is applied to the literal-free text only')
    else:
        rep.undecided('tab rewrite', ssl, 'tab rewrite not found')
    cq = p.func(mod, 'cleanup_query')
    sc = p.func(mod, 'strip_comments')
    ops = set()
    for fd in (cq, sc):
        for c in walk_no_nested(fd):
            if isinstance(c, ast.Call) and isinstance(c.func, ast.Attribute):
                ops.add(c.func.attr)
            if isinstance(c, ast.Call) and (dotted(c.func) or '').startswith('re.'):
                ops.add(dotted(c.func))
    allowed = {'split', 'strip', 'trim', 'lstrip', 'trimStart', 'trimEnd', 'trimLeft', 'trimRight', 'startswith', 'startsWith', 'join', 'rstrip', 'map', 'filter', 'replace',
               'append', 'push', 'extend'}      # accumulating lines in a list does not touch their characters
    extra = ops - allowed
    rep.decide(not extra, 'cleanup operations', cq, 'cleanup uses only line splitting, trimming, comment-line removal, joining, final-semicolon removal', 'cleanup_query/strip_comments apply {} to the raw text (literal contents could change)'.format(sorted(extra)))
    if 'replace' in ops:
        r = [c for fd in (cq, sc) for c in walk_no_nested(fd) if isinstance(c, ast.Call) and isinstance(c.func, ast.Attribute) and c.func.attr == 'replace']
        ok = all(isinstance(c.args[0], ast.Call) and dotted(c.args[0].func) == '__regex__' and c.args[0].args[0].value == ';+$' for c in r)
        rep.decide(ok, 'cleanup replace', r[0], 'the only replace removes trailing semicolons', 'cleanup replaces `{}` in the raw text'.format(node_text(r[0].args[0])))
    _comment_lines(rep, p, mod, port, cq, sc)
    sp = p.func(mod, 'shallow_parse_input_query')
    calls = [(c.lineno, call_name(c)) for c in walk_no_nested(sp) if isinstance(c, ast.Call) and call_name(c) in ('cleanup_query', 'separate_string_literals', 'separate_actions', 'remove_redundant_input_table_name', 'remove_redundant_table_name')]
    order = [n for _, n in sorted(calls)]
    rep.decide(order[:2] == ['cleanup_query', 'separate_string_literals'] and order[-1] == 'separate_actions', 'parser order', sp, 'cleanup -> literal extraction -> (redundant table name removal) -> clause separation', 'parser stages run in the order {}'.format(order))
    if lm is not None:
        rep.decide(lm == '', 'literal ids', ssl, 'literal i is replaced by marker i and re-inserted from position i (extraction and re-insertion evaluated on six query texts)', lm)
    else:
        _literal_markers(rep, p, mod, ssl)


def _star_model_verdict(cx, port):
    from .hd import _star_model
    p = cx.port(port)
    mod = cx.engine_mod(port)
    f1 = p.func(mod, 'replace_star_vars', required=False)
    f2 = p.func(mod, 'replace_star_vars_for_ast' if port == 'py' else 'replace_star_vars_for_header_parsing', required=False)
    if f1 is None or f2 is None:
        return None
    return _star_model(cx, port, p, mod, f1, f2)


def _locate_model(cx, port):
    """locate_statements evaluated on eleven literal-free query texts: every clause keyword is found whatever its letter case, only as a
    whole word followed by a blank, multi-word keywords with any number of blanks between the words, the longest keyword of a group
    wins, the result is ordered by position, a keyword that occurs twice is a parsing error.
    {obligation: problem or None} / None (outside the abstract interpreter); computed once per port"""
    memo = '_locate_model_' + port
    if hasattr(cx, memo):
        return getattr(cx, memo)
    import re as _re
    from .. import absexec as AX
    p = cx.port(port)
    mod = cx.engine_mod(port)
    groups = [['STRICT LEFT JOIN', 'LEFT OUTER JOIN', 'LEFT JOIN', 'INNER JOIN', 'JOIN'], ['SELECT'], ['ORDER BY'], ['WHERE'], ['UPDATE'], ['GROUP BY'], ['LIMIT'], ['EXCEPT']]

    def oracle(text):
        out = []
        for g in groups:
            for kw in g:
                found = [m_ for m_ in _re.finditer('(?:^| )' + kw.replace(' ', ' *') + '(?= )', text, _re.IGNORECASE)]
                if not found:
                    continue
                if len(found) > 1:
                    return 'error'
                out.append((found[0].start(), found[0].end(), kw))
                break
        return sorted(out)
    cases = [('pattern', 'select a1 where a2 order by a3 desc'), ('pattern', 'SeLeCt a1 WHERE a2 Order By a3'), ('pattern', 'selection a1 reselect a2 whereas a3 select a4 where'),
             ('multi', 'select a1 strict   left  join b on a1 == b1 group     by a2'), ('multi', 'select a1 left outer  join b on a1 == b1'),
             ('first', 'select a1 inner join b on a1 == b1 where a2'), ('first', 'select a1 left join b on a1 == b1'), ('first', 'update a1 = 1 strict left join b on a1 == b1'),
             ('order', 'where a1 select a2 limit 3'), ('dup', 'select a1 where a2 where a3'), ('dup', 'select a1 join b on a1 == b1 join c on a2 == c1')]
    res = {'pattern': None, 'multi': None, 'first': None, 'order': None, 'dup': None}
    try:
        fd = p.func(mod, 'locate_statements')
        n_params = len(fd.args.args)
        for kind, text in cases:
            def on_call(ex, node, fname, recv, args):
                if isinstance(node.func, ast.Name) and node.func.id.endswith('Error'):
                    return AX.Abs('Exc', cls=node.func.id)
                if fname == 'assert':
                    return None
                return AX.NOT_HANDLED
            ex = AX.Explorer(p, mod, on_call=on_call, max_choices=1)
            runs, cut = ex.explore(fd, [[list(g) for g in groups], text] if n_params == 2 else [text])
            if cut or len(runs) != 1:
                raise Undecided('locate_statements does not complete for {!r}'.format(text), fd)
            okind, val, _n = runs[0].outcome
            want = oracle(text)
            if okind == 'raise':
                got = 'error' if isinstance(val, AX.Abs) and val.props.get('cls') == 'RbqlParsingError' else 'another error'
            elif isinstance(val, list) and all(isinstance(x, (list, tuple)) and len(x) == 3 for x in val):
                got = [tuple(x) for x in val]
            else:
                raise Undecided('locate_statements result {!r}'.format(val), fd)
            if got != want and res[kind] is None:
                def show(v):
                    return v if isinstance(v, str) else [(k, a_, b_) for a_, b_, k in v]
                res[kind] = 'for the query text `{}` the clause keywords located are {} instead of {}'.format(text, show(got), show(want))
    except (Undecided, AX.Cut, AX._NeedChoice, KeyError, IndexError, TypeError, AttributeError, ValueError) as e_:
        import os
        if os.environ.get('RBQL_VERIF_DEBUG'):
            print('locate_statements model gave up:', type(e_).__name__, str(e_)[:200])
        res = None
    setattr(cx, memo, res)
    return res


def _literals_model(cx, port):
    """separate_string_literals evaluated on six query texts (a tab inside and outside a literal, adjacent literals, an escaped quote, `$`
    sequences, an empty literal, JS: a backtick literal), and combine_string_literals applied to its result: the literals are listed
    in order of appearance with their quotes, each replaced by the marker that carries its list position, tabs outside literals
    become blanks, and re-insertion gives back the text (with those blanks).  '' / problem / None (outside the interpreter)"""
    memo = '_literals_model_' + port
    if hasattr(cx, memo):
        return getattr(cx, memo)
    from .. import absexec as AX
    p = cx.port(port)
    mod = cx.engine_mod(port)
    res = None
    try:
        ssl = p.func(mod, 'separate_string_literals')
        cb = p.func(mod, 'combine_string_literals')
        M = '___RBQL_STRING_LITERAL{}___'
        cases = [("select 'a\tb', \"c\" where\tx", ["'a\tb'", '"c"'], 'select {}, {} where x'.format(M.format(0), M.format(1))),
                 ("x\t", [], 'x '),
                 ("'p'+'q'+\"r\"", ["'p'", "'q'", '"r"'], '{}+{}+{}'.format(M.format(0), M.format(1), M.format(2))),
                 ("'it\\'s' a1", ["'it\\'s'"], '{} a1'.format(M.format(0))),
                 ("'$1' || \"$&\" || '\\\\1'", ["'$1'", '"$&"', "'\\\\1'"], '{} || {} || {}'.format(M.format(0), M.format(1), M.format(2))),
                 ("a1 == ''", ["''"], 'a1 == {}'.format(M.format(0)))]
        if port == 'js':
            cases.append(("`t1` + 'u'", ['`t1`', "'u'"], '{} + {}'.format(M.format(0), M.format(1))))
        out = ''
        for text, want_lits, want_fmt in cases:
            runs, cut = AX.Explorer(p, mod, max_choices=1).explore(ssl, [text])
            if cut or len(runs) != 1 or runs[0].outcome[0] != 'return':
                raise Undecided('separate_string_literals does not return for {!r}'.format(text), ssl)
            v = runs[0].outcome[1]
            if not (isinstance(v, (list, tuple)) and len(v) == 2 and isinstance(v[0], str) and isinstance(v[1], list)):
                raise Undecided('separate_string_literals result {!r}'.format(v), ssl)
            fmt, lits = v
            if lits != want_lits and not out:
                out = 'for the query text {!r} the literals set aside are {!r} instead of {!r}'.format(text, lits, want_lits)
            elif fmt != want_fmt and not out:
                out = 'for the query text {!r} the literal-free text is {!r} instead of {!r} (each literal replaced by the marker with its list position; tabs outside literals become blanks)'.format(text, fmt, want_fmt)
            runs2, cut2 = AX.Explorer(p, mod, max_choices=1).explore(cb, [fmt, list(lits)])
            if cut2 or len(runs2) != 1 or runs2[0].outcome[0] != 'return' or not isinstance(runs2[0].outcome[1], str):
                raise Undecided('combine_string_literals does not return a text', cb)
            back = runs2[0].outcome[1]
            if back != text.replace('\t', ' ') and not (back == text) and not out:
                # tabs inside literals survive the round trip, tabs outside have become blanks
                want_back = ''
                rest, k = want_fmt, 0
                for i_, l_ in enumerate(want_lits):
                    rest = rest.replace(M.format(i_), l_, 1)
                if back != rest:
                    out = 'for the query text {!r} re-inserting the literals gives {!r} instead of {!r}'.format(text, back, rest)
        res = out
    except (Undecided, AX.Cut, AX._NeedChoice, AX.Raised, KeyError, IndexError, TypeError, AttributeError, ValueError) as e_:
        import os
        if os.environ.get('RBQL_VERIF_DEBUG'):
            print('literals model gave up:', type(e_).__name__, str(e_)[:200])
        res = None
    setattr(cx, memo, res)
    return res


def marker_template(e):
    """(prefix, suffix, hole expression) of an expression that builds '<prefix><hole><suffix>': 'a{}b'.format(h), f'a{h}b',
    'a' + str(h) + 'b', 'a%db' % h"""
    if isinstance(e, ast.Call) and isinstance(e.func, ast.Attribute) and e.func.attr == 'format' and isinstance(e.func.value, ast.Constant) and isinstance(e.func.value.value, str) and len(e.args) == 1 and not e.keywords:
        t = e.func.value.value
        for hole in ('{}', '{0}', '{:d}'):
            if t.count(hole) == 1 and t.count('{') == 1:
                pre, suf = t.split(hole)
                return pre, suf, e.args[0]
        return None
    if isinstance(e, ast.JoinedStr):
        holes = [v for v in e.values if isinstance(v, ast.FormattedValue)]
        if len(holes) != 1:
            return None
        i = e.values.index(holes[0])
        pre = ''.join(v.value for v in e.values[:i] if isinstance(v, ast.Constant))
        suf = ''.join(v.value for v in e.values[i + 1:] if isinstance(v, ast.Constant))
        return pre, suf, holes[0].value
    if isinstance(e, ast.BinOp) and isinstance(e.op, ast.Add):
        parts = concat_parts(e)
        consts = [isinstance(x, ast.Constant) and isinstance(x.value, str) for x in parts]
        if len(parts) == 3 and consts == [True, False, True]:
            h = parts[1]
            if isinstance(h, ast.Call) and dotted(h.func) in ('str', 'String') and len(h.args) == 1:
                h = h.args[0]
            return parts[0].value, parts[2].value, h
        return None
    if isinstance(e, ast.BinOp) and isinstance(e.op, ast.Mod) and isinstance(e.left, ast.Constant) and isinstance(e.left.value, str):
        t = e.left.value
        for hole in ('%d', '%s', '%i'):
            if t.count(hole) == 1 and t.count('%') == 1:
                pre, suf = t.split(hole)
                h = e.right.elts[0] if isinstance(e.right, ast.Tuple) and len(e.right.elts) == 1 else e.right
                return pre, suf, h
    return None


def concat_parts(e):
    if isinstance(e, ast.BinOp) and isinstance(e.op, ast.Add):
        return concat_parts(e.left) + concat_parts(e.right)
    return [e]


def _literal_markers(rep, p, mod, ssl):
    """extraction replaces literal number i (i = its position in the returned list, the whole literal incl. quotes is stored) by
    marker(i); re-insertion replaces marker(i) by element i of the list, for every i"""
    from .. import snippet
    cb = p.func(mod, 'combine_string_literals')
    # --- extraction
    rets = [r for r in walk_no_nested(ssl) if isinstance(r, ast.Return) and isinstance(r.value, (ast.Tuple, ast.List)) and len(r.value.elts) == 2]
    if len(rets) != 1 or not isinstance(rets[0].value.elts[1], ast.Name):
        rep.undecided('literal ids', ssl, 'returned (text, literal list) pair not recognised')
        return
    lst = rets[0].value.elts[1].id
    apps = [c for c in walk_no_nested(ssl) if isinstance(c, ast.Call) and isinstance(c.func, ast.Attribute) and c.func.attr in ('append', 'push') and is_name(c.func.value, lst)]
    marks = [(x, marker_template(x)) for x in walk_no_nested(ssl) if isinstance(x, (ast.Call, ast.JoinedStr, ast.BinOp))]
    marks = [(x, m) for x, m in marks if m is not None and 'RBQL_STRING_LITERAL' in m[0]]
    if len(apps) != 1 or len(marks) != 1:
        rep.undecided('literal ids', ssl, 'expected one literal append and one marker construction, found {} and {}'.format(len(apps), len(marks)))
        return
    app, (mnode, (pre, suf, hole)) = apps[0], marks[0]
    loop = app
    while loop is not None and not isinstance(loop, (ast.For, ast.While)):
        loop = getattr(loop, 'parent', None)
    app_stmt = app
    while not isinstance(app_stmt, ast.stmt):
        app_stmt = app_stmt.parent
    if loop is None or app_stmt not in loop.body:
        rep.undecided('literal ids', app, 'the literal is not appended unconditionally in the extraction loop')
        return
    # what is stored: the whole match
    stored = snippet.inline_single_defs(app.args[0], ssl)
    whole = (isinstance(stored, ast.Call) and isinstance(stored.func, ast.Attribute) and stored.func.attr == 'group' and (not stored.args or const_value(stored.args[0]) == 0)) or (isinstance(stored, ast.Subscript) and const_value(stored.slice) == 0)
    part = (isinstance(stored, ast.Call) and isinstance(stored.func, ast.Attribute) and stored.func.attr == 'group') or isinstance(stored, ast.Subscript)
    # the id: len(list) evaluated before the append of the same iteration, or the loop's enumerate counter from 0
    id_ok = None
    h = hole
    hstmt = mnode
    while not isinstance(hstmt, ast.stmt):
        hstmt = hstmt.parent
    if isinstance(h, ast.Name):
        hdefs = [n for n in walk_no_nested(ssl) if isinstance(n, ast.Assign) and len(n.targets) == 1 and is_name(n.targets[0], h.id)]
        if len(hdefs) == 1 and hdefs[0] in loop.body:
            hstmt, h = hdefs[0], hdefs[0].value
        elif isinstance(loop, ast.For) and isinstance(loop.target, ast.Tuple) and is_name(loop.target.elts[0], h.id) and isinstance(loop.iter, ast.Call) and dotted(loop.iter.func) == 'enumerate':
            start = loop.iter.args[1] if len(loop.iter.args) > 1 else next((k.value for k in loop.iter.keywords if k.arg == 'start'), None)
            fresh = [n for n in walk_no_nested(ssl) if isinstance(n, ast.Assign) and is_name(n.targets[0], lst)]
            id_ok = (start is None or const_value(start) == 0) and len(fresh) == 1 and fresh[0].pos < loop.pos
            if not id_ok and start is not None and const_value(start) not in (0, NOCONST):
                rep.violated('literal ids', loop, 'literal markers are numbered from {} while the literals are stored from position 0'.format(const_value(start)))
                return
    if id_ok is None and isinstance(h, ast.Call) and dotted(h.func) == 'len' and h.args and is_name(h.args[0], lst) and hstmt in loop.body:
        before = loop.body.index(hstmt) < loop.body.index(app_stmt)
        if not before:
            rep.violated('literal ids', hstmt, 'the marker number is taken after the literal was appended: marker i refers to literal i-1')
            return
        id_ok = True
    if id_ok is None and isinstance(h, ast.BinOp) and any(isinstance(x, ast.Call) and dotted(x.func) == 'len' and x.args and is_name(x.args[0], lst) for x in ast.walk(h)):
        rep.violated('literal ids', hstmt, 'the marker number `{}` is shifted against the position of the literal in the list'.format(node_text(h)))
        return
    if not whole and part:
        rep.violated('literal ids', app, 'only a part of the literal (`{}`) is stored: the quotes or the body are lost on re-insertion'.format(node_text(stored)))
    elif id_ok and whole:
        rep.holds('literal ids', app, 'literal id = its position in the literal list; the whole literal including quotes is stored')
    else:
        rep.undecided('literal ids', app, 'numbering of the markers / stored text not recognised')
    # --- re-insertion
    cmarks = [(x, marker_template(x)) for x in walk_no_nested(cb) if isinstance(x, (ast.Call, ast.JoinedStr, ast.BinOp))]
    cmarks = [(x, m) for x, m in cmarks if m is not None and 'RBQL_STRING_LITERAL' in m[0]]
    if len(cmarks) != 1:
        rep.undecided('literal markers', cb, 'marker construction in combine_string_literals not recognised')
        return
    cnode, (cpre, csuf, chole) = cmarks[0]
    if (cpre, csuf) != (pre, suf):
        rep.violated('literal markers', cnode, 'extraction writes markers `{}N{}`, re-insertion looks for `{}N{}`'.format(pre, suf, cpre, csuf))
        return
    lparam = cb.args.args[1].arg
    call = cnode
    while call is not None and not (isinstance(call, ast.Call) and cnode is not call and any(cnode is a for a in call.args)):
        call = getattr(call, 'parent', None)
    repl = None
    if call is not None:
        i = [k for k, a in enumerate(call.args) if a is cnode][0]
        repl = call.args[i + 1] if i + 1 < len(call.args) else None
    cloop = cnode
    while cloop is not None and not isinstance(cloop, (ast.For, ast.While)):
        cloop = getattr(cloop, 'parent', None)
    full = isinstance(cloop, ast.For) and ((isinstance(cloop.iter, ast.Call) and dotted(cloop.iter.func) == 'range' and (len(cloop.iter.args) == 1 or (len(cloop.iter.args) == 2 and const_value(cloop.iter.args[0]) == 0)) and isinstance(cloop.iter.args[-1], ast.Call) and dotted(cloop.iter.args[-1].func) == 'len' and is_name(cloop.iter.args[-1].args[0], lparam)) or (isinstance(cloop.iter, ast.Call) and dotted(cloop.iter.func) == 'enumerate' and cloop.iter.args and is_name(cloop.iter.args[0], lparam) and len(cloop.iter.args) == 1 and not cloop.iter.keywords))
    same = False
    if repl is not None and isinstance(chole, ast.Name):
        if isinstance(repl, ast.Subscript) and is_name(repl.value, lparam) and is_name(repl.slice, chole.id):
            same = True
        elif isinstance(cloop, ast.For) and isinstance(cloop.target, ast.Tuple) and len(cloop.target.elts) == 2 and is_name(cloop.target.elts[0], chole.id) and isinstance(repl, ast.Name) and is_name(cloop.target.elts[1], repl.id):
            same = True
    if repl is not None and isinstance(repl, ast.Subscript) and is_name(repl.value, lparam) and not same and isinstance(repl.slice, ast.BinOp):
        rep.violated('literal markers', call, 'marker `{}` is replaced by element `{}` of the literal list: the index is shifted'.format(node_text(chole), node_text(repl.slice)))
    elif same and full:
        rep.holds('literal markers', cnode, 'literal i is replaced by marker i and marker i by literal i, for every i')
    else:
        rep.undecided('literal markers', cnode, 're-insertion loop not recognised (marker index `{}`, replacement `{}`)'.format(node_text(chole), node_text(repl) if repl is not None else None))


def _comment_lines(rep, p, mod, port, cq, sc):
    """only lines that *start* (after surrounding blanks) with the comment marker are dropped; lines are stripped before the
    empty-line filter sees them"""
    from .. import snippet
    marker = '#' if port == 'py' else '//'
    prm = sc.args.args[0].arg
    empties = [r for r in walk_no_nested(sc) if isinstance(r, ast.Return) and const_value(r.value) == '']
    if not empties:
        rep.undecided('comment lines', sc, 'no `return \'\'` in strip_comments')
        return
    verdict = True
    for r in empties:
        g = getattr(r, 'parent', None)
        if not isinstance(g, ast.If) or r not in g.body:
            verdict = None
            continue
        t = snippet.inline_single_defs(g.test, sc)
        ok = isinstance(t, ast.Call) and isinstance(t.func, ast.Attribute) and t.func.attr in ('startswith', 'startsWith') and t.args and const_value(t.args[0]) == marker
        if ok:
            recv = t.func.value
            while isinstance(recv, ast.Call) and isinstance(recv.func, ast.Attribute) and recv.func.attr in ('strip', 'lstrip', 'trim', 'trimStart', 'trimLeft'):
                recv = recv.func.value
            ok = isinstance(recv, ast.Name)
        if ok:
            continue
        uses_marker = any(const_value(x) == marker for x in ast.walk(t) if isinstance(x, ast.Constant))
        if uses_marker:
            rep.violated('comment lines', g, 'a line is dropped when `{}`: comment stripping is no longer restricted to lines that start with the comment marker (a marker inside a string literal cuts the query)'.format(node_text(g.test, 80)))
            return
        verdict = None
    # any other cutting of the line at the marker
    cuts = [c for c in walk_no_nested(sc) if isinstance(c, ast.Call) and isinstance(c.func, ast.Attribute) and c.func.attr in ('split', 'find', 'index', 'indexOf', 'partition') and c.args and const_value(c.args[0]) == marker]
    if cuts:
        rep.violated('comment lines', cuts[0], 'the line is searched for the comment marker at any position (`{}`): text after a marker inside a string literal is lost'.format(node_text(cuts[0], 60)))
        return
    if verdict:
        rep.holds('comment lines', sc, 'only lines that start with the comment marker are dropped')
    else:
        rep.undecided('comment lines', sc, 'comment test not recognised')
    # what reaches the empty-line filter is stripped
    others = [r for r in walk_no_nested(sc) if isinstance(r, ast.Return) and r not in empties and r.value is not None]
    stripped_ret = True
    for r in others:
        v = snippet.inline_single_defs(r.value, sc)
        # the returned text is the stripped parameter: `x.strip()` or a name (re)bound to it
        ok = isinstance(v, ast.Call) and isinstance(v.func, ast.Attribute) and v.func.attr in ('strip', 'trim')
        if not ok and isinstance(v, ast.Name):
            defs = [n for n in walk_no_nested(sc) if isinstance(n, ast.Assign) and is_name(n.targets[0], v.id)]
            ok = bool(defs) and all(isinstance(d.value, ast.Call) and isinstance(d.value.func, ast.Attribute) and d.value.func.attr in ('strip', 'trim') for d in defs)
        stripped_ret = stripped_ret and ok
    filt = []
    for n in ast.walk(cq):
        if isinstance(n, ast.comprehension):
            filt.extend((i, n) for i in n.ifs)
        if isinstance(n, ast.Call) and isinstance(n.func, ast.Attribute) and n.func.attr == 'filter' and n.args:
            filt.append((n.args[0], n))
    if not filt:
        lists, lines, _ = _line_vars(cq)
        for n in ast.walk(cq):
            if isinstance(n, ast.If) and not n.orelse and any(isinstance(x, ast.Call) and isinstance(x.func, ast.Attribute) and x.func.attr in ('append', 'push') for st_ in n.body for x in ast.walk(st_)) and any(isinstance(x, ast.Name) and x.id in lines for x in ast.walk(n.test)):
                filt.append((n.test, n))
    if not filt:
        rep.undecided('empty-line filter', cq, 'no empty-line filter found in cleanup_query')
        return
    fexpr = filt[0][0]
    own_strip = any(isinstance(x, ast.Call) and isinstance(x.func, ast.Attribute) and x.func.attr in ('strip', 'trim') for x in ast.walk(fexpr))
    if getattr(fexpr, 'js_function_ref', None) is not None:
        own_strip = own_strip or any(isinstance(x, ast.Call) and isinstance(x.func, ast.Attribute) and x.func.attr in ('strip', 'trim') for x in ast.walk(fexpr.js_function_ref))
    rep.decide(stripped_ret or own_strip, 'empty-line filter', filt[0][1], 'the empty-line filter sees stripped lines', 'strip_comments hands back unstripped lines and the empty-line filter tests them as they are: a whitespace-only line survives, and after a trailing `;` it keeps the semicolon from being removed')


RAW, CLEAN = 'raw', 'clean'
LIT_ALLOW = {
    ('rbql_csv', 'query_csv', 'is_ascii(query_text)'): 'latin-1 cannot carry a non-ASCII literal to the output: rejecting it is a feasibility check, not a parsing decision',
    ('rbql_sqlite', 'query_sqlite_to_csv', 'rbql_csv.is_ascii(query_text)'): 'same feasibility check for the sqlite front-end',
    ('rbql_csv', 'query_csv', 'is_ascii(query_text)#js'): 'same feasibility check in rbql-js',
}


def rule_pa_lit(cx, rep, port):
    """raw query text (with literal contents) may reach only functions in which no raise is control-dependent on it"""
    p = cx.port(port)
    mod = cx.engine_mod(port)
    mods = [m for m in p.modules if m not in ('rbql_main', 'rbql_ipython', '__init__', 'cli_rbql', 'cli_parser', 'index')]
    # index functions by simple name (methods by attribute name)
    by_name = {}
    for key, fd in p.funcs.items():
        m, q = key.split(':')
        if m not in mods:
            continue
        by_name.setdefault(q.split('.')[-1], []).append((m, fd))
    USER_FUNCS.clear()
    USER_FUNCS.update(by_name.keys())
    tainted = {}   # id(fd) -> set of tainted parameter names

    def add(fd, pname, work):
        s = tainted.setdefault(id(fd), set())
        if pname not in s:
            s.add(pname)
            work.append(fd)
    work = []
    roots = ['query', 'query_table', 'query_csv', 'query_dataframe', 'query_sqlite_to_csv', 'shallow_parse_input_query']
    fds = {}
    for r in roots:
        for m, fd in by_name.get(r, []):
            for a in fd.args.args:
                if a.arg == 'query_text':
                    add(fd, 'query_text', work)
    n_funcs = 0
    findings = []
    seen_fd = {}
    while work:
        fd = work.pop()
        seen_fd[id(fd)] = fd
        tv = _local_taint(fd, tainted[id(fd)])
        for c in walk_no_nested(fd):
            if not isinstance(c, ast.Call):
                continue
            nm = call_name(c)
            if not nm:
                continue
            short = nm.split('.')[-1]
            if short in ('separate_string_literals',):
                continue
            cands = by_name.get(short, [])
            if isinstance(c.func, ast.Name) is False and isinstance(c.func, ast.Attribute) and short in ('find', 'indexOf', 'split', 'strip', 'replace', 'search', 'format', 'get', 'append', 'push', 'join', 'lower', 'toLowerCase', 'startswith', 'count', 'match', 'exec', 'test', 'has', 'set', 'add'):
                continue
            for m, g in cands:
                params = [a.arg for a in g.args.args]
                off = 1 if params and params[0] == 'self' else 0
                for i, a in enumerate(c.args):
                    if _expr_tainted(a, tv) and i + off < len(params):
                        add(g, params[i + off], work)
    for fd in seen_fd.values():
        n_funcs += 1
        tv = _local_taint(fd, tainted[id(fd)])
        for r in walk_no_nested(fd):
            if not isinstance(r, ast.Raise):
                continue
            if _inside_handler(r, fd):
                continue  # decoration of an error that is already being raised
            guard = _tainted_guard(r, fd, tv)
            if guard is not None:
                findings.append((fd, r, guard))
    rep.require_count('functions receiving raw query text', n_funcs, 8, (p.files[mod], 0))
    seen_keys = set()
    for fd, r, guard in findings:
        gtxt = node_text(guard, 120)
        m = getattr(fd, 'modname', '?')
        allow = None
        for (am, af, atext), reason in LIT_ALLOW.items():
            if am == m and af == fd.name and atext.split('#')[0] in gtxt:
                allow = reason
        # identified by what is raised (class + beginning of the message), not by how the guard happens to be spelled
        what = 'error'
        if r.exc is not None and isinstance(r.exc, ast.Call):
            what = (dotted(r.exc.func) or 'error').split('.')[-1]
            msg = None
            for x in ast.walk(r.exc):
                if isinstance(x, ast.Constant) and isinstance(x.value, str) and len(x.value) > 3:
                    msg = x.value
                    break
                if isinstance(x, ast.Name) and x.id in p.module_consts(m) and isinstance(p.module_consts(m)[x.id], str):
                    msg = p.module_consts(m)[x.id]
                    break
            if msg:
                what += '({!r}...)'.format(msg[:28])
        key = '{}.{}: raise {} depends on the raw text'.format(m, fd.name, what)
        if key in seen_keys:
            continue
        seen_keys.add(key)
        if allow:
            rep.holds(key, r, 'allow-listed: ' + allow)
        else:
            rep.violated(key, r, 'a {} is raised depending on the raw query text (string literal contents included): text inside quotes can change how the query is parsed'.format(node_text(r.exc.func) if r.exc is not None and isinstance(r.exc, ast.Call) else 'error'))
    clean = [fd for fd in seen_fd.values() if not any(f is fd for f, _, _ in findings)]
    rep.holds('functions with raw text and no dependent raise', (p.files[mod], 0), '{} functions receive raw query text; {} of them raise nothing that depends on it'.format(n_funcs, len(clean)))


def rule_pa_litflow(cx, rep, port):
    """in the shallow parser, every function that matches structure receives literal-free text, and every fragment handed to the
    code generator has its literals re-inserted afterwards"""
    p = cx.port(port)
    mod = cx.engine_mod(port)
    mods = [m for m in p.modules if m not in ('rbql_main', 'rbql_ipython', '__init__', 'cli_rbql', 'cli_parser', 'index')]
    by_name = {}
    for key, fd in p.funcs.items():
        m, q = key.split(':')
        if m in mods:
            by_name.setdefault(q.split('.')[-1], []).append((m, fd))
    USER_FUNCS.clear()
    USER_FUNCS.update(by_name.keys())
    sp = p.func(mod, 'shallow_parse_input_query')
    tv = _local_taint(sp, {'query_text'}, lit_list=True)   # here the extracted literal list counts as literal content too
    for c in walk_no_nested(sp):
        if isinstance(c, ast.Call) and call_name(c) in ('separate_actions', 'remove_redundant_input_table_name', 'remove_redundant_table_name', 'generate_init_statements', 'translate_select_expression', 'translate_update_expression', 'translate_except_expression', 'parse_join_expression', 'find_top'):
            bad = [a for a in c.args[:1] if _expr_tainted(a, tv)]   # the text operand (the literal list is a legitimate further operand of some)
            rep.decide(not bad, 'structural matcher {}'.format(call_name(c)), c, 'receives literal-free text', '{} receives text that still contains string literal contents (`{}`)'.format(call_name(c), node_text(bad[0]) if bad else ''))
    # any other engine function that is handed literal-bearing text must not match structure in it
    named = ('separate_actions', 'remove_redundant_input_table_name', 'remove_redundant_table_name', 'generate_init_statements', 'translate_select_expression', 'translate_update_expression', 'translate_except_expression', 'parse_join_expression', 'find_top')
    for c in walk_no_nested(sp):
        if not (isinstance(c, ast.Call) and c.args and _expr_tainted(c.args[0], tv)):
            continue
        short = (call_name(c) or '').split('.')[-1]
        if short in named or short in LIT_RECEIVERS or short not in by_name:
            continue
        hit = None
        for m, g in by_name[short]:
            params = [a.arg for a in g.args.args if a.arg != 'self']
            if params:
                hit = hit or _applies_matching(g, params[0], by_name, 0)
        rep.decide(hit is None, 'literal-bearing text passed to {}'.format(short), c, '{} does no pattern matching on it'.format(short), '{} receives text with the string literals re-inserted and matches structure in it (`{}`): literal contents can change the parse'.format(short, node_text(hit, 80) if hit is not None else ''))
    # once the literals are back in a text, nothing may take that text apart: in every engine function, the result of
    # combine_string_literals is not the subject of a split / search / regex operation
    for fname, cands_ in sorted(by_name.items()):
        for m_, g_ in cands_:
            if m_ != mod:
                continue
            comb = set()
            for a_ in walk_no_nested(g_):
                if isinstance(a_, ast.Assign) and isinstance(a_.value, ast.Call) and (call_name(a_.value) or '').split('.')[-1] == 'combine_string_literals':
                    comb |= set(_names_of_target(a_.targets[0]))
            for c_ in walk_no_nested(g_):
                if not isinstance(c_, ast.Call):
                    continue
                subj = None
                if isinstance(c_.func, ast.Attribute) and c_.func.attr in MATCHING_METHODS - {'startswith', 'endswith', 'startsWith', 'endsWith', 'count', 'replace', 'replaceAll', 'includes'}:
                    subj = c_.func.value
                elif (dotted(c_.func) or '').startswith('re.') and len(c_.args) >= 2:
                    subj = c_.args[1] if dotted(c_.func) not in ('re.sub', 're.subn') else (c_.args[2] if len(c_.args) > 2 else None)
                if subj is None:
                    continue
                direct = isinstance(subj, ast.Call) and (call_name(subj) or '').split('.')[-1] == 'combine_string_literals'
                if direct or (isinstance(subj, ast.Name) and subj.id in comb and not any(isinstance(a_, ast.Assign) and subj.id in _names_of_target(a_.targets[0]) and not (isinstance(a_.value, ast.Call) and (call_name(a_.value) or '').split('.')[-1] == 'combine_string_literals') and a_.pos < c_.pos and a_.pos > min(x.pos for x in walk_no_nested(g_) if isinstance(x, ast.Assign) and subj.id in _names_of_target(x.targets[0])) for a_ in walk_no_nested(g_))):
                    rep.violated('structure after re-insertion in {}'.format(fname), c_, '`{}` takes apart a text in which the string literals were already re-inserted: a `,`, keyword or quote inside a literal is treated as query structure'.format(node_text(c_, 80)))
    # every fragment stored into query_context passes through combine_string_literals
    stores = [n for n in walk_no_nested(sp) if isinstance(n, ast.Assign) and (dotted(n.targets[0]) or '').startswith('query_context.') and dotted(n.targets[0]).split('.')[1] in ('where_expression', 'select_expression', 'update_expressions', 'sort_key_expression', 'aggregation_key_expression', 'variables_init_code')]
    for s in stores:
        v = s.value
        ok = 'combine_string_literals' in node_text(v, 400)
        if not ok and isinstance(v, ast.Name):
            defs = [n for n in walk_no_nested(sp) if isinstance(n, ast.Assign) and any(v.id in names_in(t) for t in n.targets) and n.pos < s.pos]
            ok = any('combine_string_literals' in node_text(d.value, 400) or 'translate_except_expression' in node_text(d.value, 400) for d in defs)
        rep.decide(ok, 'recombination of {}'.format(dotted(s.targets[0])), s, 'literals are re-inserted before the fragment is stored', 'the fragment stored in {} never gets its string literals re-inserted: markers would reach the generated code'.format(dotted(s.targets[0])))
    rep.require_count('context fragments', len(stores), 6, sp)


LIT_RECEIVERS = {
    'cleanup_query': 'line-level cleanup before extraction (PA-LITORDER decides what it may do)',
    'separate_string_literals': 'the extraction itself',
    'combine_string_literals': 'replaces the markers, which literal contents cannot contain (PA-LITORDER: markers)',
    'get_variables_map': 'variable discovery scans the raw text on purpose: a name that only occurs inside a literal is initialised needlessly, which changes nothing (raises that depend on it are the PA-LIT findings)',
    'ast_parse_select_expression_to_column_infos': "Python's own parser: a literal is one token",
}
MATCHING_METHODS = {'find', 'rfind', 'index', 'indexOf', 'lastIndexOf', 'split', 'replace', 'replaceAll', 'search', 'match', 'matchAll', 'exec', 'test', 'startswith', 'endswith', 'startsWith', 'endsWith', 'partition', 'rpartition', 'count', 'includes'}


def _applies_matching(fd, param, by_name, depth):
    """first call in fd (or, to depth 3, in its callees) that matches a pattern against text derived from `param`"""
    tv = _local_taint(fd, {param})
    for c in walk_no_nested(fd):
        if not isinstance(c, ast.Call):
            continue
        d = dotted(c.func) or ''
        if d.startswith('re.') and any(_expr_tainted(a, tv) for a in c.args[1:]):
            return c
        if isinstance(c.func, ast.Attribute) and c.func.attr in MATCHING_METHODS and (_expr_tainted(c.func.value, tv) or any(_expr_tainted(a, tv) for a in c.args)):
            return c
    if depth >= 3:
        return None
    for c in walk_no_nested(fd):
        if not isinstance(c, ast.Call):
            continue
        short = (call_name(c) or '').split('.')[-1]
        if short in LIT_RECEIVERS:
            continue
        for m, g in by_name.get(short, []):
            params = [a.arg for a in g.args.args if a.arg != 'self']
            for i, a in enumerate(c.args):
                if i < len(params) and _expr_tainted(a, tv):
                    h = _applies_matching(g, params[i], by_name, depth + 1)
                    if h is not None:
                        return h
    return None


def _local_taint(fd, params, lit_list=False):
    tv = set(params)
    changed = True
    while changed:
        changed = False
        for n in walk_no_nested(fd):
            tgt = []
            val = None
            if isinstance(n, ast.Assign):
                tgt, val = n.targets, n.value
            elif isinstance(n, ast.AugAssign):
                tgt, val = [n.target], n.value
            elif isinstance(n, ast.For):
                tgt, val = [n.target], n.iter
            elif isinstance(n, ast.comprehension):
                tgt, val = [n.target], n.iter
            elif isinstance(n, ast.NamedExpr):
                tgt, val = [n.target], n.value
            if val is None:
                continue
            if isinstance(val, ast.Call) and (call_name(val) or '').split('.')[-1] == 'separate_string_literals':
                # (literal-free text, list of the literals): the second component carries the literal contents
                for t in tgt:
                    if lit_list and isinstance(t, (ast.Tuple, ast.List)) and len(t.elts) == 2:
                        for nm in _names_of_target(t.elts[1]):
                            if nm not in tv:
                                tv.add(nm)
                                changed = True
                continue
            if _expr_tainted(val, tv):
                for t in tgt:
                    for nm in _names_of_target(t):
                        if nm not in tv:
                            tv.add(nm)
                            changed = True
        # comprehensions inside expressions
        for n in ast.walk(fd):
            if isinstance(n, (ast.ListComp, ast.SetComp, ast.GeneratorExp, ast.DictComp)):
                for g in n.generators:
                    if _expr_tainted(g.iter, tv):
                        for nm in _names_of_target(g.target):
                            if nm not in tv:
                                tv.add(nm)
                                changed = True
    return tv


def _names_of_target(t):
    if isinstance(t, ast.Name):
        return [t.id]
    if isinstance(t, (ast.Tuple, ast.List)):
        out = []
        for e in t.elts:
            out.extend(_names_of_target(e))
        return out
    return []


TEXT_PRESERVING = {'cleanup_query', 'strip_comments', 'str_strip', 'combine_string_literals', 'replace_all', 'get_all_matches'}
USER_FUNCS = set()


def _expr_tainted(e, tv):
    """Is the *text* of the raw query (or something looked up by it) part of the value of e?
    Results of user-defined functions are not text of the query (they are maps, flags, ...) unless listed as text-preserving."""
    if isinstance(e, ast.Name):
        return e.id in tv
    if isinstance(e, ast.Call):
        nm = (call_name(e) or '').split('.')[-1]
        if isinstance(e.func, ast.Name) or (isinstance(e.func, ast.Attribute) and dotted(e.func.value) in ('rbql_engine', 'rbql', 'csv_utils', 'rbql_csv')):
            if nm in USER_FUNCS and nm not in TEXT_PRESERVING:
                return False
            return any(_expr_tainted(a, tv) for a in e.args)
        if isinstance(e.func, ast.Attribute):
            if _expr_tainted(e.func.value, tv):
                return True
            if nm in USER_FUNCS and nm not in TEXT_PRESERVING:
                return False
            return any(_expr_tainted(a, tv) for a in e.args)
        return False
    if isinstance(e, (ast.Lambda, ast.FunctionDef)):
        return False
    for ch in ast.iter_child_nodes(e):
        if isinstance(ch, (ast.expr_context, ast.operator, ast.cmpop, ast.boolop, ast.unaryop)):
            continue
        if isinstance(ch, ast.comprehension):
            if _expr_tainted(ch.iter, tv):
                return True
            continue
        if isinstance(ch, ast.expr) and _expr_tainted(ch, tv):
            return True
    return False


def _inside_handler(node, fd):
    p = node
    while p is not None and p is not fd:
        par = getattr(p, 'parent', None)
        if isinstance(par, ast.ExceptHandler):
            return True
        p = par
    return False


def _tainted_guard(r, fd, tv):
    p = r
    while p is not None and p is not fd:
        par = getattr(p, 'parent', None)
        if isinstance(par, ast.If) and _expr_tainted(par.test, tv):
            return par.test
        if isinstance(par, ast.For) and _expr_tainted(par.iter, tv) and False:
            return par.iter
        if isinstance(par, ast.While) and _expr_tainted(par.test, tv) and False:
            return par.test
        p = par
    return None


def _find_top_semantics(rep, ft, port):
    """what find_top returns, per path: with a LIMIT clause the integer value of its text (or a parsing error), otherwise the TOP
    value of the SELECT clause (or nothing); the choice is made by presence of the clause, never by the truthiness of a value"""
    from .. import pathsem
    ps = pathsem.paths(ft)
    if ps is None:
        rep.undecided('LIMIT first', ft, 'find_top is not loop-free straight-line code')
        return
    arg = ft.args.args[0].arg

    def is_limit_test(e):
        t = node_text(e, 200).replace(' ', '')
        return t in ('LIMITin' + arg, arg + '.hasOwnProperty(LIMIT)', 'LIMITin{}.keys()'.format(arg))

    def mentions_limit_text(e):
        return any(isinstance(x, ast.Subscript) and dotted(x.value) == arg and dotted(x.slice) == 'LIMIT' for x in ast.walk(e))

    def mentions_top(e):
        return any(isinstance(x, ast.Constant) and x.value == 'top' for x in ast.walk(e))
    n_lim = n_top = 0
    raises_parse = False
    for q in ps:
        present = None
        for atom, pol in pathsem.atoms(q.conds):
            if is_limit_test(atom):
                present = pol
        if q.kind == 'raise':
            if q.value is not None and 'RbqlParsingError' in node_text(q.value, 200) and present is not False:
                raises_parse = True
            continue
        if q.kind != 'return':
            continue
        v = q.value
        if isinstance(v, ast.BoolOp) or (isinstance(v, ast.IfExp) and not is_limit_test(v.test) and not (isinstance(v.test, ast.UnaryOp) and is_limit_test(v.test.operand)) and mentions_limit_text(v) and mentions_top(v)):
            rep.violated('LIMIT first', q.node, 'find_top chooses between the LIMIT and the TOP value by truthiness (`{}`): `LIMIT 0` falls through to TOP / to "no limit"'.format(node_text(v, 90)))
            return
        if present is True:
            conv = [c for c in ast.walk(v) if isinstance(c, ast.Call) and dotted(c.func) in ('int', 'parseInt', 'Number') and c.args and mentions_limit_text(c.args[0])]
            if conv and (isinstance(v, ast.Call) and v is conv[0]):
                n_lim += 1
            elif mentions_top(v) and not mentions_limit_text(v):
                rep.violated('LIMIT first', q.node, 'with a LIMIT clause present find_top can return the TOP value (`{}`): LIMIT no longer wins'.format(node_text(v, 80)))
                return
            else:
                rep.violated('LIMIT value', q.node, 'with a LIMIT clause the bound returned is `{}`, not the integer value of the clause text'.format(node_text(v, 80))) if mentions_limit_text(v) else rep.undecided('LIMIT value', q.node, 'value returned for LIMIT not recognised: `{}`'.format(node_text(v, 80)))
                return
        elif present is False:
            if mentions_limit_text(v):
                rep.violated('TOP value', q.node, 'without a LIMIT clause find_top reads the LIMIT clause')
                return
            if mentions_top(v) or (isinstance(v, ast.Constant) and v.value is None):
                n_top += 1
            else:
                rep.undecided('TOP value', q.node, 'value returned without LIMIT not recognised: `{}`'.format(node_text(v, 80)))
                return
        else:
            if mentions_top(v) and not mentions_limit_text(v):
                rep.violated('LIMIT first', q.node, 'find_top returns the TOP value on a path that never tested for a LIMIT clause: LIMIT no longer wins over TOP')
                return
            rep.undecided('LIMIT first', q.node, 'a path returns `{}` without testing for the LIMIT clause'.format(node_text(v, 80)))
            return
    rep.decide(n_lim >= 1 and n_top >= 1, 'LIMIT first', ft, 'LIMIT present -> its integer value; absent -> the TOP value of SELECT (or none)', 'find_top has no path for {}'.format('the LIMIT clause' if not n_lim else 'the TOP value'))
    rep.decide(raises_parse, 'LIMIT integer', ft, 'a non-integer LIMIT is a parsing error', 'a non-integer LIMIT is not a parsing error')


def rule_pa_top(cx, rep, port):
    p = cx.port(port)
    mod = cx.engine_mod(port)
    ft = p.func(mod, 'find_top')
    _find_top_semantics(rep, ft, port)
    sa = p.func(mod, 'separate_actions')
    ts = node_text(sa, 8000)
    def is_group1(e):
        return (isinstance(e, ast.Call) and isinstance(e.func, ast.Attribute) and e.func.attr == 'group' and len(e.args) == 1 and const_value(e.args[0]) == 1) or (isinstance(e, ast.Subscript) and const_value(e.slice) == 1)
    oktop = any(isinstance(n, ast.Assign) and isinstance(n.targets[0], ast.Subscript) and const_value(n.targets[0].slice) == 'top' and isinstance(n.value, ast.Call) and dotted(n.value.func) in ('int', 'parseInt') and n.value.args and is_group1(n.value.args[0]) for n in ast.walk(sa))
    rep.decide(oktop, 'TOP capture', sa, 'TOP N stores the integer N', 'TOP N no longer stores the integer N')
    sites = [s for s in regex_sites(cx, port) if s.func is sa and s.pattern and 'TOP' in s.pattern.upper() and '[0-9]+' in s.pattern]
    rep.decide(len(sites) == 1 and sites[0].pattern.lstrip('(?i)').startswith('^ *TOP *([0-9]+) '), 'TOP pattern', sites[0].node if sites else sa, 'TOP <digits> at the start of the select list', 'TOP pattern changed')
    sp = p.func(mod, 'shallow_parse_input_query')
    st = [n for n in walk_no_nested(sp) if isinstance(n, ast.Assign) and (dotted(n.targets[0]) or '').endswith('top_count')]
    rep.decide(len(st) == 1 and node_text(st[0].value) == 'find_top(rb_actions)', 'top_count', st[0] if st else sp, 'top_count = find_top(actions)', 'top_count is not the result of find_top')
    # DISTINCT [COUNT]
    def flag_set(name):
        return any(isinstance(n, ast.Assign) and isinstance(n.targets[0], ast.Subscript) and const_value(n.targets[0].slice) == name and is_true(n.value) for n in ast.walk(sa))
    okd = flag_set('distinct') and flag_set('distinct_count')
    rep.decide(okd, 'DISTINCT flags', sa, 'DISTINCT and DISTINCT COUNT set their flags', 'DISTINCT / DISTINCT COUNT flags changed')
    sd = [s for s in regex_sites(cx, port) if s.func is sa and s.pattern and 'DISTINCT' in s.pattern.upper()]
    rep.decide(len(sd) == 1 and '(COUNT)?' in sd[0].pattern, 'DISTINCT pattern', sd[0].node if sd else sa, 'DISTINCT optionally followed by COUNT', 'DISTINCT pattern changed')
    # TOP is parsed before DISTINCT
    if sites and sd:
        rep.decide(sites[0].node.pos < sd[0].node.pos, 'TOP before DISTINCT', sa, 'TOP n DISTINCT ... order', 'TOP is no longer parsed before DISTINCT')


def rule_pa_asc(cx, rep, port):
    p = cx.port(port)
    mod = cx.engine_mod(port)
    sa = p.func(mod, 'separate_actions')
    blk = [n for n in walk_no_nested(sa) if isinstance(n, ast.If) and node_text(n.test) == 'statement == ORDER_BY']
    if len(blk) != 1:
        raise Undecided('ORDER BY block not found in separate_actions', sa)
    b = blk[0]
    sites = [s for s in regex_sites(cx, port) if any(s.node is x for x in ast.walk(b))]
    asc = [s for s in sites if s.pattern and re.sub(r'^\(\?i\)', '', s.pattern) == ' ASC *$']
    desc = [s for s in sites if s.pattern and re.sub(r'^\(\?i\)', '', s.pattern) == ' DESC *$']
    rep.decide(len(asc) == 1 and (asc[0].ignorecase or asc[0].pattern.startswith('(?i)')), 'ASC', asc[0].node if asc else b, 'a trailing ASC is dropped (any case)', 'a trailing ASC is not removed case-insensitively')
    rep.decide(len(desc) == 1 and (desc[0].ignorecase or desc[0].pattern.startswith('(?i)')), 'DESC', desc[0].node if desc else b, 'a trailing DESC is recognised (any case)', 'a trailing DESC is not recognised case-insensitively')
    # reverse flag: on every path through the block, what is stored under 'reverse' equals "removing a trailing DESC changed the text"
    from .. import pathsem

    def desc_call(e):
        """the subject text when e is the DESC-removing substitution, else None"""
        if isinstance(e, ast.Call):
            consts = [const_value(a) for a in e.args] + [a.args[0].value for a in e.args if isinstance(a, ast.Call) and dotted(a.func) == '__regex__']
            if any(isinstance(c, str) and c.upper().endswith(' DESC *$') for c in consts):
                d = dotted(e.func) or ''
                subj = e.args[2] if d in ('re.sub', 're.subn') and len(e.args) >= 3 else (e.func.value if isinstance(e.func, ast.Attribute) and e.func.attr in ('replace', 'sub') else None)
                return subj
        return None

    def changed_test(e):
        """+1 for `desc(x) != x`, -1 for `desc(x) == x`, 0 otherwise"""
        if isinstance(e, ast.Compare) and len(e.ops) == 1 and isinstance(e.ops[0], (ast.NotEq, ast.Eq)):
            for a, b_ in ((e.left, e.comparators[0]), (e.comparators[0], e.left)):
                subj = desc_call(a)
                if subj is not None and ast.dump(subj) == ast.dump(b_):
                    return 1 if isinstance(e.ops[0], ast.NotEq) else -1
        return 0
    ps = pathsem.paths_of_block(b.body)
    if ps is None:
        rep.undecided('reverse flag', b, 'ORDER BY block is not straight-line code')
    else:
        verdict, why, n_paths = True, '', 0
        for q in ps:
            st = [(t_, v) for t_, v in q.stores if isinstance(t_, ast.Subscript) and const_value(t_.slice) == 'reverse']
            if not st:
                verdict, why = False, 'a path through the ORDER BY block does not set the reverse flag'
                break
            v = st[-1][1]
            n_paths += 1
            ct = changed_test(v)
            if ct == 1:
                continue
            if ct == -1 or (isinstance(v, ast.UnaryOp) and isinstance(v.op, ast.Not) and changed_test(v.operand) == 1 and False):
                verdict, why = False, 'the reverse flag is set to "the text did not change"'
                break
            cv = const_value(v)
            if isinstance(cv, bool):
                known = None
                for atom, pol in pathsem.atoms(q.conds):
                    c_ = changed_test(atom)
                    if c_:
                        known = pol if c_ == 1 else not pol
                if known is None:
                    verdict, why = None, 'constant flag on a path without the "DESC removed" test'
                    break
                if known != cv:
                    verdict, why = False, 'reverse is {} on the path where a trailing DESC {} removed'.format(cv, 'was' if known else 'was not')
                    break
                continue
            verdict, why = None, 'value stored under reverse not recognised: `{}`'.format(node_text(v, 80))
            break
        if verdict is None:
            rep.undecided('reverse flag', b, why)
        else:
            rep.decide(verdict, 'reverse flag', b, 'reverse = True iff a trailing DESC was removed ({} path(s))'.format(n_paths), 'the reverse flag is no longer "True iff a trailing DESC was removed": ' + why)
    if asc and desc:
        rep.decide(asc[0].node.pos < desc[0].node.pos, 'ASC before DESC', b, 'ASC removal precedes the DESC test', 'order of ASC/DESC handling changed')


def rule_pa_redund(cx, rep, port):
    p = cx.port(port)
    mod = cx.engine_mod(port)
    fd = p.func(mod, 'remove_redundant_input_table_name' if port == 'py' else 'remove_redundant_table_name')
    sites = [s for s in regex_sites(cx, port) if s.func is fd]
    rep.require_count('redundant-name patterns', len(sites), 2, fd)
    want = {' +from +a(?: +|$)': ' ', '^ *update +a +set ': 'update '}
    for s in sites:
        ok = s.pattern in want and s.ignorecase
        rep.decide(ok, 'pattern `{}`'.format(s.pattern), s.node, 'case-insensitive removal of the redundant table name', 'redundant-table-name pattern changed or lost its case-insensitivity')
    sa = p.func(mod, 'separate_actions')
    ss = [s for s in regex_sites(cx, port) if s.func is sa and s.pattern and 'SET' in s.pattern]
    rep.decide(len(ss) == 1 and (ss[0].ignorecase or ss[0].pattern.startswith('(?i)')) and '^ *SET' in ss[0].pattern, 'optional SET', ss[0].node if ss else sa, 'UPDATE SET ... and UPDATE ... are equivalent', 'the optional SET after UPDATE is no longer removed case-insensitively')
    sp = p.func(mod, 'shallow_parse_input_query')
    calls = [c for c in walk_no_nested(sp) if isinstance(c, ast.Call) and call_name(c) == fd.name]
    rep.decide(len(calls) == 1 and is_name(calls[0].args[0], 'format_expression'), 'applied to literal-free text', calls[0] if calls else sp, 'applied to the literal-free text', 'redundant table names are removed from text that still contains literal contents')
    # WHERE assignment check works on literal-free text
    wh = [s for s in regex_sites(cx, port) if s.func is sp and s.pattern == '[^><!=]=[^=]']
    rep.decide(len(wh) == 1, 'WHERE assignment check', wh[0].node if wh else sp, 'a single `=` in WHERE is a parsing error', 'the WHERE single-equals check changed')


def rule_pa_litcheck(cx, rep, port):
    """syntactic checks of the parser (regex tests whose failure raises a parsing error) are applied to literal-free text,
    never to text whose string literals were already re-inserted"""
    p = cx.port(port)
    mod = cx.engine_mod(port)
    sp = p.func(mod, 'shallow_parse_input_query')
    lit = set()
    changed = True
    while changed:
        changed = False
        for n in walk_no_nested(sp):
            if isinstance(n, ast.Assign):
                v = n.value
                has = any(isinstance(c, ast.Call) and call_name(c) == 'combine_string_literals' for c in ast.walk(v)) or any(isinstance(x, ast.Name) and x.id in lit for x in ast.walk(v))
                if has:
                    for t in n.targets:
                        for nm in _names_of_target(t):
                            if nm not in lit:
                                lit.add(nm)
                                changed = True
    n_checks = 0
    for iff in walk_no_nested(sp):
        if not (isinstance(iff, ast.If) and iff.body and isinstance(iff.body[-1], ast.Raise)):
            continue
        rx = [c for c in ast.walk(iff.test) if isinstance(c, ast.Call) and ((dotted(c.func) or '') in ('re.search', 're.match', 're.fullmatch') or (isinstance(c.func, ast.Attribute) and c.func.attr in ('exec', 'test', 'search', 'match') and isinstance(c.func.value, ast.Call) and dotted(c.func.value.func) in ('__regex__', 'RegExp', 're.compile')))]
        for c in rx:
            n_checks += 1
            subject = c.args[-1] if c.args else None
            names = names_in(subject) if subject is not None else set()
            direct = subject is not None and any(isinstance(x, ast.Call) and call_name(x) == 'combine_string_literals' for x in ast.walk(subject))
            if direct or (names & lit):
                rep.violated('syntactic check `{}`'.format(node_text(iff.test, 80)), iff, 'this check runs on text whose string literals were already re-inserted (`{}`): characters inside quotes (e.g. a lone = in \'k=v\') make the query fail'.format(node_text(subject, 60)))
            else:
                rep.holds('syntactic check `{}`'.format(node_text(iff.test, 80)), iff, 'applied to literal-free text')
    rep.require_count('regex checks that raise', n_checks, 1, sp)


def rule_pa_zero(cx, rep, port):
    """the TOP/LIMIT bound is tested for presence (is not None / hasOwnProperty), never for truthiness: 0 is a valid bound"""
    p = cx.port(port)
    mod = cx.engine_mod(port)

    def is_bound_value(e):
        d = dotted(e) or ''
        if d.endswith('.top_count') or d == 'top_count':
            return True
        if isinstance(e, ast.Subscript) and isinstance(e.slice, ast.Constant) and e.slice.value == 'top':
            return True
        if isinstance(e, ast.Call) and isinstance(e.func, ast.Attribute) and e.func.attr == 'get' and e.args and isinstance(e.args[0], ast.Constant) and e.args[0].value == 'top':
            return True
        return False
    n = 0
    bad = []
    for fd in p.funcs_in(mod):
        for x in walk_no_nested(fd):
            tests = []
            if isinstance(x, (ast.If, ast.While, ast.IfExp)):
                tests.append(x.test)
            for t in tests:
                operands = [t]
                if isinstance(t, ast.BoolOp):
                    operands = list(t.values)
                if isinstance(t, ast.UnaryOp) and isinstance(t.op, ast.Not):
                    operands = [t.operand]
                for o in operands:
                    if isinstance(o, ast.UnaryOp) and isinstance(o.op, ast.Not):
                        o = o.operand
                    if is_bound_value(o):
                        bad.append((fd, o))
                for c in ast.walk(t):
                    if isinstance(c, ast.Compare) and is_bound_value(c.left):
                        n += 1
                    if isinstance(c, ast.Call) and isinstance(c.func, ast.Attribute) and c.func.attr == 'hasOwnProperty' and c.args and isinstance(c.args[0], ast.Constant) and c.args[0].value == 'top':
                        n += 1
            if isinstance(x, ast.BoolOp) and isinstance(x.op, ast.Or) and is_bound_value(x.values[0]):
                bad.append((fd, x))
    for fd, o in bad:
        rep.violated('{}: `{}`'.format(fd.name, node_text(o, 60)), o, 'the TOP/LIMIT bound is tested by truthiness: a bound of 0 is treated as "no bound", so TOP 0 returns every record')
    if not bad:
        rep.holds('bound presence tests', (p.files[mod], 0), '{} presence tests of the TOP/LIMIT bound (is None / comparison / hasOwnProperty), none by truthiness'.format(n))
    rep.require_count('bound presence tests', n + len(bad), 1, (p.files[mod], 0))


def _line_vars(cq):
    """names that stand for one line of the query in cleanup_query: targets of loops / comprehensions over `<text>.split('\\n')`
    (or over a list built from such lines), and names bound to a function of such a line"""
    prm = cq.args.args[0].arg

    def is_lines(e, lists):
        if isinstance(e, ast.Call) and isinstance(e.func, ast.Attribute) and e.func.attr == 'split' and e.args and const_value(e.args[0]) == '\n' and is_name(e.func.value, prm):
            return True
        if isinstance(e, ast.Name) and e.id in lists:
            return True
        if isinstance(e, ast.Call) and isinstance(e.func, ast.Attribute) and e.func.attr in ('map', 'filter') and is_lines(e.func.value, lists):
            return True
        if isinstance(e, ast.ListComp) and len(e.generators) == 1 and is_lines(e.generators[0].iter, lists):
            return True
        return False
    lists, lines = set(), set()
    for _ in range(4):
        for n in ast.walk(cq):
            if isinstance(n, ast.Assign) and len(n.targets) == 1 and isinstance(n.targets[0], ast.Name):
                if is_lines(n.value, lists):
                    lists.add(n.targets[0].id)
                elif any(isinstance(x, ast.Name) and x.id in lines for x in ast.walk(n.value)):
                    lines.add(n.targets[0].id)
            if isinstance(n, ast.For) and is_lines(n.iter, lists):
                lines |= {x.id for x in ast.walk(n.target) if isinstance(x, ast.Name)}
            if isinstance(n, ast.comprehension) and is_lines(n.iter, lists):
                lines |= {x.id for x in ast.walk(n.target) if isinstance(x, ast.Name)}
            if isinstance(n, ast.Expr) and isinstance(n.value, ast.Call) and isinstance(n.value.func, ast.Attribute) and n.value.func.attr in ('append', 'push') and isinstance(n.value.func.value, ast.Name) and n.value.args and any(isinstance(x, ast.Name) and x.id in lines for x in ast.walk(n.value.args[0])):
                lists.add(n.value.func.value.id)
    return lists, lines, is_lines


def _per_line_strip(cq):
    """strip_comments is applied to single lines of the query (comprehension, loop, map), never to the whole text"""
    lists, lines, is_lines = _line_vars(cq)
    hits = 0
    for c in ast.walk(cq):
        if isinstance(c, ast.Call) and call_name(c) == 'strip_comments' and c.args:
            if isinstance(c.args[0], ast.Name) and c.args[0].id in lines:
                hits += 1
            else:
                return False
        if isinstance(c, ast.Call) and isinstance(c.func, ast.Attribute) and c.func.attr == 'map' and c.args and is_name(c.args[0], 'strip_comments'):
            if is_lines(c.func.value, lists):
                hits += 1
            else:
                return False
    return hits >= 1


def rule_pa_cleanorder(cx, rep, port):
    """the trailing-semicolon strip is applied to the joined text after comment lines were dropped"""
    p = cx.port(port)
    mod = cx.engine_mod(port)
    cq = p.func(mod, 'cleanup_query')
    # the parser works on the cleaned text only: once cleanup_query() has produced it, the raw text (comment lines and all) is not
    # handed to anything else - in particular not to get_variables_map(), which would bind variables mentioned in comments
    sp_ = p.func(mod, 'shallow_parse_input_query')
    cleans = [n for n in walk_no_nested(sp_) if isinstance(n, ast.Assign) and isinstance(n.value, ast.Call) and call_name(n.value) == 'cleanup_query' and len(n.value.args) == 1 and isinstance(n.value.args[0], ast.Name) and isinstance(n.targets[0], ast.Name)]
    if len(cleans) == 1 and cleans[0].targets[0].id != cleans[0].value.args[0].id:
        raw_ = cleans[0].value.args[0].id
        later = [x for x in walk_no_nested(sp_) if isinstance(x, ast.Name) and x.id == raw_ and isinstance(x.ctx, ast.Load) and x.pos > cleans[0].pos and not any(x is y for y in ast.walk(cleans[0]))]
        rebound = [n for n in walk_no_nested(sp_) if isinstance(n, ast.Assign) and any(is_name(t, raw_) for t in n.targets) and n.pos > cleans[0].pos]
        if later and not rebound:
            user = later[0]
            while getattr(user, 'parent', None) is not None and not isinstance(user, ast.Call):
                user = user.parent
            rep.violated('cleaned text used', later[0], 'after cleanup_query() stored the cleaned text in `{}`, the raw `{}` (comment lines included) is still handed on: `{}`'.format(cleans[0].targets[0].id, raw_, node_text(user, 80)))
        else:
            rep.holds('cleaned text used', cleans[0], 'only the cleaned text is used after cleanup_query()')
    elif len(cleans) == 1:
        rep.holds('cleaned text used', cleans[0], 'the cleaned text replaces the raw one')
    strips = []
    for c in walk_no_nested(cq):
        if isinstance(c, ast.Call) and isinstance(c.func, ast.Attribute):
            if c.func.attr == 'rstrip' and c.args and isinstance(c.args[0], ast.Constant) and ';' in str(c.args[0].value):
                strips.append(c)
            if c.func.attr == 'replace' and c.args and isinstance(c.args[0], ast.Call) and dotted(c.args[0].func) == '__regex__' and ';' in c.args[0].args[0].value:
                strips.append(c)
    if len(strips) != 1:
        rep.violated('semicolon strip', cq, 'cleanup_query strips the trailing semicolon {} times'.format(len(strips)))
        return
    recv = strips[0].func.value
    joined = any(isinstance(x, ast.Call) and isinstance(x.func, ast.Attribute) and x.func.attr == 'join' for x in ast.walk(recv))
    if not joined and isinstance(recv, ast.Name):
        defs = [n for n in walk_no_nested(cq) if isinstance(n, ast.Assign) and is_name(n.targets[0], recv.id) and n.pos < strips[0].pos]
        joined = bool(defs) and any(isinstance(x, ast.Call) and isinstance(x.func, ast.Attribute) and x.func.attr == 'join' for x in ast.walk(defs[-1].value))
    rep.decide(joined, 'semicolon strip', strips[0], 'the semicolon is stripped from the joined, comment-free text', 'the trailing semicolon is stripped before comment lines are removed: a query that ends with `;` followed by comment lines keeps its semicolon')
    # comment stripping and empty-line dropping happen per line, before joining
    rep.decide(_per_line_strip(cq), 'per-line comment strip', cq, 'comment lines are removed line by line', 'comment lines are no longer removed line by line')


def rule_pa_subst(cx, rep, port):
    """text substitution is literal: a replacement operand that is interpreted as a template (`$&`, `$1`, `$$` in JavaScript's
    String.replace/replaceAll; `\\1`, `\\g<0>`, `\\n` in Python's re.sub) must be a constant written by the authors or a function,
    never text that can contain the user's expression, literal or column name"""
    p = cx.port(port)
    mods = [m for m in p.modules if m in ('rbql_engine', 'rbql', 'rbql_csv', 'csv_utils', 'rbql_pandas', 'rbql_sqlite')]
    n = 0
    for m in mods:
        for c in ast.walk(p.modules[m]):
            if not isinstance(c, ast.Call):
                continue
            repl = None
            d = dotted(c.func) or ''
            if port == 'js' and isinstance(c.func, ast.Attribute) and c.func.attr in ('replace', 'replaceAll') and len(c.args) == 2:
                repl = c.args[1]
            elif port == 'py' and (d in ('re.sub', 're.subn') or (isinstance(c.func, ast.Attribute) and c.func.attr in ('sub', 'subn') and d.split('.')[0] != 're')) and len(c.args) >= 2:
                repl = c.args[1] if d in ('re.sub', 're.subn') else c.args[0]
            if repl is None:
                continue
            n += 1
            fd = enclosing_func(c)
            where = '{}.{}'.format(m, fd.name if fd is not None else '<module>')
            is_fn = isinstance(repl, ast.Lambda) or getattr(repl, 'js_function_ref', None) is not None or (isinstance(repl, ast.Name) and (repl.id.startswith('__fn_') or any(k.split(':')[1] == repl.id for k in p.funcs)))
            tab_vals = None
            if isinstance(repl, ast.Name) and fd is not None:
                from .hd import table_operand_values
                tab_vals = table_operand_values(fd, repl.id)
            if isinstance(repl, ast.Constant) and isinstance(repl.value, str) or is_fn:
                rep.holds('{}: replacement `{}`'.format(where, node_text(repl, 40)), c, 'constant template or function')
            elif tab_vals is not None and all(isinstance(v_, ast.Constant) and isinstance(v_.value, str) for v_ in tab_vals):
                rep.holds('{}: replacement `{}`'.format(where, node_text(repl, 40)), c, 'one of {} constant templates of a constant table'.format(len(tab_vals)))
            elif fd is not None and fd.name.startswith('replace_star_vars') and _star_model_verdict(cx, port) == '':
                rep.holds('{}: replacement `{}`'.format(where, node_text(repl, 40)), c, 'what the star rewrite substitutes is decided by HD-STARTWIN (the function evaluated on select lists)')
            elif fd is not None and fd.name == 'separate_string_literals' and _literals_model(cx, port) == '':
                rep.holds('{}: replacement `{}`'.format(where, node_text(repl, 40)), c, 'what the extraction substitutes is decided by PA-LITORDER (the function evaluated on query texts)')
            elif fd is None or not _expr_tainted(repl, _local_taint(fd, {a.arg for a in fd.args.args})):
                rep.undecided('{}: replacement `{}`'.format(where, node_text(repl, 40)), c, 'non-constant replacement template that does not derive from a parameter: its content is not analysed')
            else:
                rep.violated('{}: replacement `{}`'.format(where, node_text(repl, 40)), c, 'the replacement operand `{}` is not a constant: {} interprets it as a template ({}), so text substituted here is altered when it contains those sequences'.format(node_text(repl, 60), 'String.replace' if port == 'js' else 're.sub', '`$&`, `$1`, `$$`' if port == 'js' else 'backslash escapes and group references'))
    rep.require_count('template-interpreting substitutions', n, 12 if port == 'js' else 5, (p.files[mods[0]], 0))


def _substring_guard(test, subject):
    """the literals of a guard `subject contains c1 or subject contains c2 ...` (None when the test is something else)"""
    def one(e):
        if isinstance(e, ast.Compare) and len(e.ops) == 1:
            l_, r_, op = e.left, e.comparators[0], e.ops[0]
            if isinstance(l_, ast.Call) and isinstance(l_.func, ast.Attribute) and l_.func.attr in ('indexOf', 'find') and len(l_.args) == 1 and ast.dump(l_.func.value) == subject and isinstance(l_.args[0], ast.Constant) and isinstance(l_.args[0].value, str):
                rt = node_text(r_).replace(' ', '')
                if (isinstance(op, (ast.NotEq, ast.Gt)) and rt == '-1') or (isinstance(op, ast.GtE) and rt == '0'):
                    return [l_.args[0].value]
            if isinstance(op, ast.In) and isinstance(l_, ast.Constant) and isinstance(l_.value, str) and ast.dump(r_) == subject:
                return [l_.value]
        if isinstance(e, ast.Call) and isinstance(e.func, ast.Attribute) and e.func.attr == 'includes' and len(e.args) == 1 and ast.dump(e.func.value) == subject and isinstance(e.args[0], ast.Constant) and isinstance(e.args[0].value, str):
            return [e.args[0].value]
        if isinstance(e, ast.BoolOp) and isinstance(e.op, ast.Or):
            out = []
            for v in e.values:
                r = one(v)
                if r is None:
                    return None
                out.extend(r)
            return out
        return None
    return one(test)


def rule_rx_guard(cx, rep, port):
    """a cheap substring test placed in front of a regular expression ("probe for the keyword first") must not be stronger than
    the expression: every text the expression matches has to pass the probe, otherwise the two disagree on some spelling (case,
    spacing) and the construct is silently not recognised.  Decided by language inclusion L(regex) <= L(.*(c1|c2|..).*) with a
    witness; zero sites expected on a tree without such fast paths (the matcher is exercised on a built-in example)."""
    import re as _re
    from .. import regexlang as R

    def included(pattern, flags_i, lits, flavour, anchored):
        pat = pattern if anchored else '^.*(?:{}).*$'.format(pattern)
        a = R.Lang(pat, flags=(_re.IGNORECASE if flags_i else 0), flavour=flavour)
        b = R.Lang('^.*(?:{}).*$'.format('|'.join(_re.escape(x) for x in lits)), flavour='py')
        eq, w1, w2 = R.compare(a, b)
        return w1
    # built-in positive example: the matcher must see that ' As ' passes the regex but not the probe
    try:
        if included('^(.*) ([Aa][Ss]) +x$', False, [' as ', ' AS '], 'py', True) is None:
            rep.undecided('probe matcher', (cx.port(port).files[cx.engine_mod(port)], 0), 'the inclusion test does not find the witness of its built-in example')
            return
    except R.Unsupported as e:
        rep.undecided('probe matcher', (cx.port(port).files[cx.engine_mod(port)], 0), str(e))
        return
    p = cx.port(port)
    mods = [m for m in p.modules if m in ('rbql_engine', 'rbql', 'rbql_csv', 'csv_utils')]
    n = 0
    for st in regex_sites(cx, port, mods):
        if st.pattern is None:
            continue
        node = st.node
        # the application: /re/.exec(x), /re/.test(x), x.match(/re/), re.match(p, x), compiled.match(x)
        app, subject = None, None
        par = getattr(node, 'parent', None)
        if port == 'js':
            if isinstance(par, ast.Attribute) and par.attr in ('exec', 'test') and isinstance(getattr(par, 'parent', None), ast.Call) and par.parent.args:
                app, subject = par.parent, par.parent.args[0]
            elif isinstance(par, ast.Call) and isinstance(par.func, ast.Attribute) and par.func.attr in ('match', 'search') and node in par.args:
                app, subject = par, par.func.value
        else:
            c = node
            if isinstance(c, ast.Call) and (dotted(c.func) or '').startswith('re.') and len(c.args) >= 2 and (dotted(c.func) or '').split('.')[1] in ('match', 'search', 'fullmatch'):
                app, subject = c, c.args[1]
            elif isinstance(c, ast.Call) and isinstance(c.func, ast.Attribute) and c.func.attr in ('match', 'search', 'fullmatch') and c.args:
                app, subject = c, c.args[0]
        if app is None:
            continue
        sdump = ast.dump(subject)
        guards = []
        ch, q = app, getattr(app, 'parent', None)
        fd = st.func
        while q is not None and q is not fd:
            if isinstance(q, ast.IfExp) and (ch is q.body or any(ch is x for x in ast.walk(q.body))):
                guards.append(q.test)
            if isinstance(q, ast.If) and any(ch is x for b in q.body for x in ast.walk(b)):
                guards.append(q.test)
            ch, q = q, getattr(q, 'parent', None)
        # a flag computed just before: `may = x.indexOf(..) != -1 || ...; m = may ? rx.exec(x) : null`
        resolved = []
        for g_ in guards:
            if isinstance(g_, ast.Name):
                defs = [d for d in walk_no_nested(fd) if isinstance(d, ast.Assign) and len(d.targets) == 1 and is_name(d.targets[0], g_.id)]
                if len(defs) == 1:
                    g_ = defs[0].value
            resolved.append(g_)
        for g_ in resolved:
            lits = _substring_guard(g_, sdump)
            if not lits:
                continue
            n += 1
            key = '{}: probe in front of `{}`'.format(fd.name, st.pattern[:40])
            anchored = st.pattern.startswith('^') or (port == 'py' and isinstance(app, ast.Call) and ((dotted(app.func) or '').endswith('match') or getattr(app.func, 'attr', '') in ('match', 'fullmatch')))
            try:
                w = included(st.pattern if (st.pattern.startswith('^') or not anchored) else '^' + st.pattern + '.*$', st.ignorecase, lits, 'js' if port == 'js' else 'py', True if anchored else False)
            except R.Unsupported as e:
                rep.undecided(key, app, 'regular expression outside the supported fragment: {}'.format(e))
                continue
            if w is not None:
                rep.violated(key, app, 'the expression is applied only to texts containing one of {}, but it matches {!r}, which contains none of them: that spelling is silently not recognised here although the rest of the parser accepts it'.format(lits, w))
            else:
                rep.holds(key, app, 'every text the expression matches contains one of {}'.format(lits))
    rep.holds('probe sites', (p.files[cx.engine_mod(port)], 0), '{} substring probe(s) in front of a regular expression examined (matcher checked on a built-in example)'.format(n))
