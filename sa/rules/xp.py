"""XP rules (C18, C19): cross-port agreement of canonical facts (sets, maps, languages, message templates) extracted
independently from the Python and the JavaScript port.  Structural differences of code are never compared."""
import ast
import re

from .. import regexlang as R
from .. import roles
from ..core import Undecided, node_text
from ..model import NOCONST, const_value, dotted, walk_no_nested
from . import pa
from .ag import _statement_groups

# (python function, index) <-> (js function, index); relation: 'eq' languages/texts equal, 'sub' python language within js language
REGEX_PAIRS = [
    ('locate_statements', 0, 'locate_statements', 0, 'eq', ''),
    ('map_variables_directly', 0, 'map_variables_directly', 0, 'eq', ''),
    ('parse_array_variables', 0, 'parse_array_variables', 0, 'eq', ''),
    ('parse_attribute_variables', 0, 'parse_attribute_variables', 0, 'eq', ''),
    ('parse_basic_variables', 0, 'parse_basic_variables', 0, 'eq', ''),
    ('parse_dictionary_variables', 0, 'parse_dictionary_variables', 0, 'eq', ''),
    ('parse_join_expression', 0, 'parse_join_expression', 0, 'sub', 'rbql-js tolerates leading spaces before the table id (the text was stripped before)'),
    ('parse_join_expression', 1, 'parse_join_expression', 1, 'eq', ''),
    ('parse_join_expression', 2, 'parse_join_expression', 2, 'sub', 'rbql-js also accepts && between key pairs (JavaScript spelling of and)'),
    ('query_probably_has_dictionary_variable', 0, 'query_probably_has_dictionary_variable', 0, 'eq', ''),
    ('remove_redundant_input_table_name', 0, 'remove_redundant_table_name', 0, 'eq', ''),
    ('remove_redundant_input_table_name', 1, 'remove_redundant_table_name', 1, 'eq', ''),
    ('replace_star_count', 0, 'replace_star_count', 0, 'eq', ''),
    ('replace_star_vars', 0, 'replace_star_vars', 0, 'eq', ''),
    ('replace_star_vars_for_ast', 0, 'replace_star_vars_for_header_parsing', 0, 'eq', ''),
    ('separate_actions', 0, 'separate_actions', 0, 'eq', ''),
    ('separate_actions', 1, 'separate_actions', 1, 'differs', 'rbql-js removes SET without requiring the following space (both remove an optional SET after UPDATE)'),
    ('separate_actions', 2, 'separate_actions', 2, 'eq', ''),
    ('separate_actions', 3, 'separate_actions', 3, 'eq', ''),
    ('separate_actions', 4, 'separate_actions', 4, 'eq', ''),
    ('separate_actions', 5, 'separate_actions', 5, 'eq', ''),
    ('shallow_parse_input_query', 0, 'shallow_parse_input_query', 0, 'eq', ''),
    ('split_whitespace_separated_str', 0, 'split_whitespace_separated_str', 0, 'eq', ''),
    ('split_whitespace_separated_str', 1, 'split_whitespace_separated_str', 1, 'eq', ''),
    ('translate_select_expression', 0, 'translate_select_expression', 0, 'eq', ''),
    ('translate_update_expression', 0, 'translate_update_expression', 0, 'eq', ''),
    ('unquote_field', 0, 'unquote_field', 0, 'eq', ''),
]


def _func_of(cx, port, name):
    p = cx.port(port)
    for m in (['rbql_engine', 'rbql_csv', 'csv_utils'] if port == 'py' else ['rbql', 'rbql_csv', 'csv_utils']):
        f = p.func(m, name, required=False)
        if f is not None:
            return f
    return None


def _norm_pattern(p):
    return re.sub(r'^\(\?i\)', '', p)


def _close(a, b):
    """texts differ in at most a few characters (the allow-listed 'differs' pairs are near-identical spellings)"""
    import difflib
    return difflib.SequenceMatcher(None, a, b).ratio() > 0.8


def rule_rx_xp(cx, rep, port=None):
    """the regexes of twin functions accept the same strings.  Patterns are collected per function wherever they are written
    (inline, compiled or literal at module level, applied by a helper) and paired by language, not by position: first
    identical / language-equal pairs, then the allow-listed one-sided differences; anything left over is a disagreement."""
    n = 0
    pairs = {}
    for (pf, pi, jf, ji, rel, why) in REGEX_PAIRS:
        pairs.setdefault((pf, jf), []).append((rel, why))
    for (pf, jf), rels in sorted(pairs.items()):
        key = '{} ~ {}'.format(pf, jf)
        fp, fj = _func_of(cx, 'py', pf), _func_of(cx, 'js', jf)
        if fp is None or fj is None:
            rep.undecided(key, (cx.py.files['rbql_engine'], 0), 'twin function not found in a port')
            continue
        P = [(_norm_pattern(a), bool(ic) or a.startswith('(?i)'), node) for a, ic, node in pa.regexes_of(cx, 'py', fp, depth=0)]
        J = [(_norm_pattern(a), bool(ic), node) for a, ic, node in pa.regexes_of(cx, 'js', fj, depth=0)]
        if len(P) < len(rels) or len(J) < len(rels):
            rep.undecided(key, fp, 'expected {} paired patterns, python has {}, javascript has {}'.format(len(rels), len(P), len(J)))
            continue
        langs = {}

        def lang(item, flavour):
            k = (item[0], item[1], flavour)
            if k not in langs:
                try:
                    langs[k] = R.Lang(item[0], re.IGNORECASE if item[1] else 0, flavour=flavour)
                except R.Unsupported as e:
                    langs[k] = e
            return langs[k]
        leftP, leftJ = list(P), list(J)
        matched = 0
        # 1. identical text and case flag
        for a in list(leftP):
            hit = [b for b in leftJ if b[0] == a[0] and b[1] == a[1]]
            if hit:
                leftP.remove(a)
                leftJ.remove(hit[0])
                matched += 1
                rep.holds('{}: `{}`'.format(key, a[0][:50]), a[2], 'identical pattern text and flags')
        # 2. equal languages
        for a in list(leftP):
            la = lang(a, 'py')
            if isinstance(la, Exception):
                continue
            for b in list(leftJ):
                lb = lang(b, 'js')
                if isinstance(lb, Exception) or a[1] != b[1]:
                    continue
                eq, w1, w2 = R.compare(la, lb)
                if eq:
                    leftP.remove(a)
                    leftJ.remove(b)
                    matched += 1
                    rep.holds('{}: `{}`'.format(key, a[0][:50]), a[2], 'different spelling, same language (DFA product)')
                    break
        # 3. allow-listed one-sided differences
        allowed = [(rel, why) for rel, why in rels if rel != 'eq']
        for rel, why in allowed:
            done = False
            for a in list(leftP):
                for b in list(leftJ):
                    la, lb = lang(a, 'py'), lang(b, 'js')
                    if a[1] != b[1] or isinstance(la, Exception) or isinstance(lb, Exception):
                        continue
                    eq, w1, w2 = R.compare(la, lb)
                    if (rel == 'sub' and w1 is None) or (rel == 'differs' and _close(a[0], b[0])):
                        leftP.remove(a)
                        leftJ.remove(b)
                        matched += 1
                        done = True
                        rep.holds('{}: `{}`'.format(key, a[0][:50]), a[2], 'allow-listed difference: ' + why)
                        break
                if done:
                    break
        n += matched
        # 4. fewer agreeing pairs than the twins are known to share: the most similar left-overs disagree
        missing = len(rels) - matched
        import difflib
        while missing > 0 and leftP and leftJ:
            a, b = max(((x, y) for x in leftP for y in leftJ), key=lambda xy: difflib.SequenceMatcher(None, xy[0][0], xy[1][0]).ratio())
            leftP.remove(a)
            leftJ.remove(b)
            missing -= 1
            if difflib.SequenceMatcher(None, a[0], b[0]).ratio() < 0.5:
                rep.undecided('{}: `{}`'.format(key, a[0][:50]), a[2], 'no javascript counterpart recognised for this pattern in {}'.format(jf))
                continue
            if a[1] != b[1]:
                rep.violated('{}: `{}`'.format(key, a[0][:50]), b[2] if not b[1] else a[2], 'case sensitivity differs between the ports: python {}, javascript {} for `{}`'.format('insensitive' if a[1] else 'sensitive', 'insensitive' if b[1] else 'sensitive', a[0]))
                continue
            la, lb = lang(a, 'py'), lang(b, 'js')
            if isinstance(la, Exception) or isinstance(lb, Exception):
                rep.violated('{}: `{}`'.format(key, a[0][:50]), b[2], 'the paired patterns differ textually (`{}` vs `{}`) and cannot be compared as regular languages ({})'.format(a[0], b[0], la if isinstance(la, Exception) else lb))
                continue
            eq, w1, w2 = R.compare(la, lb)
            rep.violated('{}: `{}`'.format(key, a[0][:50]), b[2], 'python `{}` and javascript `{}` accept different strings: {}'.format(a[0], b[0], 'only python accepts {!r}'.format(w1) if w1 is not None else 'only javascript accepts {!r}'.format(w2)))
        if missing > 0:
            rep.undecided(key, fp, '{} of the {} patterns the twin functions shared have no counterpart any more'.format(missing, len(rels)))
    rep.require_count('paired regexes', n, 24, (cx.py.files['rbql_engine'], 0))
    # csv_utils module-level regexes
    from .cs import _module_regexes
    mp, mj = _module_regexes(cx, 'py'), _module_regexes(cx, 'js')
    for name in ('field_rgx', 'field_rgx_external_whitespaces'):
        if name in mp and name in mj:
            try:
                eq, w1, w2 = R.compare(R.Lang(mp[name][0]), R.Lang(mj[name][0], flavour='js'))
                rep.decide(eq, 'csv_utils.' + name, mj[name][2], 'same quoted-field language in both ports', 'the ports disagree on the quoted-field language: {}'.format('only python accepts {!r}'.format(w1) if w1 is not None else 'only javascript accepts {!r}'.format(w2)))
            except R.Unsupported as e:
                rep.undecided('csv_utils.' + name, mj[name][2], str(e))
        else:
            rep.undecided('csv_utils.' + name, (cx.py.files['csv_utils'], 0), 'regex constant missing in a port')


def rule_xp_keywords(cx, rep, port=None):
    def kw(port):
        p = cx.port(port)
        c = p.module_consts(cx.engine_mod(port))
        return {k: v for k, v in c.items() if k.isupper() and isinstance(v, str) and k.replace('_', ' ') == v}
    a, b = kw('py'), kw('js')
    only_py = set(a) - set(b)
    only_js = set(b) - set(a)
    rep.decide(only_py <= {'FROM'} and not only_js, 'keyword constants', (cx.py.files['rbql_engine'], 0), 'same statement keywords (FROM exists only in Python, where the input table may be named in the query)', 'statement keywords differ: only python {}, only javascript {}'.format(sorted(only_py), sorted(only_js)))
    ga, gb = _statement_groups(cx, 'py'), _statement_groups(cx, 'js')
    ga2 = [g for g in ga if g != ['FROM']]
    rep.decide(ga2 == gb, 'statement groups', (cx.js.files['rbql'], 0), 'same statement groups in the same order', 'statement groups differ: python {} vs javascript {}'.format(ga2, gb))


def _class_names(cx, port, fn):
    p = cx.port(port)
    return sorted(c.name for c in fn(p, cx.engine_mod(port)))


def rule_xp_roles(cx, rep, port=None):
    for label, fn in (('aggregators', roles.aggregators), ('chain writers', roles.chain_writers), ('joiners', roles.joiners)):
        a, b = _class_names(cx, 'py', fn), _class_names(cx, 'js', fn)
        rep.decide(a == b, label, (cx.js.files['rbql'], 0), 'same {} in both engines: {}'.format(label, a), '{} differ: python {} vs javascript {}'.format(label, a, b))
    # aggregate entry points and their spellings
    from .ag import _entry_funcs
    a, b = sorted(_entry_funcs(cx, 'py')), sorted(_entry_funcs(cx, 'js'))
    rep.decide(a == b, 'aggregate functions', (cx.js.files['rbql'], 0), 'same aggregate functions', 'aggregate functions differ: {} vs {}'.format(a, b))


def _templates_in(fd):
    """string templates (format strings / template literals) in a function, holes normalised to {}"""
    out = []
    for n in ast.walk(fd):
        if isinstance(n, ast.JoinedStr):
            out.append(((getattr(n, 'lineno', 0), getattr(n, 'col_offset', 0)), ''.join(str(v.value) if isinstance(v, ast.Constant) else '{}' for v in n.values)))
        elif isinstance(n, ast.Constant) and isinstance(n.value, str) and len(n.value) > 12 and not isinstance(getattr(n, 'parent', None), ast.JoinedStr):
            out.append(((getattr(n, 'lineno', 0), getattr(n, 'col_offset', 0)), n.value))
    return [t for _, t in sorted(out, key=lambda x: x[0])]      # in source order


def rule_xp_messages(cx, rep, port=None):
    """reader warnings and IO errors have the same text in both ports (C18: same warnings and errors from the same file)"""
    py, js = cx.py, cx.js
    pairs = [
        (py.func('rbql_csv', 'CSVRecordIterator.get_warnings'), js.func('rbql_csv', 'CSVRecordIterator.get_warnings'), 'reader warnings', None),
        (py.func('rbql_csv', 'make_inconsistent_num_fields_warning'), js.func('rbql_csv', 'make_inconsistent_num_fields_warning'), 'field-count warning', None),
        (py.func('rbql_csv', 'CSVRecordIterator.get_record'), js.func('rbql_csv', 'CSVRecordIterator.process_record_line'), 'quoting error', 'Inconsistent double quote'),
        (py.func('rbql_csv', 'CSVWriter.write'), js.func('rbql_csv', 'CSVWriter.write'), 'width error', 'Inconsistent number of columns'),
        (py.func('rbql_csv', 'CSVWriter.ensure_single_field'), js.func('rbql_csv', 'CSVWriter.mono_join'), 'monocolumn error', 'Monocolumn'),
    ]
    for a, b, label, must in pairs:
        if label == 'field-count warning':
            # both message builders evaluated on the same table: the texts must be equal
            from .. import absexec as AX
            texts = []
            for port_, fd_ in (('py', a), ('js', b)):
                try:
                    runs, cut = AX.Explorer(cx.port(port_), 'rbql_csv', max_choices=1).explore(fd_, ['input', {3: 5, 4: 2, 7: 9}])
                    v_ = runs[0].outcome[1] if (not cut and len(runs) == 1 and runs[0].outcome[0] == 'return') else None
                    texts.append(v_ if isinstance(v_, str) else None)
                except (Undecided, KeyError, IndexError, TypeError, AttributeError, ValueError):
                    texts.append(None)
            if None not in texts:
                rep.decide(texts[0] == texts[1], label, b, 'same message in both ports: {}'.format(texts[0][:80]), 'field-count warning messages differ: python {!r} vs javascript {!r}'.format(texts[0], texts[1]))
                continue
        oa = [t for t in _templates_in(a) if must is None or must in t]
        ob = [t for t in _templates_in(b) if must is None or must in t]
        ta, tb = sorted(oa), sorted(ob)
        if ta != tb and ''.join(oa) == ''.join(ob):
            ta = tb = [''.join(oa)]      # the same text, cut into pieces at different places
        rep.decide(ta == tb and ta, label, b, 'same message templates: {}'.format([t[:50] for t in ta]), '{} messages differ: python {} vs javascript {}'.format(label, ta, tb))
    ca = [v for k, v in py.module_consts('rbql_csv').items() if isinstance(v, str) and 'decode' in v]
    t = [t for t in _templates_in(py.func('rbql_csv', 'CSVRecordIterator.get_row_simple')) if 'decode' in t]
    cb = [v for k, v in js.module_consts('rbql_csv').items() if isinstance(v, str) and 'decode' in v]
    rep.decide(sorted(t) == sorted(cb) and t, 'decode error', (js.files['rbql_csv'], 0), 'same UTF-8 decode error message', 'decode error messages differ: {} vs {}'.format(t, cb))


def rule_xp_verdicts(cx, rep, port=None):
    """SK verdict vector per configuration: both ports compose the same set of configurations with the same fragments"""
    a, ea = cx.skeletons('py')
    b, eb = cx.skeletons('js')
    na = {s.name.split(':')[1]: sorted(h.name for h in s.sstr.holes()) for s in a}
    nb = {s.name.split(':')[1]: sorted(h.name for h in s.sstr.holes()) for s in b}
    diff = {k: (na.get(k), nb.get(k)) for k in set(na) | set(nb) if na.get(k) != nb.get(k)}
    if diff and all(v_[0] is None or v_[1] is None for v_ in diff.values()) and (ea or eb):
        # a configuration that one port's generator could not be evaluated for is not a difference between the ports
        rep.undecided('skeleton fragments', (cx.js.files['rbql'], 0), 'the code generator of one port could not be evaluated for {} configuration(s): {}'.format(len(diff), str((ea or eb)[0])[:160]))
        return
    rep.decide(not diff and na, 'skeleton fragments', (cx.js.files['rbql'], 0), '{} configurations compose with the same user fragments in both ports'.format(len(na)), 'the ports embed different user fragments: {}'.format(diff))
    from .conf import table
    wa, ra, _ = table(cx, 'py')
    wb, rb, _ = table(cx, 'js')

    def outcome(rows):
        d = {}
        for r in rows:
            k = tuple(sorted((kk, vv) for kk, vv in r.atoms.items() if kk not in ('TOP', 'FROM', 'LIMIT')))
            o = 'error' if r.error is not None else 'ok:' + '>'.join(w for w in r.wraps() if w != 'TopWriter')
            d.setdefault(k, set()).add(o)
        return d
    oa, ob = outcome(ra), outcome(rb)
    bad = [k for k in oa if k in ob and ({x.split(':')[0] for x in oa[k]} != {x.split(':')[0] for x in ob[k]} or {x for x in oa[k] if x.startswith('ok')} != {x for x in ob[k] if x.startswith('ok')})]
    if bad:
        k = bad[0]
        rep.violated('parser outcomes', wb.fd, 'for keywords {} python gives {} but javascript gives {}'.format([kk for kk, vv in k if vv], sorted(oa[k]), sorted(ob[k])))
    else:
        rep.holds('parser outcomes', wb.fd, '{} keyword configurations: same accept/reject outcome and same writer chain (ignoring the always-present JS TopWriter) in both ports'.format(len(oa)))
