"""AG-FOLD / AG-FINAL / AG-ABSENT (C03): each aggregator class is summarised as a fold  (first value -> state,
(state, value) -> state)  plus a final-value formula, by abstract interpretation of `increment` / `get_final` over a small symbolic
domain (rational functions of the old state components o0..ok and the new value v, min/max as opaque symmetric functions, list
append).  The summaries are compared with the mathematical reference up to algebraic identity and component permutation.
Nothing is executed; a method outside the enumerated statement forms is UNDECIDED."""
import ast
import itertools

from .. import roles
from ..core import Undecided, node_text
from ..idioms import is_name, negated
from ..model import call_name, dotted, is_none, names_in, walk_no_nested
from ..poly import Rat


class Old(object):
    """the state stored for the key before this call"""

    def __init__(self):
        self.arity = None     # None = scalar use; int = tuple use

    def comp(self, i):
        self.arity = max(self.arity or 0, i + 1)
        return Rat.sym('o{}'.format(i))

    def scalar(self):
        return Rat.sym('o0')


class Seq(object):
    """a list state: ('empty') or old list, followed by appended values"""

    def __init__(self, base, appended):
        self.base, self.appended = base, list(appended)

    def key(self):
        return ('seq', self.base, tuple(repr(a) for a in self.appended))


class Tup(object):
    def __init__(self, items):
        self.items = list(items)


class FoldInterp(object):
    def __init__(self, cls, port, default_kind):
        self.cls = cls
        self.port = port
        self.default_kind = default_kind   # None | 'zero' | 'list'
        self.truthiness_test = None

    def run_increment(self, fd, absent):
        params = [a.arg for a in fd.args.args]
        self.key, self.val = params[1], params[2]
        env = {self.val: Rat.sym('v')}
        self.old = Old()
        self.absent = absent
        self.stores = []
        self.parsed = False
        self._block(fd.body, env)
        return self.stores

    # ---- helpers
    def _is_stats(self, e):
        return dotted(e) == 'self.stats' or dotted(e) == 'self.const_values'

    def _lookup(self, e):
        """is e a read of the stored state for the key?  self.stats.get(key) / self.stats[key] / this.stats.get(key)"""
        if isinstance(e, ast.Call) and isinstance(e.func, ast.Attribute) and e.func.attr == 'get' and self._is_stats(e.func.value) and e.args and is_name(e.args[0], self.key):
            return True
        if isinstance(e, ast.Subscript) and self._is_stats(e.value) and is_name(e.slice, self.key):
            return True
        return False

    def _old_value(self):
        if self.absent:
            if self.default_kind == 'zero':
                return Rat.const(0)
            if self.default_kind == 'list':
                return Seq('empty', [])
            return 'ABSENT'
        return self.old

    def _absence_test(self, t, env):
        """returns True/False if t is decided by the absence mode, else None"""
        neg = False
        if negated(t) is not None:
            neg, t = True, negated(t)
        res = None
        if isinstance(t, ast.Compare) and len(t.ops) == 1:
            l, r, op = t.left, t.comparators[0], t.ops[0]
            if is_none(r) and self._refers_old(l, env):
                if isinstance(op, (ast.Is, ast.Eq)):
                    res = self.absent
                elif isinstance(op, (ast.IsNot, ast.NotEq)):
                    res = not self.absent
            if isinstance(op, (ast.In, ast.NotIn)) and is_name(l, self.key) and self._is_stats(r):
                res = (not self.absent) if isinstance(op, ast.In) else self.absent
        elif isinstance(t, ast.Call) and isinstance(t.func, ast.Attribute) and t.func.attr == 'has' and self._is_stats(t.func.value):
            res = not self.absent
        elif self._refers_old(t, env):
            # bare truthiness of the stored value
            self.truthiness_test = t
            res = not self.absent
        if res is None:
            return None
        return (not res) if neg else res

    def _refers_old(self, e, env):
        if self._lookup(e):
            return True
        if isinstance(e, ast.Name) and env.get(e.id) in ('OLDREF',):
            return True
        return False

    def _block(self, stmts, env):
        for st in stmts:
            if self._stmt(st, env) == 'return':
                return 'return'
        return None

    def _stmt(self, st, env):
        if isinstance(st, ast.Assign) and len(st.targets) == 1:
            t, v = st.targets[0], st.value
            if isinstance(t, ast.Name):
                if self._lookup(v):
                    env[t.id] = 'OLDREF'
                    return None
                if isinstance(v, ast.Call) and (call_name(v) or '').split('.')[-1] in ('parse', 'parse_number') and len(v.args) == 1 and is_name(v.args[0], self.val):
                    self.parsed = True
                    env[t.id] = Rat.sym('v')
                    return None
                env[t.id] = self._expr(v, env)
                return None
            if isinstance(t, (ast.Tuple, ast.List)):
                val = self._expr(v, env)
                if isinstance(val, Old):
                    for i, x in enumerate(t.elts):
                        env[x.id] = val.comp(i)
                    return None
                if isinstance(val, Tup) and len(val.items) == len(t.elts):
                    for x, it in zip(t.elts, val.items):
                        env[x.id] = it
                    return None
                raise Undecided('unpacking not recognised', st)
            if isinstance(t, ast.Subscript) and self._is_stats(t.value) and is_name(t.slice, self.key):
                self.stores.append(self._expr(v, env))
                return None
        if isinstance(st, ast.AugAssign) and isinstance(st.target, ast.Subscript) and self._is_stats(st.target.value) and is_name(st.target.slice, self.key) and isinstance(st.op, ast.Add):
            base = self._old_value()
            if base == 'ABSENT':
                raise Undecided('+= on a missing key of a plain dict', st)
            b = base.scalar() if isinstance(base, Old) else base
            self.stores.append(b + self._num(self._expr(st.value, env), st))
            return None
        if isinstance(st, ast.Expr) and isinstance(st.value, ast.Call):
            c = st.value
            if isinstance(c.func, ast.Attribute) and c.func.attr in ('append', 'push') and len(c.args) == 1:
                recv = c.func.value
                target = None
                if self._lookup(recv) or (isinstance(recv, ast.Name) and env.get(recv.id) == 'OLDREF'):
                    target = self._old_value()
                if target is not None:
                    if target == 'ABSENT':
                        raise Undecided('append on a missing key', st)
                    if isinstance(target, Old):
                        self.stores.append(Seq('old', [self._expr(c.args[0], env)]))
                    elif isinstance(target, Seq):
                        self.stores.append(Seq(target.base, target.appended + [self._expr(c.args[0], env)]))
                    return None
            if isinstance(c.func, ast.Attribute) and c.func.attr == 'set' and self._is_stats(c.func.value) and len(c.args) == 2 and is_name(c.args[0], self.key):
                self.stores.append(self._expr(c.args[1], env))
                return None
        if isinstance(st, ast.If):
            r = self._absence_test(st.test, env)
            if r is None:
                raise Undecided('condition `{}` is not an absence test of the stored state'.format(node_text(st.test, 80)), st)
            return self._block(st.body if r else st.orelse, env)
        if isinstance(st, ast.Return):
            return 'return'
        if isinstance(st, ast.Raise):
            self.stores.append('RAISE')
            return 'return'
        if isinstance(st, ast.Pass):
            return None
        raise Undecided('statement `{}` is outside the fold interpreter'.format(node_text(st, 80)), st)

    def _num(self, v, node):
        if isinstance(v, Rat):
            return v
        if isinstance(v, Old):
            return v.scalar()
        raise Undecided('numeric value expected', node)

    def _expr(self, e, env):
        if isinstance(e, ast.Call) and (call_name(e) or '').split('.')[-1] in ('parse', 'parse_number') and len(e.args) == 1 and is_name(e.args[0], self.val) and self.val in env:
            # the numeric parser applied where the value is used (this path converts; another path may not)
            self.parsed = True
            return env[self.val]
        if isinstance(e, ast.Constant) and isinstance(e.value, (int, float)) and not isinstance(e.value, bool):
            return Rat.const(e.value if isinstance(e.value, int) else int(e.value) if float(e.value).is_integer() else e.value)
        if isinstance(e, ast.Name):
            if e.id in env:
                v = env[e.id]
                if v == 'OLDREF':
                    ov = self._old_value()
                    if ov == 'ABSENT':
                        raise Undecided('stored state used although absent', e)
                    return ov
                return v
            raise Undecided('unbound name {}'.format(e.id), e)
        if self._lookup(e):
            ov = self._old_value()
            if ov == 'ABSENT':
                raise Undecided('stored state used although absent', e)
            return ov
        if isinstance(e, (ast.Tuple, ast.List)):
            items = [self._expr(x, env) for x in e.elts]
            if isinstance(e, ast.List) and self.port == 'py' or (isinstance(e, ast.List) and len(items) == 1 and self.cls.name in ('MedianAggregator', 'ArrayAggAggregator')):
                return Seq('empty', items)
            return Tup(items)
        if isinstance(e, ast.Subscript) and not isinstance(e.slice, ast.Slice):
            idx = e.slice.value if isinstance(e.slice, ast.Constant) and isinstance(e.slice.value, int) else None
            if idx is None and isinstance(e.slice, ast.Name) and isinstance(env.get(e.slice.id), int):
                idx = env[e.slice.id]          # index variable of an element-wise map, bound to a concrete position
            if idx is not None:
                base = self._expr(e.value, env)
                if isinstance(base, Old):
                    return base.comp(idx)
                if isinstance(base, Tup) and 0 <= idx < len(base.items):
                    return base.items[idx]
                if isinstance(base, Seq) and base.base == 'empty' and 0 <= idx < len(base.appended):
                    return base.appended[idx]
        # element-wise combination of the stored tuple with a list of terms: old.map((x, i) => x + terms[i])
        if isinstance(e, ast.Call) and isinstance(e.func, ast.Attribute) and e.func.attr == 'map' and len(e.args) == 1:
            fn = e.args[0]
            fparams, fbody = None, None
            if isinstance(fn, ast.Lambda):
                fparams, fbody = [a.arg for a in fn.args.args], fn.body
            else:
                ref = getattr(fn, 'js_function_ref', None)
                if ref is not None and len(ref.body) == 1 and isinstance(ref.body[0], ast.Return) and ref.body[0].value is not None:
                    fparams, fbody = [a.arg for a in ref.args.args], ref.body[0].value
            if fparams is not None and 1 <= len(fparams) <= 2:
                base = self._expr(e.func.value, env)
                n_items = None
                if isinstance(base, Tup):
                    n_items = len(base.items)
                elif isinstance(base, Old) and len(fparams) == 2:
                    # arity = length of the list(s) the body indexes with the position parameter
                    lens = set()
                    for x in ast.walk(fbody):
                        if isinstance(x, ast.Subscript) and isinstance(x.slice, ast.Name) and x.slice.id == fparams[1]:
                            try:
                                b_ = self._expr(x.value, env)
                            except Undecided:
                                b_ = None
                            if isinstance(b_, Tup):
                                lens.add(len(b_.items))
                            elif isinstance(b_, Seq) and b_.base == 'empty':
                                lens.add(len(b_.appended))
                    if len(lens) == 1:
                        n_items = lens.pop()
                if n_items is not None:
                    out = []
                    for i in range(n_items):
                        env2 = dict(env)
                        env2[fparams[0]] = base.comp(i) if isinstance(base, Old) else base.items[i]
                        if len(fparams) == 2:
                            env2[fparams[1]] = i
                        out.append(self._expr(fbody, env2))
                    return Tup(out)
        if isinstance(e, ast.BinOp):
            a, b = self._expr(e.left, env), self._expr(e.right, env)
            a, b = self._num(a, e), self._num(b, e)
            if isinstance(e.op, ast.Add):
                return a + b
            if isinstance(e.op, ast.Sub):
                return a - b
            if isinstance(e.op, ast.Mult):
                return a * b
            if isinstance(e.op, ast.Div):
                return a / b
            if isinstance(e.op, ast.Pow) and isinstance(e.right, ast.Constant) and isinstance(e.right.value, int) and 0 <= e.right.value <= 4:
                return a ** e.right.value
        if isinstance(e, ast.Call):
            d = dotted(e.func) or ''
            if d in ('float', 'Number', 'int') and len(e.args) == 1:
                return self._expr(e.args[0], env)
            if d in ('min', 'max', 'Math.min', 'Math.max') and len(e.args) == 2:
                args = sorted(repr(self._num(self._expr(a, env), e)) for a in e.args)
                return Rat.sym('{}[{}]'.format(d.split('.')[-1], '; '.join(args)))
        if isinstance(e, ast.BoolOp) and isinstance(e.op, ast.Or) and len(e.values) == 2 and self._refers_old(e.values[0], env):
            # `stored || default`: truthiness default
            self.truthiness_test = e
            if self.absent:
                return self._expr(e.values[1], env)
            return self._expr(e.values[0], env)
        if isinstance(e, ast.IfExp):
            r = self._absence_test(e.test, env)
            if r is not None:
                return self._expr(e.body if r else e.orelse, env)
        raise Undecided('expression `{}` is outside the fold interpreter'.format(node_text(e, 80)), e)


def _default_kind(cls):
    init = roles.methods(cls)['__init__']
    for n in walk_no_nested(init):
        if isinstance(n, ast.Assign) and dotted(n.targets[0]) == 'self.stats' and isinstance(n.value, ast.Call):
            d = dotted(n.value.func)
            if d in ('defaultdict', 'collections.defaultdict') and n.value.args:
                a = dotted(n.value.args[0])
                return 'zero' if a in ('int', 'float') else ('list' if a == 'list' else None)
    return None


def _show(v):
    if isinstance(v, Rat):
        return repr(v)
    if isinstance(v, Tup):
        return '(' + ', '.join(_show(x) for x in v.items) + ')'
    if isinstance(v, Seq):
        return ('[]' if v.base == 'empty' else 'old') + ''.join(' ++ [{}]'.format(_show(a)) for a in v.appended)
    return str(v)


V = Rat.sym('v')
O = [Rat.sym('o0'), Rat.sym('o1'), Rat.sym('o2')]
ONE = Rat.const(1)

REFERENCE = {
    'MinAggregator': ('scalar', [V], [Rat.sym('min[o0; v]')]),
    'MaxAggregator': ('scalar', [V], [Rat.sym('max[o0; v]')]),
    'SumAggregator': ('scalar', [V], [O[0] + V]),
    'CountAggregator': ('scalar', [ONE], [O[0] + ONE]),
    'AvgAggregator': ('tuple', [V, ONE], [O[0] + V, O[1] + ONE]),
    'VarianceAggregator': ('tuple', [V, V * V, ONE], [O[0] + V, O[1] + V * V, O[2] + ONE]),
}
FINAL_REFERENCE = {
    'AvgAggregator': O[0] / O[1],
    'VarianceAggregator': O[1] / O[2] - (O[0] / O[2]) * (O[0] / O[2]),
}
SEQ_CLASSES = {'MedianAggregator', 'ArrayAggAggregator'}


def _components(v):
    if isinstance(v, Tup):
        return v.items
    if isinstance(v, Seq) and v.base == 'empty' and False:
        return v.appended
    return [v]


def rule_ag_fold(cx, rep, port):
    p = cx.port(port)
    mod = cx.engine_mod(port)
    classes = {c.name: c for c in roles.aggregators(p, mod)}
    n = 0
    for name in ['MinAggregator', 'MaxAggregator', 'SumAggregator', 'CountAggregator', 'AvgAggregator', 'VarianceAggregator', 'MedianAggregator', 'ArrayAggAggregator', 'AnyValueAggregator']:
        c = classes.get(name)
        if c is None:
            rep.undecided(name, (p.files[mod], 0), 'aggregator class not found')
            continue
        inc = roles.methods(c)['increment']
        n += 1
        try:
            fi_a = FoldInterp(c, port, _default_kind(c))
            first = fi_a.run_increment(inc, True)
            fi_p = FoldInterp(c, port, _default_kind(c))
            step = fi_p.run_increment(inc, False)
        except Undecided as u:
            rep.undecided(name + ' fold', u.node if u.node is not None else inc, str(u))
            continue
        # truthiness absence tests on numeric scalars
        tt = fi_a.truthiness_test or fi_p.truthiness_test
        if tt is not None and name in ('MinAggregator', 'MaxAggregator', 'SumAggregator', 'CountAggregator', 'AnyValueAggregator'):
            rep.violated(name + ' absence test', tt, 'the stored value is tested for absence by truthiness (`{}`): a stored 0 (or empty string) is treated as "no value yet", so e.g. MIN over 3, 0, 5 forgets the 0'.format(node_text(tt, 60)))
            continue
        if name not in ('CountAggregator', 'ArrayAggAggregator', 'AnyValueAggregator') and not (fi_a.parsed and fi_p.parsed):
            rep.violated(name + ' conversion', inc, 'the argument is not converted with the numeric parser before it is accumulated ({}): numeric strings are combined as strings, and a non-numeric value no longer raises the error that names its record'.format('first value of a group' if not fi_a.parsed else 'later values of a group'))
            continue
        if name == 'AnyValueAggregator':
            ok = len(first) == 1 and isinstance(first[0], Rat) and first[0].equals(V) and step == []
            rep.decide(ok, name + ' fold', inc, 'keeps the first value of the group', 'ANY_VALUE does not keep exactly the first value of a group (first: {}, later: {})'.format([_show(x) for x in first], [_show(x) for x in step]))
            continue
        if name in SEQ_CLASSES:
            ok = len(first) == 1 and isinstance(first[0], Seq) and first[0].base == 'empty' and len(first[0].appended) == 1 and first[0].appended[0].equals(V) and len(step) == 1 and isinstance(step[0], Seq) and step[0].base == 'old' and len(step[0].appended) == 1 and step[0].appended[0].equals(V)
            rep.decide(ok, name + ' fold', inc, 'collects every value of the group in input order', '{} does not collect exactly the values of the group in input order (first: {}, later: {})'.format(name, [_show(x) for x in first], [_show(x) for x in step]))
            continue
        kind, ref_first, ref_step = REFERENCE[name]
        if len(first) != 1 or len(step) != 1:
            rep.violated(name + ' fold', inc, 'the state is stored {} time(s) for a first value and {} time(s) for a later one (must be once each)'.format(len(first), len(step)))
            continue
        fa, fs = _components(first[0]), _components(step[0])
        if len(fa) != len(ref_first) or len(fs) != len(ref_step) or not all(isinstance(x, Rat) for x in fa + fs):
            rep.violated(name + ' fold', inc, 'state shape differs from the reference: first {}, step {}'.format(_show(first[0]), _show(step[0])))
            continue
        perm_ok = None
        for perm in itertools.permutations(range(len(ref_first))):
            # component i of the code corresponds to reference component perm[i]; rename o_i accordingly in the reference
            def ren(r):
                return r
            ok = all(fa[i].equals(ref_first[perm[i]]) for i in range(len(fa)))
            if not ok:
                continue
            # rename reference symbols o_perm[i] -> o_i
            ok2 = True
            for i in range(len(fs)):
                ref = _rename(ref_step[perm[i]], perm)
                if not fs[i].equals(ref):
                    ok2 = False
            if ok2:
                perm_ok = perm
                break
        if perm_ok is None:
            rep.violated(name + ' fold', inc, 'the accumulation differs from the mathematical definition: first value -> {}, then (state, v) -> {}; expected first {} and step {} (up to algebraic identity)'.format(_show(first[0]), _show(step[0]), [repr(x) for x in ref_first], [repr(x) for x in ref_step]))
            continue
        rep.holds(name + ' fold', inc, 'first value -> {}, (state, v) -> {}'.format(_show(first[0]), _show(step[0])))
        # final value
        gf = roles.methods(c)['get_final']
        if name in FINAL_REFERENCE:
            try:
                val = _final_value(gf, port)
            except Undecided as u:
                rep.undecided(name + ' final', u.node if u.node is not None else gf, str(u))
                continue
            ref = _rename(FINAL_REFERENCE[name], perm_ok)
            rep.decide(val.equals(ref), name + ' final', gf, 'final value = {}'.format(ref), 'the final value {} is not the mathematical {} = {}'.format(val, name.replace('Aggregator', '').upper(), ref))
        else:
            rets = [r for r in walk_no_nested(gf) if isinstance(r, ast.Return)]
            ok = len(rets) == 1 and (node_text(rets[0].value) in ('self.stats[key]', 'self.stats.get(key)'))
            rep.decide(ok, name + ' final', gf, 'final value = the accumulated state', 'get_final does not return the accumulated state unchanged (`{}`)'.format(node_text(rets[0].value) if rets else ''))
    rep.require_count('aggregator folds', n, 9, (p.files[mod], 0))


def _rename(r, perm):
    """reference uses o_j; code component i holds reference component perm[i]  =>  substitute o_perm[i] := o_i"""
    from ..poly import Poly
    inv = {perm[i]: i for i in range(len(perm))}

    def ren_poly(pl):
        out = {}
        for mon, c in pl.terms.items():
            new = []
            for s, e in mon:
                if s.startswith('o') and s[1:].isdigit() and int(s[1:]) in inv:
                    new.append(('o{}'.format(inv[int(s[1:])]), e))
                elif '[' in s:
                    t = s
                    for j, i in inv.items():
                        t = t.replace('o{}'.format(j), 'O{}'.format(i))
                    new.append((t.replace('O', 'o'), e))
                else:
                    new.append((s, e))
            k = tuple(sorted(new))
            out[k] = out.get(k, 0) + c
        return Poly(out)
    return Rat(ren_poly(r.num), ren_poly(r.den))


def _final_value(gf, port):
    """symbolic value returned by get_final in terms of the state components"""
    key = gf.args.args[1].arg
    env = {}
    old = Old()

    def lookup(e):
        return (isinstance(e, ast.Subscript) and dotted(e.value) == 'self.stats' and is_name(e.slice, key)) or (isinstance(e, ast.Call) and isinstance(e.func, ast.Attribute) and e.func.attr == 'get' and dotted(e.func.value) == 'self.stats')

    def ev(e):
        if isinstance(e, ast.Constant) and isinstance(e.value, (int, float)):
            return Rat.const(int(e.value) if float(e.value).is_integer() else e.value)
        if isinstance(e, ast.Name):
            if e.id in env:
                return env[e.id]
            raise Undecided('unbound name ' + e.id, e)
        if lookup(e):
            return old
        if isinstance(e, ast.Subscript) and isinstance(e.slice, ast.Constant) and isinstance(e.slice.value, int):
            b = ev(e.value)
            if isinstance(b, Old):
                return b.comp(e.slice.value)
        if isinstance(e, ast.Call) and dotted(e.func) in ('float', 'Number') and len(e.args) == 1:
            return ev(e.args[0])
        if isinstance(e, ast.BinOp):
            a, b = ev(e.left), ev(e.right)
            if isinstance(a, Rat) and isinstance(b, Rat):
                if isinstance(e.op, ast.Add):
                    return a + b
                if isinstance(e.op, ast.Sub):
                    return a - b
                if isinstance(e.op, ast.Mult):
                    return a * b
                if isinstance(e.op, ast.Div):
                    return a / b
                if isinstance(e.op, ast.Pow) and isinstance(e.right, ast.Constant) and isinstance(e.right.value, int):
                    return a ** e.right.value
        raise Undecided('expression `{}` outside the formula interpreter'.format(node_text(e, 80)), e)
    for st in gf.body:
        if isinstance(st, ast.Assign) and len(st.targets) == 1:
            t = st.targets[0]
            if isinstance(t, ast.Name):
                env[t.id] = ev(st.value)
                continue
            if isinstance(t, (ast.Tuple, ast.List)):
                v = ev(st.value)
                if isinstance(v, Old):
                    for i, x in enumerate(t.elts):
                        env[x.id] = v.comp(i)
                    continue
        if isinstance(st, ast.Return):
            v = ev(st.value)
            if isinstance(v, Rat):
                return v
        raise Undecided('statement `{}` outside the formula interpreter'.format(node_text(st, 80)), st)
    raise Undecided('no return in get_final', gf)


def rule_ag_median(cx, rep, port):
    """MEDIAN final value: numeric ascending sort of the collected values, m = floor(n/2), odd -> s[m], even -> (s[m-1] + s[m]) / 2"""
    p = cx.port(port)
    mod = cx.engine_mod(port)
    c = p.cls(mod, 'MedianAggregator')
    gf = roles.methods(c)['get_final']
    sorts = [n for n in walk_no_nested(gf) if isinstance(n, ast.Call) and (dotted(n.func) == 'sorted' or (isinstance(n.func, ast.Attribute) and n.func.attr == 'sort'))]
    if len(sorts) != 1:
        rep.violated('median sort', gf, 'the collected values are sorted {} times'.format(len(sorts)))
        return
    s = sorts[0]
    if port == 'py':
        kw = {k.arg for k in s.keywords}
        rep.decide(not kw, 'median sort', s, 'ascending sort of the numeric values', 'MEDIAN sorts with {}'.format(sorted(kw)))
    else:
        f = s.args[0] if s.args else None
        ref = getattr(f, 'js_function_ref', None)
        if f is None:
            rep.violated('median sort', s, 'Array.sort() without a comparator sorts numbers as strings (10 before 9): the median of multi-digit values is wrong')
        else:
            from ..idioms import difference_comparator
            dc = difference_comparator(f)
            if dc is None:
                rep.undecided('median sort', s, 'MEDIAN comparator `{}` is not of the form (a, b) => a - b'.format(node_text(ref if ref is not None else f, 60)))
            else:
                rep.decide(dc == ('asc', '_'), 'median sort', s, 'numeric ascending comparator', 'the MEDIAN comparator is not the numeric ascending `a - b` (it orders {} by `{}`)'.format('descending' if dc[0] == 'desc' else 'ascending', dc[1]))
    # the value per path (path summaries: temporaries, guard clauses, conditional expressions are all the same thing)
    from .. import pathsem
    ps = pathsem.paths(gf)
    if ps is None:
        rep.undecided('median middle', gf, 'get_final is not summarisable as paths')
        return

    def floor_half(e):
        """is e = floor(len(S) / 2) for some sequence S?  -> dump of S"""
        def ln(x):
            if isinstance(x, ast.Call) and dotted(x.func) == 'len' and len(x.args) == 1:
                return ast.dump(x.args[0])
            if isinstance(x, ast.Attribute) and x.attr == 'length':
                return ast.dump(x.value)
            return None
        if isinstance(e, ast.Call) and dotted(e.func) in ('int', 'Math.floor', 'math.floor', 'Math.trunc') and len(e.args) == 1:
            d = e.args[0]
            if isinstance(d, ast.BinOp) and isinstance(d.op, ast.Div) and isinstance(d.right, ast.Constant) and d.right.value in (2, 2.0):
                return ln(d.left)
        if isinstance(e, ast.BinOp) and isinstance(e.op, ast.FloorDiv) and isinstance(e.right, ast.Constant) and e.right.value == 2:
            return ln(e.left)
        if isinstance(e, ast.BinOp) and isinstance(e.op, ast.RShift) and isinstance(e.right, ast.Constant) and e.right.value == 1:
            return ln(e.left)
        return None

    def elem(e):
        """S[m + k] -> (dump of S, k) with m = floor(len(S)/2)"""
        if not isinstance(e, ast.Subscript):
            return None
        seq, i = ast.dump(e.value), e.slice
        k = 0
        if isinstance(i, ast.BinOp) and isinstance(i.op, (ast.Add, ast.Sub)) and isinstance(i.right, ast.Constant) and isinstance(i.right.value, int):
            k = i.right.value if isinstance(i.op, ast.Add) else -i.right.value
            i = i.left
        fh = floor_half(i)
        if fh is None or fh != seq:
            return None
        return (seq, k)
    n_odd = n_even = 0
    for q in ps:
        if q.kind != 'return' or q.value is None:
            continue
        parity = None     # True = odd
        equal_mid = None
        for atom, pol in pathsem.atoms(q.conds):
            t_ = atom
            if isinstance(t_, ast.BinOp) and isinstance(t_.op, ast.Mod) and isinstance(t_.right, ast.Constant) and t_.right.value == 2:
                parity = pol
            elif isinstance(t_, ast.Compare) and len(t_.ops) == 1 and isinstance(t_.left, ast.BinOp) and isinstance(t_.left.op, ast.Mod) and isinstance(t_.left.right, ast.Constant) and t_.left.right.value == 2 and isinstance(t_.comparators[0], ast.Constant) and t_.comparators[0].value in (0, 1) and isinstance(t_.ops[0], (ast.Eq, ast.NotEq, ast.Is, ast.IsNot)):
                is_one = (t_.comparators[0].value == 1) == isinstance(t_.ops[0], (ast.Eq, ast.Is))
                parity = is_one == pol
            elif isinstance(t_, ast.Compare) and len(t_.ops) == 1 and isinstance(t_.ops[0], (ast.Eq, ast.NotEq)) and elem(t_.left) and elem(t_.comparators[0]) and {elem(t_.left)[1], elem(t_.comparators[0])[1]} == {-1, 0}:
                equal_mid = isinstance(t_.ops[0], ast.Eq) == pol
        if parity is None:
            rep.undecided('median parity', q.node, 'a path of get_final is not classified by the parity of the number of values')
            return
        v = q.value
        if parity:
            n_odd += 1
            el = elem(v)
            if el is None:
                rep.undecided('median odd', q.node, 'value `{}` returned for an odd count not recognised'.format(node_text(v, 60)))
                return
            if el[1] != 0:
                rep.violated('median odd', q.node, 'for an odd number of values MEDIAN returns the element {} the middle one'.format('after' if el[1] > 0 else 'before'))
                return
        else:
            n_even += 1
            el = elem(v)
            if el is not None and equal_mid is True and el[1] in (-1, 0):
                continue       # the two middle values are equal: either of them is their mean
            ok_even = False
            if isinstance(v, ast.BinOp) and isinstance(v.op, ast.Div) and isinstance(v.right, ast.Constant) and v.right.value in (2, 2.0) and isinstance(v.left, ast.BinOp) and isinstance(v.left.op, ast.Add):
                a_, b_ = elem(v.left.left), elem(v.left.right)
                if a_ and b_ and a_[0] == b_[0]:
                    if {a_[1], b_[1]} == {-1, 0}:
                        ok_even = True
                    else:
                        rep.violated('median even', q.node, 'for an even number of values MEDIAN averages the elements at m{:+d} and m{:+d} instead of the two middle ones (m-1, m)'.format(a_[1], b_[1]))
                        return
            if not ok_even:
                if el is not None:
                    rep.violated('median even', q.node, 'for an even number of values MEDIAN returns one element (`{}`) instead of the mean of the two middle ones'.format(node_text(v, 50)))
                    return
                rep.undecided('median even', q.node, 'value `{}` returned for an even count not recognised'.format(node_text(v, 80)))
                return
    if n_odd and n_even:
        rep.holds('median middle', gf, 'm = floor(n / 2) indexes the sorted values')
        rep.holds('median odd', gf, 'odd count -> the middle value')
        rep.holds('median even', gf, 'even count -> mean of the two middle values s[m-1], s[m]')
    else:
        rep.undecided('median parity', gf, 'odd / even paths not both found')


def rule_ag_parse(cx, rep, port='js'):
    """rbql-js parse_number: every value it hands back was tested with isNaN (a non-numeric value, however it arrives - a string
    or the NaN an arithmetic expression produced - raises the runtime error that names the record)"""
    from .. import pathsem
    p = cx.port('js')
    fd = p.func('rbql', 'parse_number')
    ps = pathsem.paths(fd)
    if ps is None:
        rep.undecided('parse_number', fd, 'parse_number is not summarisable as paths')
        return
    n = 0
    raises = False
    for q in ps:
        if q.kind == 'raise':
            raises = raises or (q.value is not None and 'RbqlRuntimeError' in node_text(q.value, 200))
            continue
        if q.kind != 'return' or q.value is None:
            continue
        n += 1
        rv = ast.dump(q.value)
        tested = False
        for atom, pol in pathsem.atoms(q.conds):
            if isinstance(atom, ast.Call) and dotted(atom.func) in ('isNaN', 'Number.isNaN') and atom.args and not pol:
                arg = atom.args[0]
                if ast.dump(arg) == rv or (isinstance(arg, ast.Call) and dotted(arg.func) == 'Number' and arg.args and ast.dump(arg.args[0]) == rv) or (isinstance(q.value, ast.Call) and dotted(q.value.func) in ('Number', 'parseFloat') and q.value.args and ast.dump(q.value.args[0]) == ast.dump(arg)):
                    tested = True
        if not tested:
            rep.violated('parse_number', q.node, 'parse_number returns `{}` on a path that has not tested it with isNaN: a NaN (e.g. from `MAX(a2 * 10)` over a non-numeric field) is accumulated silently instead of raising the conversion error at that record'.format(node_text(q.value, 40)))
            return
    rep.decide(n >= 1 and raises, 'parse_number', fd, 'every returned value was tested with isNaN; NaN raises the runtime error', 'parse_number has no path raising the conversion error')


def _numparse_model(cx, p, cls, fd):
    """NumHandler (constructor + parse) evaluated on eight sequences of values: {'exact': problem, 'order': problem} (None = fine) or
    None when outside the abstract interpreter"""
    from .. import absexec as AX
    init = [m for m in cls.body if isinstance(m, ast.FunctionDef) and m.name == '__init__']
    if len(init) != 1 or len(init[0].args.args) != 2:
        return None
    big = '9007199254740993'       # 2**53 + 1: not representable as a double
    ERR = 'error'
    cases = [(True, ['5', '7', '2.5', '3'], [5, 7, 2.5, 3.0]), (True, [big, '1'], [int(big), 1]), (True, [5, '7'], [5, '7']), (True, ['x'], [ERR]), (True, ['5', 'x'], [5, ERR]),
             (False, ['5', '2.5'], [5.0, 2.5]), (True, ['1e3', big], [1000.0, float(big)]), (True, ['-4', ' 6 '], [-4, 6])]
    res = {}
    try:
        for start_int, seq, want in cases:
            selfv = AX.Abs('Self')

            def on_call(ex, node, fname, recv, args):
                short = node.func.attr if isinstance(node.func, ast.Attribute) else fname
                if isinstance(node.func, ast.Name) and node.func.id.endswith('Error'):
                    return AX.Abs('Exc', cls=node.func.id)
                if short == 'is_str6' and len(args) == 1:
                    return isinstance(args[0], str)
                if short == 'format' and isinstance(recv, (str, AX.Abs)):
                    return 'message'
                return AX.NOT_HANDLED

            def on_name(ex, node, name):
                if name == 'PY3':
                    return True
                if name in ('basestring', 'unicode'):
                    return ('builtin', 'str')
                if name == 'numeric_conversion_error':
                    return 'Unable to convert value "{}" to int or float'
                return AX.NOT_HANDLED
            ex = AX.Explorer(p, 'rbql_engine', on_call=on_call, on_name=on_name, max_choices=1)
            ex.cls = 'NumHandler'
            ex._script, ex._pos, ex.steps, ex.depth = [], 0, 0, 0
            ex.run = AX.Run()
            ex.call_fd(init[0], [selfv, start_int])
            got = []
            for v in seq:
                ex.steps, ex.depth = 0, 0
                try:
                    got.append(ex.call_fd(fd, [selfv, v]))
                except AX.Raised as r_:
                    got.append(ERR if isinstance(r_.value, AX.Abs) and r_.value.props.get('cls') == 'RbqlRuntimeError' else 'other error')
                    break
            same = len(got) == len(want) and all((a_ == b_ and type(a_) is type(b_)) for a_, b_ in zip(got, want))
            if not same:
                kind = 'exact' if big in seq and start_int and seq[0] == big else 'order'
                res.setdefault(kind, 'a column with the values {!r} (handler started as {}) is parsed as {!r} instead of {!r}'.format(seq, 'integer' if start_int else 'float', got, want))
    except (Undecided, AX.Cut, AX._NeedChoice, KeyError, IndexError, TypeError, AttributeError, ValueError) as e_:
        import os
        if os.environ.get('RBQL_VERIF_DEBUG'):
            print('NumHandler model gave up:', type(e_).__name__, str(e_)[:200])
        return None
    return res


def rule_ag_numparse(cx, rep, port='py'):
    """python NumHandler.parse: an integer string becomes an int by int(text) itself - never by way of a float (a double holds
    integers exactly only up to 2**53, so ids / nanosecond timestamps would be rounded and MIN/MAX/SUM/MEDIAN no longer exact) -
    and float(text) is tried only after int(text) was, or once the column is known not to be all-integer."""
    from .. import cfg as cfgmod
    from ..snippet import inline_single_defs
    p = cx.port('py')
    cls = p.cls('rbql_engine', 'NumHandler')
    ms = [m for m in cls.body if isinstance(m, ast.FunctionDef) and m.name == 'parse']
    if not ms or len(ms[0].args.args) < 2:
        raise Undecided('anchor vanished: NumHandler.parse(self, val)', cls)
    fd = ms[0]
    val = fd.args.args[1].arg
    nm = _numparse_model(cx, p, cls, fd)
    if nm is not None:
        rep.decide(nm.get('exact') is None, 'exact integers', fd, 'integer strings become exact ints, also above 2**53 (NumHandler evaluated on eight value sequences)', nm.get('exact') or '')
        rep.decide(nm.get('order') is None, 'int before float', fd, 'a column stays integer until its first non-integer value and is float from then on; non-numeric text raises the runtime error; non-text values pass unchanged', nm.get('order') or '')
        return
    convs = [c for c in walk_no_nested(fd) if isinstance(c, ast.Call) and isinstance(c.func, ast.Name) and c.func.id in ('int', 'float') and len(c.args) >= 1]
    ints = [c for c in convs if c.func.id == 'int']
    floats = [c for c in convs if c.func.id == 'float']

    def through_float(e):
        r = inline_single_defs(e, fd, depth=3, any_value=True)
        return any(isinstance(x, ast.Call) and isinstance(x.func, ast.Name) and x.func.id == 'float' for x in ast.walk(r)) or any(isinstance(x, ast.Call) and isinstance(x.func, ast.Attribute) and x.func.attr in ('is_integer', 'as_integer_ratio') for x in ast.walk(r))
    lossy = [c for c in ints if through_float(c.args[0])]
    if lossy:
        rep.violated('exact integers', lossy[0], '`{}` makes an int out of a value that went through float(): integer strings above 2**53 are rounded, so MIN/MAX/SUM/MEDIAN over them are not exact'.format(node_text(lossy[0], 60)))
        return
    direct = [c for c in ints if is_name(inline_single_defs(c.args[0], fd, depth=2), val)]
    if not direct:
        if floats:
            rep.violated('exact integers', floats[0], 'NumHandler.parse never applies int() to the text itself: every integer string is converted through float() and loses exactness above 2**53')
        else:
            rep.undecided('exact integers', fd, 'no int()/float() conversion of the value recognised in NumHandler.parse')
        return
    rep.holds('exact integers', direct[0], 'integer strings are converted with int(text) ({} site(s)), never through float()'.format(len(direct)))
    # float(text) only behind the int attempt or the `is_int` test
    g = cfgmod.CFG(fd)
    gate = lambda n: cfgmod.node_contains(n, lambda x: any(x is d for d in direct)) or (n.kind == 'test' and 'self.is_int' in {dotted(y) for y in ast.walk(n.ast)})   # noqa: E731
    for f in floats:
        fn = [n for n in g.nodes if cfgmod.node_contains(n, lambda x, f=f: x is f)]
        if not fn:
            continue
        if any(g.exists_path(g.entry, lambda x, n=n: x is n, avoid=gate) for n in fn):
            rep.violated('int before float', f, 'float(text) can be reached without int(text) having been tried and without the all-integer flag having been consulted: integer columns turn into floats')
            return
    rep.holds('int before float', fd, 'float(text) is reached only behind the int(text) attempt / the is_int flag ({} float site(s))'.format(len(floats)))
    # the handler starts with string detection pending and, for the aggregates whose result is an input value or an integer sum,
    # in integer mode (otherwise every integer column goes through float: 6.0 for 6, rounding above 2**53)
    init = [m for m in cls.body if isinstance(m, ast.FunctionDef) and m.name == '__init__']
    if init:
        consts = {dotted(n.targets[0]): n.value for n in walk_no_nested(init[0]) if isinstance(n, ast.Assign) and len(n.targets) == 1 and dotted(n.targets[0])}
        for attr in ('self.string_detection_done', 'self.is_str'):
            v = consts.get(attr)
            if v is None:
                continue
            rep.decide(isinstance(v, ast.Constant) and v.value is False, 'initial ' + attr, v, 'starts False', '`{}` starts as `{}`: the first value is then never examined, so numeric strings are never converted (MIN/MAX compare text, SUM fails)'.format(attr, node_text(v, 20)))
        ip = init[0].args.args[1].arg if len(init[0].args.args) > 1 else None
        v = consts.get('self.is_int')
        if ip and v is not None:
            rep.decide(is_name(v, ip), 'initial self.is_int', v, 'integer mode is what the aggregator asks for', 'integer mode is initialised with `{}` instead of the constructor argument'.format(node_text(v, 20)))
    n_exact = 0
    for cname in ('MinAggregator', 'MaxAggregator', 'SumAggregator', 'MedianAggregator'):
        c = p.cls('rbql_engine', cname, required=False)
        if c is None:
            continue
        ctors = [x for x in ast.walk(c) if isinstance(x, ast.Call) and dotted(x.func) == 'NumHandler' and x.args]
        for x in ctors:
            n_exact += 1
            a0 = x.args[0]
            if isinstance(a0, ast.Attribute) and is_name(a0.value, 'self'):
                # a class-level constant (own or of a base class introduced by a refactoring): the nearest definition wins
                chain, seen_ = [c], set()
                while chain:
                    k_ = chain.pop(0)
                    if k_ is None or id(k_) in seen_:
                        continue
                    seen_.add(id(k_))
                    defs_ = [st.value for st in k_.body if isinstance(st, ast.Assign) and len(st.targets) == 1 and is_name(st.targets[0], a0.attr)]
                    if defs_:
                        if len(defs_) == 1 and not any(isinstance(n_, (ast.Assign, ast.AugAssign)) and any(isinstance(t_, ast.Attribute) and t_.attr == a0.attr for t_ in (n_.targets if isinstance(n_, ast.Assign) else [n_.target])) for n_ in ast.walk(p.modules['rbql_engine'])):
                            a0 = defs_[0]
                        break
                    chain.extend(p.cls('rbql_engine', dotted(b_).split('.')[-1], required=False) for b_ in k_.bases if dotted(b_))
            if isinstance(a0, ast.Constant) and a0.value is False:
                rep.violated(cname + ' integer mode', x, '{} creates its NumHandler with start_with_int=False: integer columns are parsed as floats, so results are printed as 6.0 and lose exactness above 2**53'.format(cname))
            elif isinstance(a0, ast.Constant) and a0.value is True:
                rep.holds(cname + ' integer mode', x, 'integer strings stay ints')
            else:
                rep.undecided(cname + ' integer mode', x, 'start_with_int argument `{}` not constant'.format(node_text(a0, 30)))
    rep.require_count('exact aggregators with a NumHandler', n_exact, 4, cls)


def rule_ag_numparse_js(cx, rep, port='js'):
    """javascript parse_number: the value is converted with Number(val) and rejected exactly when that gives NaN.  A further gate in
    front of the conversion (a regex the text has to match) narrows the accepted numerals: exponent notation, a leading `+` or `.`,
    which Number() and python's float() both take."""
    from .. import pathsem
    from .. import regexlang as R
    from .pa import regexes_of
    p = cx.port('js')
    mod = cx.engine_mod('js')
    fd = p.func(mod, 'parse_number')
    if not fd.args.args:
        raise Undecided('anchor vanished: parse_number(val)', fd)
    val = fd.args.args[0].arg
    ps = pathsem.paths(fd)
    if ps is None:
        rep.undecided('conversion', fd, 'parse_number is not summarisable as paths')
        return

    def is_conv(e):
        return isinstance(e, ast.Call) and dotted(e.func) == 'Number' and len(e.args) == 1 and is_name(e.args[0], val)

    def is_nan_test(e):
        return isinstance(e, ast.Call) and dotted(e.func) in ('isNaN', 'Number.isNaN') and len(e.args) == 1 and is_conv(e.args[0])
    rets = [q for q in ps if q.kind == 'return']
    raises = [q for q in ps if q.kind == 'raise']
    feasible_rets = [q for q in rets if not (isinstance(q.value, ast.Name) and q.value.id == 'NaN')]
    if not feasible_rets or not raises:
        rep.undecided('conversion', fd, 'no converting / rejecting path found')
        return
    lossy = [q for q in feasible_rets if any(isinstance(x, ast.Call) and dotted(x.func) in ('parseInt', 'Math.floor', 'Math.round', 'Math.trunc') for x in ast.walk(q.value))]
    if lossy:
        rep.violated('conversion', lossy[0].node, 'parse_number returns `{}`: fractions are cut off before MIN/MAX/SUM/AVG see the value'.format(node_text(lossy[0].value, 60)))
    elif all(is_conv(q.value) for q in feasible_rets):
        rep.holds('conversion', fd, 'every value returned is Number(val)')
    else:
        rep.undecided('conversion', feasible_rets[0].node, 'returned value `{}` is not Number(val)'.format(node_text(feasible_rets[0].value, 60)))
    # grounds for rejection other than NaN
    pats = regexes_of(cx, 'js', fd, depth=0)
    extra = []
    for q in raises + feasible_rets:
        for a_, pol in pathsem.atoms(q.conds):
            if is_nan_test(a_) or val not in names_in(a_):
                continue
            if isinstance(a_, ast.Call) and dotted(a_.func) in ('isNaN', 'Number.isNaN'):
                continue
            extra.append((q, a_, pol))
    if not extra:
        rep.holds('rejection grounds', fd, 'a value is rejected exactly when Number(val) is NaN')
        return
    numerals = ['1e5', '+1', '.5', '1E-3', '5.', '-.5e2', '12']
    for pat, ic, node in pats:
        try:
            lang = R.Lang(pat, flavour='js')
            rejected = [w for w in numerals if not R.accepts(lang, w)]
        except R.Unsupported:
            continue
        if rejected and '12' not in rejected:
            rep.violated('rejection grounds', node, 'parse_number converts only text matching `{}`, which excludes {}: numerals that Number() and the python port accept are rejected (or the aggregate fails on them)'.format(pat, ', '.join(repr(w) for w in rejected)))
            return
    rep.undecided('rejection grounds', extra[0][0].node, 'values are also told apart by `{}`, which is not a recognised test'.format(node_text(extra[0][1], 60)))
