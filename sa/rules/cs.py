"""RX / CS rules: regex languages of the CSV dialect and the splitter/quoter structure (C10, C11, C18)."""
import ast

from .. import regexlang as R
from ..core import Undecided, node_text
from ..idioms import is_false, is_name, is_true
from ..model import NOCONST, call_name, const_value, dotted, is_none, names_in, walk_no_nested

QUOTED_FIELD_LANGUAGE = '"([^"]|"")*"'


def _is_minus_one(e):
    if isinstance(e, ast.Constant) and e.value == -1:
        return True
    return isinstance(e, ast.UnaryOp) and isinstance(e.op, ast.USub) and isinstance(e.operand, ast.Constant) and e.operand.value == 1


def _consts(cx, port):
    return cx.port(port).module_consts('csv_utils')


def _regex_value(e, consts):
    """pattern string of `re.compile(X)` / `RegExp(X)` / regex literal / constant expression"""
    if isinstance(e, ast.Call):
        d = dotted(e.func)
        if d in ('re.compile', 'RegExp') and e.args:
            v = const_value(e.args[0], consts)
            fl = ''
            if d == 'RegExp' and len(e.args) > 1:
                fl = const_value(e.args[1], consts)
            return (v, fl) if v is not NOCONST else None
        if d == '__regex__':
            return (e.args[0].value, e.args[1].value)
    v = const_value(e, consts)
    if isinstance(v, str):
        return (v, '')
    return None


def _module_regexes(cx, port):
    p = cx.port(port)
    consts = _consts(cx, port)
    out = {}
    for st in p.modules['csv_utils'].body:
        if isinstance(st, ast.Assign) and isinstance(st.targets[0], ast.Name):
            r = _regex_value(st.value, consts)
            if r is not None and isinstance(st.value, ast.Call):
                out[st.targets[0].id] = (r[0], r[1], st)
    return out


def _lang(pattern, port, flags=''):
    fl = 0
    import re
    if 'i' in (flags or ''):
        fl |= re.IGNORECASE
    try:
        return R.Lang(pattern, fl, flavour=port)
    except R.Unsupported as e:
        raise Undecided('regex `{}` is outside the supported regular core: {}'.format(pattern, e))


def rule_rx_field(cx, rep, port):
    regs = _module_regexes(cx, port)
    want = {'field_rgx': QUOTED_FIELD_LANGUAGE, 'field_rgx_external_whitespaces': ' *' + QUOTED_FIELD_LANGUAGE + ' *'}
    for name, ref in want.items():
        if name not in regs:
            rep.undecided(name, (cx.port(port).files['csv_utils'], 0), 'anchor vanished: regex constant {} not found'.format(name))
            continue
        pat, flags, node = regs[name]
        l1, l2 = _lang(pat, port, flags), _lang(ref, 'py')
        eq, w1, w2 = R.compare(l1, l2)
        if eq:
            rep.holds(name, node, 'L({}) = L({}) (decided by DFA product)'.format(pat, ref))
        else:
            rep.violated(name, node, 'the quoted-field regex `{}` does not denote the dialect\'s quoted-field language: {}'.format(pat, 'it accepts {!r}'.format(w1) if w1 is not None else 'it rejects {!r}'.format(w2)))
        # RX-GREEDY side conditions
        if R.has_lazy(l1.tree):
            rep.violated(name + ' greedy', node, 'the quoted-field regex uses a lazy quantifier: the match would stop at the first inner quote')
        else:
            rep.holds(name + ' greedy', node, 'no lazy quantifier')
        # group 1 must capture exactly the content between the enclosing quotes
        rep.decide(_group1_is_content(l1.tree), name + ' capture', node, 'group 1 is the text between the enclosing quotes', 'group 1 of the quoted-field regex is not the text between the enclosing quotes')
        # JS uses exec on a substring: the regex must be anchored at the beginning; python uses .match(src, pos)
        if port == 'js':
            rep.decide(pat.startswith('^'), name + ' anchored', node, 'anchored with ^ (applied with exec to the rest of the line)', 'JS field regex is applied with exec() but is not anchored at the start: a quoted field later in the line would be taken')


def _group1_is_content(tree):
    items = [(str(op), av) for op, av in tree]
    # drop leading anchors / spaces
    core = [(o, a) for o, a in items if not (o == 'AT') and not (o == 'MAX_REPEAT' and len(list(a[2])) == 1 and str(list(a[2])[0][0]) == 'LITERAL' and list(a[2])[0][1] == 32)]
    if len(core) != 3:
        return False
    return core[0] == ('LITERAL', 34) and core[2] == ('LITERAL', 34) and core[1][0] == 'SUBPATTERN' and core[1][1][0] == 1


def rule_rx_newline(cx, rep, port):
    p = cx.port(port)
    consts = _consts(cx, port)
    found = None
    if port == 'py':
        regs = _module_regexes(cx, port)
        if 'newline_rgx' in regs:
            found = regs['newline_rgx']
    else:
        fd = p.func('csv_utils', 'split_lines')
        for c in walk_no_nested(fd):
            if isinstance(c, ast.Call) and isinstance(c.func, ast.Attribute) and c.func.attr == 'split' and c.args:
                r = _regex_value(c.args[0], consts)
                if r:
                    found = (r[0], r[1], c)
    if port == 'js':
        fd = p.func('csv_utils', 'split_lines')
        for r in walk_no_nested(fd):
            if isinstance(r, ast.Return) and isinstance(r.value, ast.Call) and isinstance(r.value.func, ast.Attribute) and r.value.func.attr == 'split' and r.value.args and isinstance(r.value.args[0], ast.Constant):
                rep.violated('newline split path', r, 'on some path the text is split on the constant {!r} only: CR and CRLF line breaks are then not recognised, and whether that path is taken depends on where the chunk starts'.format(r.value.args[0].value))
                return
    if port == 'js':
        # split() always yields at least one piece, and the stream reader relies on it (`partial + lines[0]`): a path of
        # split_lines that returns something else changes what a chunk that decodes to '' (a split multi-byte character) means
        fd = p.func('csv_utils', 'split_lines')
        for r in walk_no_nested(fd):
            if isinstance(r, ast.Return) and r.value is not None and not (isinstance(r.value, ast.Call) and isinstance(r.value.func, ast.Attribute) and r.value.func.attr == 'split'):
                if isinstance(r.value, (ast.List, ast.Tuple)) and not r.value.elts:
                    rep.violated('newline split result', r, 'split_lines returns an empty array on a path: text.split() never does (empty text is one empty line), and the stream reader glues `lines[0]` (now undefined) to the pending partial line when a chunk decodes to the empty string')
                    return
                rep.undecided('newline split result', r, 'split_lines returns `{}`, not the result of split()'.format(node_text(r.value, 40)))
    if not found:
        raise Undecided('newline regex not found', (p.files['csv_utils'], 0))
    pat, flags, node = found
    lang = _lang(pat, port, flags)
    eq, w1, w2 = R.compare(lang, _lang('\r\n|\r|\n', 'py'))
    if not eq:
        rep.violated('newline language', node, 'line separators are {} (must be exactly CRLF, CR, LF): {}'.format(pat.encode('unicode_escape').decode(), 'accepts {!r}'.format(w1) if w1 is not None else 'rejects {!r}'.format(w2)))
    else:
        rep.holds('newline language', node, 'L = {CRLF, CR, LF}')
    # CRLF must be preferred over CR: in the alternation, no alternative is a proper prefix of a later one
    alts = _top_alternatives(lang.tree)
    if alts is None:
        # not a plain alternation of literals (e.g. `\r\n?|\n`): ask the trusted regex engine which match it prefers on a CRLF pair
        import re as _re
        try:
            m = _re.compile(R.js_to_py(pat) if port == 'js' else pat).match('\r\n')
            rep.decide(m is not None and m.end() == 2, 'newline preference', node, 'a CRLF pair is matched as one separator (preferred match of the pattern on CR LF has length 2)', 'on a CRLF pair the pattern prefers a match of length {}: the pair is read as two line breaks'.format(m.end() if m else 0))
        except _re.error as e:
            rep.undecided('newline preference', node, 'pattern not compilable by the reference engine: {}'.format(e))
    else:
        bad = [(a, b) for i, a in enumerate(alts) for b in alts[i + 1:] if b.startswith(a) and a != b]
        rep.decide(not bad, 'newline preference', node, 'CRLF is tried before CR', 'the alternative {!r} is tried before {!r}: a CRLF pair is read as two line breaks'.format(*(bad[0] if bad else ('', ''))))


def _top_alternatives(tree):
    items = list(tree)
    if len(items) == 1 and str(items[0][0]) == 'BRANCH':
        out = []
        for alt in items[0][1][1]:
            s = _literal_string(list(alt))
            if s is None:
                return None
            out.append(s)
        return out
    if len(items) == 1 and str(items[0][0]) == 'IN':
        return [chr(av) for op, av in items[0][1] if str(op) == 'LITERAL']
    return None


def _literal_string(items):
    out = ''
    for op, av in items:
        name = str(op)
        if name == 'LITERAL':
            out += chr(av)
        elif name == 'SUBPATTERN':
            s = _literal_string(list(av[-1]))
            if s is None:
                return None
            out += s
        elif name == 'IN' and len(av) == 1 and str(av[0][0]) == 'LITERAL':
            out += chr(av[0][1])
        else:
            return None
    return out


def rule_rx_ws(cx, rep, port):
    p = cx.port(port)
    fd = p.func('csv_utils', 'split_whitespace_separated_str')
    from .pa import regexes_of
    # the patterns the function applies, wherever they are written (inline, literal, compiled at module level)
    pats = [(pt, node) for pt, ic, node in regexes_of(cx, port, fd, depth=0)]
    plain = [c for c in walk_no_nested(fd) if isinstance(c, ast.Call) and isinstance(c.func, ast.Attribute) and c.func.attr == 'split' and (not c.args or (isinstance(c.args[0], ast.Constant) and c.args[0].value is None))]
    if plain:
        rep.violated('whitespace split `{}`'.format(node_text(plain[0])), plain[0], 'fields are produced by `{}`, which splits on every kind of whitespace (TAB, NBSP, ...) instead of runs of the space character only'.format(node_text(plain[0])))
        return
    # nor anywhere else in the CSV layer (a per-policy splitter table, a lambda, a fast path): zero sites expected
    def generic_split(c):
        return isinstance(c, ast.Call) and isinstance(c.func, ast.Attribute) and c.func.attr == 'split' and (not c.args or (isinstance(c.args[0], ast.Constant) and c.args[0].value is None)) and not c.keywords
    probe = ast.parse('fields = src.split()').body[0].value
    if not generic_split(probe):
        rep.undecided('generic whitespace split matcher', fd, 'the matcher for argument-less split() does not recognise its own positive example')
    for mod in ('csv_utils', 'rbql_csv'):
        if mod not in p.modules:
            continue
        hits = [c for c in ast.walk(p.modules[mod]) if generic_split(c)]
        if hits:
            rep.violated('generic whitespace split in ' + mod, hits[0], '`{}` splits on every kind of whitespace (TAB, NBSP, ...): the whitespace policy separates fields by runs of the space character only, and the writer and the other port do so'.format(node_text(hits[0])))
            return
        rep.holds('generic whitespace split in ' + mod, (p.files[mod], 0), 'no argument-less split() in the module (matcher checked on a positive example)')
    rep.require_count('whitespace regexes', len(pats), 2, fd)
    refs = {'[^ ]+': 'maximal runs of non-space characters', ' *[^ ]+ *': 'runs with their surrounding spaces'}
    for pat, node in pats:
        lang = _lang(pat, port)
        hit = [r for r in refs if R.equal(lang, _lang(r, 'py'))]
        if hit:
            rep.holds('whitespace regex `{}`'.format(pat), node, refs[hit[0]])
        else:
            rep.violated('whitespace regex `{}`'.format(pat), node, 'the whitespace splitter regex does not denote runs of non-space characters')


def _find_tests(fd, recv_names):
    """`x.find(C) != -1` / `x.indexOf(C) != -1` tests in fd: list of (constant-or-name, positive)"""
    out = []
    for n in walk_no_nested(fd):
        if isinstance(n, ast.Compare) and len(n.ops) == 1 and isinstance(n.left, ast.Call) and isinstance(n.left.func, ast.Attribute) and n.left.func.attr in ('find', 'indexOf') and _is_minus_one(n.comparators[0]):
            arg = n.left.args[0] if n.left.args else None
            val = arg.value if isinstance(arg, ast.Constant) else ('<' + (dotted(arg) or '?') + '>')
            pos = isinstance(n.ops[0], ast.NotEq)
            out.append((val, pos, n))
    return out


def _pattern_with_delim(e, dl_):
    """a regex written as constant text around re.escape(<delimiter>): the text with \x00 where the delimiter goes; None if not of that form"""
    if isinstance(e, ast.Constant) and isinstance(e.value, str):
        return e.value
    if isinstance(e, ast.BinOp) and isinstance(e.op, ast.Add):
        l_, r_ = _pattern_with_delim(e.left, dl_), _pattern_with_delim(e.right, dl_)
        return None if l_ is None or r_ is None else l_ + r_
    if isinstance(e, ast.Call) and dotted(e.func) in ('re.escape', 'escape_regex', 'escapeRegExp', 'escape_for_regex') and len(e.args) == 1 and is_name(e.args[0], dl_):
        return '\x00'
    if isinstance(e, ast.Call) and dotted(e.func) == '__regex__' and e.args and isinstance(e.args[0], ast.Constant):
        return e.args[0].value
    if isinstance(e, ast.Call) and dotted(e.func) in ('re.compile', 'RegExp') and e.args:
        return _pattern_with_delim(e.args[0], dl_)
    if isinstance(e, ast.JoinedStr):
        parts = [(_pattern_with_delim(x.value, dl_) if isinstance(x, ast.FormattedValue) else x.value) for x in e.values]
        return None if any(x is None for x in parts) else ''.join(parts)
    if isinstance(e, ast.Call) and isinstance(e.func, ast.Attribute) and e.func.attr == 'format' and isinstance(e.func.value, ast.Constant) and isinstance(e.func.value.value, str) and e.func.value.value.count('{}') == 1 and len(e.args) == 1:
        inner = _pattern_with_delim(e.args[0], dl_)
        return None if inner is None else e.func.value.value.replace('{}', inner)
    return None


def _class_members(pat):
    """members of a pattern that is one bracket class `[...]`: set of characters, with '<delim-char>' for the embedded delimiter; None otherwise"""
    if not (len(pat) >= 3 and pat[0] == '[' and pat[-1] == ']' and pat[1] != '^'):
        return None
    body, out, i = pat[1:-1], set(), 0
    esc = {'n': '\n', 'r': '\r', 't': '\t'}
    while i < len(body):
        c = body[i]
        if c == '\\' and i + 1 < len(body):
            nxt = body[i + 1]
            if nxt in esc:
                out.add(esc[nxt])
            elif nxt.isalnum():
                return None
            else:
                out.add(nxt)
            i += 2
            continue
        if c in '[]' or (c == '-' and 0 < i < len(body) - 1):
            return None
        out.add('<delim-char>' if c == '\x00' else c)
        i += 1
    return out


def _absent_chars(atom, pol, params):
    """the special characters a branch decision shows to be absent from the field (set), or None when the decision is not a
    recognised test of the field's characters"""
    from ..idioms import membership
    src_, dl_ = params[0], params[1]

    def ch(e):
        if is_name(e, dl_):
            return '<delim>'
        v = const_value(e)
        return v if isinstance(v, str) and len(v) >= 1 else None
    if isinstance(atom, ast.Compare) and len(atom.ops) == 1:
        l_, r_, op = atom.left, atom.comparators[0], atom.ops[0]
        if isinstance(l_, ast.Call) and isinstance(l_.func, ast.Attribute) and l_.func.attr in ('find', 'indexOf') and is_name(l_.func.value, src_) and len(l_.args) == 1 and ch(l_.args[0]):
            present = None
            if _is_minus_one(r_):
                present = {ast.NotEq: True, ast.Eq: False, ast.Gt: True, ast.Is: False, ast.IsNot: True}.get(type(op))
            elif isinstance(r_, ast.Constant) and r_.value == 0 and r_.value is not False:
                present = {ast.GtE: True, ast.Lt: False}.get(type(op))
            if present is not None and present != pol:
                return {ch(l_.args[0])}
        if isinstance(op, (ast.In, ast.NotIn)) and is_name(r_, src_) and ch(l_):
            present = isinstance(op, ast.In)
            if present != pol:
                return {ch(l_)}
    if isinstance(atom, ast.Call) and isinstance(atom.func, ast.Attribute) and atom.func.attr == 'includes' and is_name(atom.func.value, src_) and len(atom.args) == 1 and ch(atom.args[0]) and not pol:
        return {ch(atom.args[0])}
    # [c1, c2, ...].some(c => field.includes(c)) / any(c in field for c in [...]) found false: every listed character is absent
    if not pol and isinstance(atom, ast.Call):
        box = var = body = None
        if isinstance(atom.func, ast.Attribute) and atom.func.attr == 'some' and len(atom.args) == 1 and isinstance(atom.args[0], ast.Lambda) and len(atom.args[0].args.args) == 1:
            box, var, body = atom.func.value, atom.args[0].args.args[0].arg, atom.args[0].body
        elif dotted(atom.func) == 'any' and len(atom.args) == 1 and isinstance(atom.args[0], (ast.GeneratorExp, ast.ListComp)) and len(atom.args[0].generators) == 1 and not atom.args[0].generators[0].ifs and isinstance(atom.args[0].generators[0].target, ast.Name):
            g_ = atom.args[0].generators[0]
            box, var, body = g_.iter, g_.target.id, atom.args[0].elt
        if box is not None and isinstance(box, (ast.List, ast.Tuple, ast.Set)):
            m_ = membership(body)
            if m_ is not None and is_name(m_[0], var) and is_name(m_[1], src_) and m_[2]:
                out = set()
                for e in box.elts:
                    if ch(e) is None:
                        return None
                    out.add(ch(e))
                return out
    # a bracket class searched in the field and not found: re.search('[...]', field) is None / not re.search(..) / !/[...]/.test(field)
    call, found = None, None
    if isinstance(atom, ast.Compare) and len(atom.ops) == 1 and isinstance(atom.left, ast.Call) and isinstance(atom.comparators[0], ast.Constant) and atom.comparators[0].value is None and isinstance(atom.ops[0], (ast.Is, ast.Eq)):
        call, found = atom.left, not pol
    elif isinstance(atom, ast.Call):
        call, found = atom, pol
    if call is not None and found is False:
        pat = subject = None
        d_ = dotted(call.func) or ''
        if d_ in ('re.search', 're.findall') and len(call.args) == 2:
            pat, subject = _pattern_with_delim(call.args[0], dl_), call.args[1]
        elif isinstance(call.func, ast.Attribute) and call.func.attr in ('test', 'search', 'exec') and len(call.args) == 1:
            pat, subject = _pattern_with_delim(call.func.value, dl_), call.args[0]
        if pat is not None and is_name(subject, src_):
            members = _class_members(pat)
            if members is not None:
                if '<delim-char>' in members:
                    members.add('<delim>')      # no character of the delimiter occurs, so neither does the delimiter
                return members
    return None


def _trigger_paths(p, fname):
    """for the paths of a quoting function that return the field bare: (path, characters shown absent, unrecognised decisions)"""
    from .. import pathsem
    fd = p.func('csv_utils', fname)
    params = [a.arg for a in fd.args.args]
    ps = pathsem.paths(fd)
    if ps is None:
        return fd, params, None, None
    out = []
    for q in ps:
        if q.kind != 'return' or q.value is None or not is_name(q.value, params[0]):
            continue
        absent, unknown = set(), []
        q.class_predicates = 0
        for a_, pol in pathsem.atoms(q.conds):
            got = _absent_chars(a_, pol, params)
            if got is not None:
                absent |= got
                continue
            # character-class predicates of the field: true -> no quote, no line break in it (says nothing about the delimiter)
            if pol and isinstance(a_, ast.Call) and isinstance(a_.func, ast.Attribute) and a_.func.attr in ('isalnum', 'isalpha', 'isdigit', 'isdecimal', 'isnumeric', 'isidentifier') and is_name(a_.func.value, params[0]) and not a_.args:
                absent |= {'"', '\n', '\r'}
                q.class_predicates += 1
                continue
            # a test that found a special character, or the emptiness of the field, does not widen what may be returned bare
            unknown.append((a_, pol))
        out.append((q, absent, unknown))
    return fd, params, ps, out


def rule_xp_trigger(cx, rep, port=None):
    """both ports leave a field bare under the same condition: the sets of characters whose absence is required agree (a port that
    also quotes on a single character of a multi-character delimiter writes a different file)"""
    for fname in ('quote_field', 'rfc_quote_field'):
        sigs = {}
        und = None
        for port_ in ('py', 'js'):
            fd, params, ps, plain = _trigger_paths(cx.port(port_), fname)
            if ps is None or not plain:
                und = '{} ({}) not summarisable'.format(fname, port_)
                break
            # fast paths guarded by something else than character tests (isalnum(), a length, ...) do not define the condition: CS-TRIGGER
            # checks that they exclude every special character; the comparison is made on the paths made of character tests only
            pure = [absent for q, absent, unknown in plain if not q.class_predicates and not any(params[0] in names_in(u_) and _absent_chars(u_, not pol_, params) is None for u_, pol_ in unknown)]
            if not pure:
                und = '{} ({}): no path decided by character tests only'.format(fname, port_)
                break
            minimal = [x for x in pure if not any(y < x for y in pure)]
            sigs[port_] = (frozenset(frozenset(x) for x in minimal), fd)
        if und:
            rep.undecided(fname + ' trigger agreement', cx.port('py').func('csv_utils', fname), und)
            continue
        (s_py, f_py), (s_js, f_js) = sigs['py'], sigs['js']
        show = lambda s_: ' | '.join(sorted('{' + ', '.join(sorted(repr(c) for c in x)) + '}' for x in s_))  # noqa: E731
        rep.decide(s_py == s_js, fname + ' trigger agreement', f_py, 'both ports return the field bare exactly when {} are absent'.format(show(s_py)),
                   'the ports quote under different conditions: python leaves a field bare when {} are absent, javascript when {} are absent{}'.format(show(s_py), show(s_js), ' (one port tests the characters of the delimiter one by one: a field holding part of a multi-character delimiter is quoted by one port only)' if any('<delim-char>' in x for x in (s_py | s_js)) else ''))


def rule_cs_trigger(cx, rep, port):
    """characters whose presence makes the writer quote a field >= characters the reader treats specially"""
    p = cx.port(port)
    for fname, need in (('quote_field', {'"', '<delim>'}), ('rfc_quote_field', {'"', '<delim>', '\n', '\r'})):
        # every path that hands the field back unquoted has established the absence of each special character (path summaries:
        # fast paths, merged conditions, `in` tests, helper predicates, bracket classes are all the same thing)
        from .. import pathsem
        fd, params, ps, plain = _trigger_paths(p, fname)
        if ps is None:
            rep.undecided(fname + ' triggers', fd, '{} is not summarisable as paths'.format(fname))
        else:
            n_plain = 0
            bad = None
            for q, absent, unknown in plain:
                n_plain += 1
                missing = need - absent
                if missing and unknown and any(params[0] in names_in(u_) for u_, _p in unknown if not (isinstance(u_, ast.Compare) and isinstance(u_.left, ast.Call) and isinstance(u_.left.func, ast.Attribute) and u_.left.func.attr in ('find', 'indexOf'))):
                    rep.undecided(fname + ' triggers', q.node, 'a path returns the field unquoted under `{}`, which is not a recognised test of the field\'s characters'.format(' / '.join(node_text(u_, 40) for u_, _p in unknown)))
                    n_plain = -1
                    break
                if missing:
                    why = [node_text(t_, 40) for t_, pol in q.conds if _absent_chars(t_, pol, params) is None]
                    bad = (q, missing, why)
                    break
            if bad is not None:
                rep.violated(fname + ' triggers', bad[0].node, 'a path returns the field unquoted without having excluded {}{}: a field containing it is written bare but the reader treats that character specially, so the table does not read back identically'.format(sorted(repr(m) for m in bad[1]), ' (taken when `{}`)'.format('` / `'.join(bad[2])) if bad[2] else ''))
            elif n_plain == -1:
                pass
            elif not n_plain:
                rep.undecided(fname + ' triggers', fd, 'no path returns the field itself')
            else:
                rep.holds(fname + ' triggers', fd, 'the field is returned unquoted only after {} were all found absent ({} path(s))'.format(sorted(need), n_plain))
        # doubling of inner quotes + enclosing quotes
        reps = [c for c in walk_no_nested(fd) if isinstance(c, ast.Call) and isinstance(c.func, ast.Attribute) and c.func.attr == 'replace' and len(c.args) == 2]
        ok_rep = False
        for c in reps:
            a0, a1 = c.args
            if isinstance(a1, ast.Constant) and a1.value == '""':
                if isinstance(a0, ast.Constant) and a0.value == '"' and port == 'py':
                    ok_rep = True
                if isinstance(a0, ast.Call) and dotted(a0.func) == '__regex__' and a0.args[0].value == '"' and 'g' in a0.args[1].value:
                    ok_rep = True
        rep.decide(ok_rep, fname + ' doubling', reps[0] if reps else fd, 'every inner quote is doubled', 'inner double quotes are not all doubled (`{}`)'.format(node_text(reps[0]) if reps else 'no replace'))
        # enclosing quotes on every quoted return
        class _R(object):
            def __init__(self, value):
                self.value = value
        rets = [_R(q.value) for q in ps if q.kind == 'return'] if ps is not None else [r for r in walk_no_nested(fd) if isinstance(r, ast.Return)]
        quoted = [r for r in rets if _is_enclosed(r.value)]
        plain = [r for r in rets if is_name(r.value, params[0])]
        rep.decide(len(quoted) >= 1 and len(quoted) + len(plain) == len(rets), fname + ' enclosing', fd, '{} quoted return(s) enclose the field in double quotes, {} return the field unchanged'.format(len(quoted), len(plain)), 'a return of {} is neither the field itself nor the field enclosed in double quotes'.format(fname))


def _is_enclosed(e):
    if isinstance(e, ast.Call) and isinstance(e.func, ast.Attribute) and e.func.attr == 'format' and isinstance(e.func.value, ast.Constant) and e.func.value.value == '"{}"':
        return True
    if isinstance(e, ast.JoinedStr):
        vals = e.values
        return len(vals) == 3 and isinstance(vals[0], ast.Constant) and vals[0].value == '"' and isinstance(vals[2], ast.Constant) and vals[2].value == '"'
    if isinstance(e, ast.BinOp) and isinstance(e.op, ast.Add):
        parts = []
        def flat(x):
            if isinstance(x, ast.BinOp) and isinstance(x.op, ast.Add):
                flat(x.left); flat(x.right)
            else:
                parts.append(x)
        flat(e)
        return len(parts) == 3 and isinstance(parts[0], ast.Constant) and parts[0].value == '"' and isinstance(parts[2], ast.Constant) and parts[2].value == '"'
    return False


def rule_cs_accept(cx, rep, port):
    """a regex match is a quoted field iff it ends the line or is followed by the delimiter; otherwise the field runs to the next
    delimiter and the warning is set; an unquoted field warns iff it contains a quote.  Decided on the path summaries of
    extract_next_field (helpers it was split into are inlined): for every path, which text becomes the field, which position
    and which warning are reported, under which conditions - whatever the layout and the shape of the returned tuple."""
    from .. import pathsem
    p = cx.port(port)
    fd = p.func('csv_utils', 'extract_next_field')
    params = [a.arg for a in fd.args.args]
    src, dlm = params[0], params[1]
    cidx = params[4] if len(params) > 4 else None
    ps = pathsem.paths(fd)
    if ps is None:
        rep.undecided('accept test', fd, 'extract_next_field is not summarisable as paths')
        return

    def is_match_value(e):
        """value of the regex match applied to the line"""
        return isinstance(e, ast.Call) and isinstance(e.func, ast.Attribute) and e.func.attr in ('match', 'exec', 'search')

    def from_match(e):
        """does e read a group of the regex match? -> group number"""
        for x in ast.walk(e):
            if isinstance(x, ast.Call) and isinstance(x.func, ast.Attribute) and x.func.attr == 'group' and is_match_value(x.func.value):
                return const_value(x.args[0]) if x.args else 0
            if isinstance(x, ast.Subscript) and is_match_value(x.value) and isinstance(const_value(x.slice), int):
                return const_value(x.slice)
        return None

    def is_plain_slice(e):
        if isinstance(e, ast.Subscript) and is_name(e.value, src) and isinstance(e.slice, ast.Slice):
            return True
        return isinstance(e, ast.Call) and isinstance(e.func, ast.Attribute) and e.func.attr in ('substring', 'slice') and is_name(e.func.value, src) and len(e.args) == 2

    def match_present(atom):
        """+1 / -1 when atom says the match exists / does not exist"""
        if isinstance(atom, ast.Compare) and len(atom.ops) == 1 and is_match_value(atom.left) and is_none(atom.comparators[0]):
            return -1 if isinstance(atom.ops[0], (ast.Is, ast.Eq)) else 1
        return 0

    def accept_test(atom):
        """the disjunction `match ends the line or the delimiter follows`"""
        if isinstance(atom, ast.BoolOp) and isinstance(atom.op, ast.Or) and len(atom.values) == 2:
            a, b_ = atom.values
            ends = isinstance(a, ast.Compare) and len(a.ops) == 1 and isinstance(a.ops[0], ast.Eq) and any(isinstance(x, ast.Call) and dotted(x.func) == 'len' and x.args and is_name(x.args[0], src) for x in (a.left, a.comparators[0]))
            if ends and _delim_follow_test(b_, src, dlm) is not None:
                return True
        return False
    # what a field is depends on the line, the delimiter, the mode flags and the position only - not on what earlier fields of the
    # record were like: a parameter beyond those, tested on some path and fed by the caller from state it carries from field to field
    known_roles = 6
    extra = params[known_roles:] if len(params) > known_roles else []
    tested = {x for q in ps for t_, _ in q.conds for x in names_in(t_) if x in extra}
    if tested:
        caller = p.func('csv_utils', 'split_quoted_str')
        calls_ = [c for c in ast.walk(caller) if isinstance(c, ast.Call) and call_name(c) == 'extract_next_field']
        carried = None
        for c in calls_:
            for prm in sorted(tested):
                i_ = params.index(prm)
                arg = c.args[i_] if i_ < len(c.args) else next((k.value for k in c.keywords if k.arg == prm), None)
                if arg is None:
                    continue
                loop = getattr(c, 'parent', None)
                while loop is not None and not isinstance(loop, (ast.While, ast.For)):
                    loop = getattr(loop, 'parent', None)
                if loop is not None and any(isinstance(n_, (ast.Assign, ast.AugAssign)) and any(x.id in names_in(arg) for t_ in (n_.targets if isinstance(n_, ast.Assign) else [n_.target]) for x in ast.walk(t_) if isinstance(x, ast.Name)) for n_ in ast.walk(loop)):
                    carried = (prm, arg, c)
        if carried:
            rep.violated('field independence', carried[2], 'extract_next_field decides differently depending on `{}`, which split_quoted_str feeds with `{}` - a value it updates from field to field: whether a field is taken as quoted then depends on the fields in front of it (a properly quoted field after a defective one is split at its inner delimiters)'.format(carried[0], node_text(carried[1], 40)))
        else:
            rep.undecided('field independence', fd, 'extract_next_field tests the additional parameter(s) {}'.format(sorted(tested)))
        return
    n_acc = n_rej = n_plain = 0
    unesc_ok = preserve_ok = False
    for q in ps:
        if q.kind != 'return' or q.value is None:
            continue
        elts = list(q.value.elts) if isinstance(q.value, (ast.Tuple, ast.List)) else (list(q.value.values) if isinstance(q.value, ast.Dict) else [q.value])
        # the field: appended to the result list, or returned as a component
        fields = [c.args[0] for c in q.calls if isinstance(c, ast.Call) and isinstance(c.func, ast.Attribute) and c.func.attr in ('append', 'push') and c.args]
        is_pos = lambda e: any(isinstance(x, ast.Call) and dotted(x.func) == 'len' and x.args and is_name(x.args[0], dlm) for x in ast.walk(e))  # noqa: E731
        is_bool = lambda e: isinstance(e, (ast.Compare, ast.BoolOp)) or (isinstance(e, ast.UnaryOp) and isinstance(e.op, ast.Not)) or (isinstance(e, ast.Constant) and isinstance(e.value, bool))  # noqa: E731
        fields += [e for e in elts if not is_pos(e) and not is_bool(e) and (from_match(e) is not None or is_plain_slice(e))]
        rest = [e for e in elts if is_pos(e) or is_bool(e) or not (from_match(e) is not None or is_plain_slice(e))]
        if len(fields) != 1 or len(rest) != 2:
            rep.undecided('accept test', q.node, 'a path of extract_next_field yields {} field(s) and {} other component(s)'.format(len(fields), len(rest)))
            return
        field = fields[0]
        pos = [e for e in rest if any(isinstance(x, ast.Call) and dotted(x.func) == 'len' and x.args and is_name(x.args[0], dlm) for x in ast.walk(e))]
        warn = [e for e in rest if e not in pos]
        if len(pos) != 1 or len(warn) != 1:
            continue      # position arithmetic is CS-WIDTH's subject
        warn = warn[0]
        ats = pathsem.atoms(q.conds)
        has_match = None
        for atom, pol in ats:
            mp = match_present(atom)
            if mp:
                has_match = (mp == 1) == pol
        accepted = any(pol and accept_test(atom) for atom, pol in ats) or any(pol and accept_test(t_) for t_, pol in q.conds)
        # a failed disjunction is flattened by atoms(): look at the branch decisions themselves
        rejected = any((not pol) and accept_test(t_) for t_, pol in q.conds)

        def warn_value(e):
            """True / False / 'quote' (= field contains a double quote) / None"""
            if isinstance(e, ast.Constant) and isinstance(e.value, bool):
                return e.value
            if isinstance(e, ast.BoolOp) and isinstance(e.op, ast.Or):
                vals = [warn_value(v) for v in e.values]
                if True in vals:
                    return True
                vals = [v for v in vals if v is not False]
                return vals[0] if len(vals) == 1 else (False if not vals else None)
            ct = pathsem._const_truth(e)
            if ct is not None:
                return ct
            mp = match_present(e)
            if mp:
                return (mp == 1) == bool(has_match) if has_match is not None else None
            of_field = lambda x: ast.dump(x) == ast.dump(field)   # noqa: E731  (the test must look at the field, not at the line)
            if isinstance(e, ast.Compare) and len(e.ops) == 1 and isinstance(e.left, ast.Call) and isinstance(e.left.func, ast.Attribute) and e.left.func.attr in ('find', 'indexOf') and len(e.left.args) == 1 and const_value(e.left.args[0]) == '"' and of_field(e.left.func.value):
                c0 = e.comparators[0]
                if (isinstance(e.ops[0], (ast.NotEq, ast.Gt)) and _is_minus_one(c0)) or (isinstance(e.ops[0], ast.GtE) and isinstance(c0, ast.Constant) and c0.value == 0 and c0.value is not False):
                    return 'quote'
            if isinstance(e, ast.Compare) and len(e.ops) == 1 and isinstance(e.ops[0], ast.In) and const_value(e.left) == '"' and of_field(e.comparators[0]):
                return 'quote'     # '"' in field
            if isinstance(e, ast.Call) and isinstance(e.func, ast.Attribute) and e.func.attr == 'includes' and len(e.args) == 1 and const_value(e.args[0]) == '"' and of_field(e.func.value):
                return 'quote'
            return None
        wv = warn_value(warn)
        grp = from_match(field)
        if grp is not None:
            n_acc += 1
            if not (has_match and accepted):
                rep.violated('accept test', q.node, 'the text matched by the quoted-field regex becomes the field on a path that has not established "the match ends the line or the delimiter follows": `"a"b,c` would be read as the field `a`')
                return
            if wv is not False:
                rep.violated('accepted arm', q.node, 'an accepted quoted field does not return "no warning" (`{}`)'.format(node_text(warn, 60)))
                return
            if grp == 1:
                un = [c for c in ast.walk(field) if isinstance(c, ast.Call) and isinstance(c.func, ast.Attribute) and c.func.attr == 'replace' and len(c.args) == 2 and const_value(c.args[1]) == '"']
                for c in un:
                    a0 = c.args[0]
                    if (isinstance(a0, ast.Constant) and a0.value == '""' and port == 'py') or (isinstance(a0, ast.Call) and dotted(a0.func) == '__regex__' and a0.args[0].value == '""' and 'g' in a0.args[1].value):
                        unesc_ok = True
            if grp == 0:
                preserve_ok = True
        else:
            # the unquoted field runs from the field start to the next delimiter *searched from the field start*: a search that
            # starts later (e.g. behind a rejected quoted-looking prefix) skips delimiters inside that prefix
            searches = [c for e_ in [field] + [t_ for t_, _ in q.conds] + list(q.env.values()) for c in ast.walk(e_) if isinstance(c, ast.Call) and isinstance(c.func, ast.Attribute) and c.func.attr in ('find', 'indexOf') and is_name(c.func.value, src) and c.args and is_name(c.args[0], dlm)]
            late = [c for c in searches if cidx is not None and not (len(c.args) == 2 and is_name(c.args[1], cidx))]
            if late:
                rep.violated('next delimiter', q.node, 'the next delimiter is searched from `{}` instead of the start of the field: a delimiter inside a rejected quoted-looking prefix is skipped and two fields are glued together'.format(node_text(late[0].args[1], 40) if len(late[0].args) > 1 else 'the beginning of the line'))
                return
            if has_match and rejected:
                n_rej += 1
                if wv is not True:
                    rep.violated('rejected match warns', q.node, 'a quoted-looking field that is not followed by the delimiter does not set the warning flag (`{}`)'.format(node_text(warn, 60)))
                    return
            elif has_match is False:
                n_plain += 1
                if wv != 'quote':
                    rep.violated('unquoted warns on quote', q.node, 'a field taken as unquoted does not warn exactly when it contains a double quote (`{}`)'.format(node_text(warn, 60)))
                    return
    if not (n_acc and n_rej and n_plain):
        rep.undecided('accept test', fd, 'paths found: {} accepted, {} rejected match, {} unquoted - expected all three kinds'.format(n_acc, n_rej, n_plain))
        return
    rep.holds('accept test', fd, 'the matched text is the field only where the match ends the line or the delimiter follows ({} path(s))'.format(n_acc))
    rep.holds('accepted arm', fd, 'accepted quoted field: no warning')
    rep.holds('rejected match warns', fd, 'a quote-looking field not followed by a delimiter sets the warning ({} path(s))'.format(n_rej))
    rep.holds('unquoted warns on quote', fd, 'an unquoted field warns iff it contains a double quote ({} path(s))'.format(n_plain))
    rep.decide(unesc_ok, 'unescape', fd, 'doubled quotes inside a quoted field are collapsed', 'doubled quotes inside an accepted quoted field are not all collapsed to one')
    rep.decide(preserve_ok, 'preserving mode', fd, 'the preserving mode keeps the whole match', 'the preserving mode does not keep the whole matched text')
    finds = [c for c in ast.walk(fd) if isinstance(c, ast.Call) and isinstance(c.func, ast.Attribute) and c.func.attr in ('find', 'indexOf') and is_name(c.func.value, src) and c.args and is_name(c.args[0], dlm)]
    if len(finds) != 1:
        rep.undecided('next delimiter', fd, '{} searches for the next delimiter found in the field extractor (expected one)'.format(len(finds)))
    else:
        rep.decide(len(finds[0].args) == 2, 'next delimiter', finds[0], 'unquoted field extends to the next delimiter from the current position', 'the search for the next delimiter does not start at the current position')


def _delim_follow_test(e, src, dlm):
    """recognises src[pos] == dlm (single char)  -> 'char';  src.startswith(dlm, pos) / src.substr(pos, len(dlm)) == dlm -> 'width'"""
    if isinstance(e, ast.Compare) and len(e.ops) == 1 and isinstance(e.ops[0], ast.Eq) and is_name(e.comparators[0], dlm):
        l = e.left
        if isinstance(l, ast.Subscript) and is_name(l.value, src) and not isinstance(l.slice, ast.Slice):
            return 'char'
        if isinstance(l, ast.Call) and isinstance(l.func, ast.Attribute) and l.func.attr == 'charAt':
            return 'char'
        if isinstance(l, ast.Subscript) and isinstance(l.slice, ast.Slice):
            # a slice is delimiter-wide only if one of its bounds is computed from len(dlm)
            txt = node_text(l.slice, 120)
            return 'width' if 'len({})'.format(dlm) in txt else 'char'
        if isinstance(l, ast.Call) and isinstance(l.func, ast.Attribute) and l.func.attr in ('substr', 'substring', 'slice') and dlm in names_in(l):
            return 'width'
    if isinstance(e, ast.Call) and isinstance(e.func, ast.Attribute) and e.func.attr in ('startswith', 'startsWith', 'endswith', 'endsWith') and e.args and is_name(e.args[0], dlm):
        return 'width'
    return None


def rule_cs_width(cx, rep, port):
    """positions advance by the delimiter's length and delimiter tests compare a delimiter-length slice
    (the CLI documents multi-character delimiters)"""
    p = cx.port(port)
    n = 0
    for fname in ('extract_next_field', 'split_quoted_str'):
        fd = p.func('csv_utils', fname)
        params = [a.arg for a in fd.args.args]
        src, dlm = params[0], params[1]
        # delimiter comparisons
        for e in walk_no_nested(fd):
            kind = _delim_follow_test(e, src, dlm) if isinstance(e, (ast.Compare, ast.Call)) else None
            if kind is None:
                continue
            n += 1
            key = '{}: `{}`'.format(fname, node_text(e))
            if kind == 'char':
                rep.violated(key, e, 'a single character of the line is compared with the whole delimiter: with a multi-character delimiter the test is never true, so quoted fields are never accepted / the trailing empty field is lost')
            else:
                rep.holds(key, e, 'delimiter-length comparison')
        # position arithmetic: returns of (X + k, ...) where X is a position inside src
        if fname == 'extract_next_field':
            from .. import pathsem
            rps = pathsem.paths(fd) or []
            seen_ret = set()
            for q in rps:
                r = q.node
                comps = list(q.value.elts) if isinstance(q.value, (ast.Tuple, ast.List)) else (list(q.value.values) if isinstance(q.value, ast.Dict) else [])
                if q.kind == 'return' and comps and id(r) not in seen_ret:
                    seen_ret.add(id(r))
                    # the position component: the one computed from a position in the line (locals substituted along the path)
                    cands = [e_ for e_ in comps if isinstance(e_, ast.BinOp) and isinstance(e_.op, ast.Add)]
                    if not cands:
                        continue
                    pos = cands[0]
                    n += 1
                    key = '{}: `{}`'.format(fname, node_text(r))
                    step = _step_of(pos, dlm)
                    if step == 'one':
                        rep.violated(key, r, 'the next field starts one character after the delimiter position: with a multi-character delimiter the rest of the delimiter becomes part of the next field')
                    elif step == 'width':
                        rep.holds(key, r, 'advances by the delimiter length')
                    else:
                        rep.undecided(key, r, 'position arithmetic not recognised')
        # the line is cut left to right: every search for the delimiter finds its leftmost occurrence from the current position
        for x in walk_no_nested(fd):
            if isinstance(x, ast.Call) and isinstance(x.func, ast.Attribute) and x.func.attr in ('rfind', 'rindex', 'lastIndexOf') and is_name(x.func.value, src) and x.args and is_name(x.args[0], dlm):
                n += 1
                rep.violated('{}: `{}`'.format(fname, node_text(x, 60)), x, 'the delimiter is searched from the right: for a delimiter that overlaps itself (`::` in `a:::b`, two blanks in a run of blanks) the rightmost occurrence is not where the left-to-right scan cuts, so the same line splits differently (and differently from the other port)')
        # any other arithmetic on a position at which the delimiter was found
        dpos = set()
        for a in walk_no_nested(fd):
            if isinstance(a, ast.Assign) and isinstance(a.targets[0], ast.Name) and isinstance(a.value, ast.Call) and isinstance(a.value.func, ast.Attribute) and a.value.func.attr in ('find', 'rfind', 'index', 'rindex', 'indexOf', 'lastIndexOf') and a.value.args and is_name(a.value.args[0], dlm):
                dpos.add(a.targets[0].id)
        for e in walk_no_nested(fd):
            if isinstance(e, ast.BinOp) and isinstance(e.op, ast.Add) and isinstance(getattr(e, 'parent', None), (ast.Assign, ast.AugAssign, ast.Call, ast.Subscript, ast.Slice)):
                if any(isinstance(x, ast.Name) and x.id in dpos for x in (e.left, e.right)) and any(isinstance(x, ast.Constant) and x.value == 1 for x in (e.left, e.right)):
                    n += 1
                    rep.violated('{}: `{}`'.format(fname, node_text(e)), e, 'a position at which the delimiter was found is advanced by one character instead of the delimiter length: with a multi-character delimiter the rest of the delimiter becomes part of the next field')
    rep.require_count('delimiter-width sites', n, 4, (p.files['csv_utils'], 0))


def _step_of(pos, dlm):
    if isinstance(pos, ast.BinOp) and isinstance(pos.op, ast.Add):
        parts = []
        def flat(x):
            if isinstance(x, ast.BinOp) and isinstance(x.op, ast.Add):
                flat(x.left); flat(x.right)
            else:
                parts.append(x)
        flat(pos)
        last = parts[-1]
        if isinstance(last, ast.Constant) and last.value == 1:
            return 'one'
        if isinstance(last, ast.Call) and dotted(last.func) == 'len' and last.args and is_name(last.args[0], dlm):
            return 'width'
    return None


class _PatEval(object):
    """tiny evaluator for 'which compiled pattern is this name': constants, string concatenation, conditional expressions over known
    flags, re.compile / RegExp, module-level patterns, single-result helper functions, and names filled through a pure memo table"""

    def __init__(self, cx, port, regs):
        self.p = cx.port(port)
        self.regs = regs
        self.consts = _consts(cx, port)

    def value(self, e, fd, env, depth):
        if depth > 24:
            return None
        if isinstance(e, ast.Constant):
            return e.value
        if isinstance(e, ast.Name):
            if e.id in env:
                return env[e.id]
            defs = [n.value for n in walk_no_nested(fd) if isinstance(n, ast.Assign) and len(n.targets) == 1 and is_name(n.targets[0], e.id)]
            # look-ups in a table are transparent when the table is a pure memo (the miss branch defines the value)
            real = [v for v in defs if not self._table_lookup(v, fd)]
            if real:
                vals = {self._freeze(self.value(v, fd, env, depth + 1)) for v in real}
                return vals.pop() if len(vals) == 1 else None
            if e.id in self.regs:
                return ('rgx', self.regs[e.id][0])
            if e.id in self.consts:
                return self.consts[e.id]
            return None
        if isinstance(e, ast.IfExp):
            t = self.value(e.test, fd, env, depth + 1)
            if isinstance(t, bool):
                return self.value(e.body if t else e.orelse, fd, env, depth + 1)
            return None
        if isinstance(e, ast.BinOp) and isinstance(e.op, ast.Add):
            a, b = self.value(e.left, fd, env, depth + 1), self.value(e.right, fd, env, depth + 1)
            return a + b if isinstance(a, str) and isinstance(b, str) else None
        if isinstance(e, ast.Call):
            d = dotted(e.func) or ''
            if d in ('re.compile', 'RegExp') and e.args:
                v = self.value(e.args[0], fd, env, depth + 1)
                return ('rgx', v) if isinstance(v, str) else None
            g = self.p.func('csv_utils', d, required=False) if d and '.' not in d else None
            if g is not None:
                params = [a.arg for a in g.args.args]
                genv = {}
                for prm, a in zip(params, e.args):
                    v = self.value(a, fd, env, depth + 1)
                    if v is not None:
                        genv[prm] = v
                rets = [r.value for r in walk_no_nested(g) if isinstance(r, ast.Return) and r.value is not None]
                vals = {self._freeze(self.value(r, g, genv, depth + 1)) for r in rets}
                return vals.pop() if len(vals) == 1 else None
        return None

    @staticmethod
    def _freeze(v):
        return v

    def _table_lookup(self, v, fd):
        from ..idioms import pure_memo_store
        tbl = None
        if isinstance(v, ast.Call) and isinstance(v.func, ast.Attribute) and v.func.attr == 'get' and isinstance(v.func.value, ast.Name):
            tbl = v.func.value.id
        elif isinstance(v, ast.Subscript) and isinstance(v.value, ast.Name):
            tbl = v.value.id
        if tbl is None:
            return False
        stores = [n for n in walk_no_nested(fd) if isinstance(n, ast.Assign) and isinstance(n.targets[0], ast.Subscript) and is_name(n.targets[0].value, tbl)]
        return bool(stores) and all(pure_memo_store(fd, st, tbl, self.consts) for st in stores)


def rule_cs_extws(cx, rep, port):
    """external spaces around a quoted field are allowed iff the delimiter is not a space; trailing delimiter -> final empty field;
    fast path only when the line has no quote"""
    p = cx.port(port)
    fd = p.func('csv_utils', 'split_quoted_str')
    params = [a.arg for a in fd.args.args]
    src, dlm = params[0], params[1]
    defs = [n for n in walk_no_nested(fd) if isinstance(n, ast.Assign) and is_name(n.targets[0], 'allow_external_whitespaces')]
    if len(defs) != 1:
        rep.undecided('external whitespace switch', fd, 'definition of allow_external_whitespaces not found')
    else:
        v = defs[0].value
        ok = isinstance(v, ast.Compare) and isinstance(v.ops[0], ast.NotEq) and is_name(v.left, dlm) and isinstance(v.comparators[0], ast.Constant) and v.comparators[0].value == ' '
        rep.decide(ok, 'external whitespace switch', defs[0], 'allowed iff delimiter != space', 'surrounding spaces are allowed by `{}` (must be: iff the delimiter is not a space)'.format(node_text(v)))
    # the switch selects the regex in extract_next_field
    ef = p.func('csv_utils', 'extract_next_field')
    sel = [n for n in walk_no_nested(ef) if isinstance(n, ast.IfExp) and is_name(n.test, ef.args.args[3].arg)]
    regs = _module_regexes(cx, port)
    mcall = [c for c in walk_no_nested(ef) if isinstance(c, ast.Call) and isinstance(c.func, ast.Attribute) and c.func.attr in ('match', 'exec') and isinstance(c.func.value, ast.Name)]
    pats = None
    if len(mcall) == 1:
        # the pattern object applied to the line, evaluated once with the switch on and once with it off (helpers and pure memo tables are followed)
        sw = ef.args.args[3].arg
        ev = _PatEval(cx, port, regs)
        pats = (ev.value(mcall[0].func.value, ef, {sw: True}, 0), ev.value(mcall[0].func.value, ef, {sw: False}, 0))
    if pats is not None and all(isinstance(x, tuple) and x[0] == 'rgx' for x in pats):
        la, lb = _lang(pats[0][1], port), _lang(pats[1][1], port)
        ok_sel = R.accepts(la, ' "a" ') and not R.accepts(lb, ' "a" ') and R.accepts(lb, '"a"')
        rep.decide(ok_sel, 'regex selection', mcall[0], 'external-whitespace regex iff allowed (patterns `{}` / `{}`)'.format(pats[0][1], pats[1][1]), 'the field regex used when surrounding spaces are allowed is `{}`, otherwise `{}`: the wrong way round or not distinguishing the two cases'.format(pats[0][1], pats[1][1]))
    elif len(sel) == 1 and isinstance(sel[0].body, ast.Name) and isinstance(sel[0].orelse, ast.Name) and sel[0].body.id in regs and sel[0].orelse.id in regs:
        # the arms are judged by their languages: the allowed arm accepts a quoted field with spaces around it, the other does not
        la, lb = _lang(regs[sel[0].body.id][0], port), _lang(regs[sel[0].orelse.id][0], port)
        ok_sel = R.accepts(la, ' "a" ') and not R.accepts(lb, ' "a" ') and R.accepts(lb, '"a"')
        rep.decide(ok_sel, 'regex selection', sel[0], 'external-whitespace regex iff allowed', 'the regex variants are selected the wrong way round: surrounding spaces are accepted exactly when they are not allowed')
    else:
        rep.undecided('regex selection', sel[0] if sel else ef, 'how the external-whitespace switch selects the field regex was not recognised')
    # fast path
    fast = None
    for st in fd.body:
        if isinstance(st, ast.If):
            tests = [t for t in _find_tests_expr(st.test)]
            if tests and tests[0][0] == '"' and not tests[0][1]:
                fast = st
    if fast is None:
        rep.holds('fast path', fd, 'no fast path')
    else:
        r = fast.body[0]
        ok = isinstance(r, ast.Return) and isinstance(r.value, (ast.Tuple, ast.List)) and is_false(r.value.elts[1]) and isinstance(r.value.elts[0], ast.Call) and r.value.elts[0].func.attr == 'split' and is_name(r.value.elts[0].args[0], dlm)
        rep.decide(ok, 'fast path', fast, 'plain split, no warning, only when the line contains no double quote', 'fast path does not return (src.split(dlm), False)')
    # trailing delimiter
    trailing = [st for st in fd.body if isinstance(st, ast.If) and _delim_follow_or_last(st.test, src, dlm)]
    if not trailing:
        rep.violated('trailing delimiter', fd, 'a line ending in the delimiter does not yield a final empty field')
    else:
        st = trailing[-1]
        app = [c for c in walk_no_nested(st) if isinstance(c, ast.Call) and isinstance(c.func, ast.Attribute) and c.func.attr in ('append', 'push') and c.args and isinstance(c.args[0], ast.Constant) and c.args[0].value == '']
        rep.decide(bool(app), 'trailing delimiter', st, 'a trailing delimiter appends a final empty field', 'the trailing-delimiter arm does not append an empty field')
    # main loop: while cidx < len(src)
    from ..snippet import inline_single_defs
    loops = [n for n in walk_no_nested(fd) if isinstance(n, ast.While)]
    ok_loop = False
    if len(loops) == 1:
        t = inline_single_defs(loops[0].test, fd)
        ok_loop = isinstance(t, ast.Compare) and len(t.ops) == 1 and isinstance(t.ops[0], ast.Lt) and isinstance(t.left, ast.Name) and isinstance(t.comparators[0], ast.Call) and dotted(t.comparators[0].func) == 'len' and is_name(t.comparators[0].args[0], src)
    cmp_shape = len(loops) == 1 and isinstance(t, ast.Compare) and len(t.ops) == 1 and isinstance(t.left, ast.Name) and src in names_in(t.comparators[0])
    if ok_loop or cmp_shape:
        rep.decide(ok_loop, 'scan loop', loops[0], 'fields are extracted while position < len(line)', 'the scan loop runs while `{}` instead of position < len(line)'.format(node_text(t, 60)))
    else:
        rep.undecided('scan loop', loops[0] if loops else fd, 'the loop that extracts field after field was not recognised ({} while loops in the splitter)'.format(len(loops)))
    # the line warning only ever grows: `w = w or x`, or `w = True` under a condition; a plain overwrite loses earlier fields' warnings
    rets = [r for r in walk_no_nested(fd) if isinstance(r, ast.Return) and isinstance(r.value, (ast.Tuple, ast.List)) and len(r.value.elts) == 2 and isinstance(r.value.elts[1], ast.Name)]
    if not rets or not loops:
        rep.undecided('warning accumulation', fd, 'returned warning variable not recognised')
    else:
        w = rets[-1].value.elts[1].id
        sets = [n for n in walk_no_nested(loops[0]) if isinstance(n, (ast.Assign, ast.AugAssign)) and any(w in [x.id for x in ast.walk(t_) if isinstance(x, ast.Name)] for t_ in (n.targets if isinstance(n, ast.Assign) else [n.target]))]
        mono, over = [], []
        for n in sets:
            if isinstance(n, ast.AugAssign) and isinstance(n.op, ast.BitOr):
                mono.append(n)
            elif isinstance(n, ast.Assign) and is_name(n.targets[0], w) and ((isinstance(n.value, ast.BoolOp) and isinstance(n.value.op, ast.Or) and any(is_name(v, w) for v in n.value.values)) or is_true(n.value)):
                mono.append(n)
            elif isinstance(n, ast.Assign) and isinstance(n.targets[0], (ast.Tuple, ast.List)):
                over.append(n)     # `pos, warning = extract(...)`: the previous value is lost
            elif isinstance(n, ast.Assign) and is_name(n.targets[0], w):
                over.append(n)
        if over:
            rep.violated('warning accumulation', over[0], 'the per-line warning is overwritten instead of OR-ed: only the last field counts')
        elif mono:
            rep.holds('warning accumulation', mono[0], 'line warning = OR of field warnings')
        else:
            rep.violated('warning accumulation', loops[0], 'field warnings never reach the line warning')


def _find_tests_expr(e):
    out = []
    for n in ast.walk(e):
        if isinstance(n, ast.Compare) and len(n.ops) == 1 and isinstance(n.left, ast.Call) and isinstance(n.left.func, ast.Attribute) and n.left.func.attr in ('find', 'indexOf') and _is_minus_one(n.comparators[0]):
            arg = n.left.args[0] if n.left.args else None
            val = arg.value if isinstance(arg, ast.Constant) else None
            out.append((val, isinstance(n.ops[0], ast.NotEq)))
    return out


def _delim_follow_or_last(e, src, dlm):
    if _delim_follow_test(e, src, dlm):
        return True
    return False


POLICIES = ['simple', 'quoted', 'quoted_rfc', 'whitespace', 'monocolumn']


def rule_cs_dispatch(cx, rep, port):
    """reader (smart_split) and writer dispatch tables are total over the five policies and pair each policy with matching split/join"""
    p = cx.port(port)
    fd = p.func('csv_utils', 'smart_split')
    modelled = _smart_split_model(cx, port, p, fd)
    if modelled is not None:
        wrong_, warn_ = modelled
        rep.decide(not wrong_, 'reader dispatch', fd, 'simple=split, whitespace=runs, monocolumn=identity, quoted/quoted_rfc=quoted splitter (smart_split evaluated for each policy name on an abstract line)', 'policy -> splitter table has {}'.format(wrong_))
        rep.decide(not warn_, 'reader dispatch warnings', fd, 'non-quoted policies never warn', 'a non-quoted policy returns a warning flag ({})'.format(', '.join(warn_)))
    else:
        with rep.as_fallback('smart_split is outside the abstract interpreter'):
            _reader_dispatch_shape(cx, rep, port, p, fd)
    _writer_dispatch(cx, rep, port, p)


def _smart_split_model(cx, port, p, fd):
    """smart_split(src, dlm, policy, flag) evaluated for each of the five policy names with an abstract line, delimiter and flag:
    ({policy: what is wrong}, [policies that can warn]) or None when the function is outside the abstract interpreter"""
    from .. import absexec as AX
    if len(fd.args.args) != 4:
        return None
    want = {'simple': 'plain-split', 'whitespace': 'whitespace-runs', 'monocolumn': 'identity', 'quoted': 'quoted', 'quoted_rfc': 'quoted'}
    wrong, warn = {}, []
    for pol in POLICIES:
        src, dlm, flag = AX.Abs('Env', name='the line is not empty'), AX.Abs('Dlm', truth=True), AX.Abs('Flag')

        def on_call(ex, node, fname, recv, args):
            short = node.func.attr if isinstance(node.func, ast.Attribute) else fname
            if short == 'split_quoted_str' and not isinstance(node.func, ast.Attribute) or fname.endswith('.split_quoted_str'):
                return AX.Abs('quoted', ok=(len(args) == 3 and args[0] is src and args[1] is dlm and args[2] is flag))
            if short == 'split_whitespace_separated_str':
                return AX.Abs('whitespace-runs', ok=(len(args) == 2 and args[0] is src and args[1] is flag))
            if short == 'split' and recv is src:
                return AX.Abs('plain-split', ok=(len(args) == 1 and args[0] is dlm))
            if recv is src and short in ('find', 'indexOf', 'includes') and len(args) == 1 and (args[0] is dlm or args[0] == '"'):
                # does the line contain the delimiter / a double quote?  either (remembered for the run)
                what = 'dlm' if args[0] is dlm else 'quote'
                key = ('contains', what)
                if key not in ex.run.state:
                    ex.run.state[key] = ex.choose('line contains ' + what, [False, True])
                has = ex.run.state[key]
                return has if short == 'includes' else (0 if has else -1)
            return AX.NOT_HANDLED
        ex = AX.Explorer(p, 'csv_utils', on_call=on_call, max_choices=3)
        try:
            runs, cut = ex.explore(fd, [src, dlm, pol, flag])
        except (Undecided, KeyError, IndexError, TypeError, AttributeError) as e_:
            import os
            if os.environ.get('RBQL_VERIF_DEBUG'):
                print('smart_split model gave up:', type(e_).__name__, e_)
            return None
        if cut or not runs or any(r.outcome[0] != 'return' for r in runs):
            return None
        for r in runs:
            v = r.outcome[1]
            facts = {k[1]: val for k, val in r.state.items() if isinstance(k, tuple) and len(k) == 2 and k[0] == 'contains'}
            empty = r.state.get(('truth', 'the line is not empty')) is False
            if empty:
                facts = {'dlm': False, 'quote': False}
            if isinstance(v, AX.Abs) and v.kind == 'quoted':
                got, flagv, ok = 'quoted', None, v.props.get('ok')
            elif isinstance(v, (list, tuple)) and len(v) == 2:
                f0, flagv = v
                if isinstance(f0, AX.Abs) and f0.kind in ('plain-split', 'whitespace-runs', 'quoted'):
                    got, ok = f0.kind, f0.props.get('ok')
                elif isinstance(f0, list) and len(f0) == 1 and f0[0] is src:
                    got, ok = 'identity', True
                else:
                    return None
            else:
                return None
            # a shortcut that is the same function on the lines it applies to: a line without the delimiter splits into itself
            # (plain split; the quoted splitter when the line has no quote either)
            same = got == want[pol] or (got == 'identity' and facts.get('dlm') is False and (pol == 'simple' or (pol in ('quoted', 'quoted_rfc') and facts.get('quote') is False))) \
                or (got == 'plain-split' and ok and pol in ('quoted', 'quoted_rfc') and facts.get('quote') is False)
            when = ' for an empty line' if empty else ' for a line {}'.format(' and '.join('{} {}'.format('with' if val else 'without', 'the delimiter' if k == 'dlm' else 'a double quote') for k, val in sorted(facts.items()))) if facts else ''
            if not same:
                wrong[pol] = got + when
            elif not ok:
                wrong[pol] = got + ' with other arguments than (line, delimiter, flag)'
            if pol in ('simple', 'whitespace', 'monocolumn') and same and flagv is not False:
                warn.append(pol)
    return wrong, warn


def _reader_dispatch_shape(cx, rep, port, p, fd):
    from .. import pathsem
    pol_param = fd.args.args[2].arg
    table = {}
    ps = pathsem.paths(fd)
    if ps is None:
        rep.undecided('reader dispatch', fd, 'smart_split is not summarisable as paths')
        ps = []
    # one row per policy name: the outcome of the path(s) that can be taken when the policy has that name
    for name in POLICIES:
        def leaf(e, name=name):
            if isinstance(e, ast.Compare) and len(e.ops) == 1 and is_name(e.left, pol_param) and isinstance(e.comparators[0], ast.Constant) and isinstance(e.comparators[0].value, str):
                if isinstance(e.ops[0], (ast.Eq, ast.Is)):
                    return e.comparators[0].value == name
                if isinstance(e.ops[0], (ast.NotEq, ast.IsNot)):
                    return e.comparators[0].value != name
            if isinstance(e, ast.Compare) and len(e.ops) == 1 and isinstance(e.ops[0], (ast.In, ast.NotIn)) and is_name(e.left, pol_param) and isinstance(e.comparators[0], (ast.Tuple, ast.List, ast.Set)) and all(isinstance(x, ast.Constant) for x in e.comparators[0].elts):
                return (name in [x.value for x in e.comparators[0].elts]) == isinstance(e.ops[0], ast.In)
            return None
        outs = [q for q in ps if pathsem.consistent(q, leaf)]
        vals = {ast.dump(q.value) if (q.kind == 'return' and q.value is not None) else '<{}>'.format(q.kind) for q in outs}
        if len(vals) != 1 or not outs or outs[0].kind != 'return' or outs[0].value is None:
            rep.undecided('reader dispatch', fd, 'policy {!r} does not select one outcome of smart_split ({} candidate path(s))'.format(name, len(outs)))
            continue
        table[name] = outs[0].value
    def desc(v):
        if v is None:
            return None
        txt = node_text(v)
        if 'split_whitespace_separated_str' in txt:
            return 'whitespace-runs'
        if 'split_quoted_str' in txt:
            return 'quoted'
        if isinstance(v, (ast.Tuple, ast.List)) and isinstance(v.elts[0], ast.List) and len(v.elts[0].elts) == 1:
            return 'identity'
        if isinstance(v, (ast.Tuple, ast.List)) and isinstance(v.elts[0], ast.Call) and getattr(v.elts[0].func, 'attr', '') == 'split':
            return 'plain-split'
        return txt
    got = {k: desc(v) for k, v in table.items()}
    want = {'simple': 'plain-split', 'whitespace': 'whitespace-runs', 'monocolumn': 'identity', 'quoted': 'quoted', 'quoted_rfc': 'quoted'}
    wrong = {k: v for k, v in got.items() if want.get(k) != v}
    if got == want:
        rep.holds('reader dispatch', fd, 'simple=split, whitespace=runs, monocolumn=identity, quoted/quoted_rfc=quoted splitter')
    elif wrong:
        rep.violated('reader dispatch', fd, 'policy -> splitter table has {} (must be {})'.format(wrong, {k: want[k] for k in wrong}))
    # warnings of the non-quoted policies are constant False
    nonq = [table[k] for k in ('simple', 'whitespace', 'monocolumn') if k in table]
    rep.decide(all(isinstance(v, (ast.Tuple, ast.List)) and len(v.elts) == 2 and is_false(v.elts[1]) for v in nonq), 'reader dispatch warnings', fd, 'non-quoted policies never warn', 'a non-quoted policy returns a warning flag')


def _writer_dispatch(cx, rep, port, p):
    w = p.cls('rbql_csv', 'CSVWriter')
    wm = _csv_writer_model(cx, port)
    if wm is None:
        rep._fallback = 'the CSV writer is outside the abstract interpreter'
    if wm is not None:
        rep.decide(wm == '', 'writer dispatch', w, 'total over the five policies; quoted->quote_field, quoted_rfc->rfc_quote_field, monocolumn->single field (writer constructed for each policy and evaluated on 6 records)', wm)
        return
    init = [m for m in w.body if isinstance(m, ast.FunctionDef) and m.name == '__init__'][0]
    seen = {}
    for n in ast.walk(init):
        if isinstance(n, ast.If):
            for pol in _policies_in_test(n.test):
                tgt = []
                for st in n.body:
                    if isinstance(st, ast.Assign) and isinstance(st.targets[0], ast.Attribute) and st.targets[0].attr.startswith('polymorphic'):
                        tgt.append((st.targets[0].attr, dotted(st.value) or node_text(st.value)))
                seen[pol] = tgt
    missing = [x for x in POLICIES if x not in seen]
    if missing:
        # table-driven dispatch: a table (tuple/list of entries, or dict) that pairs each policy name with method names / references
        tables = []
        scope_nodes = list(ast.walk(w)) + [x for st in p.modules['rbql_csv'].body if isinstance(st, ast.Assign) for x in ast.walk(st)]
        for n in scope_nodes:
            entries = {}
            if isinstance(n, (ast.Tuple, ast.List)) and n.elts and all(isinstance(e_, (ast.Tuple, ast.List)) and e_.elts and isinstance(e_.elts[0], ast.Constant) for e_ in n.elts):
                for e_ in n.elts:
                    entries[e_.elts[0].value] = e_.elts[1:]
            elif isinstance(n, ast.Dict) and n.keys and all(isinstance(k_, ast.Constant) for k_ in n.keys):
                for k_, v_ in zip(n.keys, n.values):
                    entries[k_.value] = list(v_.elts) if isinstance(v_, (ast.Tuple, ast.List)) else [v_]
            if entries and set(POLICIES) <= set(entries):
                tables.append(entries)
        if tables:
            for pol in POLICIES:
                names = []
                for v_ in tables[0][pol]:
                    if isinstance(v_, ast.Constant) and isinstance(v_.value, str):
                        names.append(('polymorphic', v_.value))
                    elif dotted(v_):
                        names.append(('polymorphic', dotted(v_)))
                seen[pol] = seen.get(pol, []) + names
            missing = []
    if missing and not seen:
        rep.undecided('writer dispatch', init, 'how CSVWriter selects its join/preprocess methods by policy was not recognised')
        return
    if missing:
        rep.violated('writer dispatch', init, 'CSVWriter has no arm for polic{} {}'.format('y' if len(missing) == 1 else 'ies', missing))
        return
    want_w = {'quoted': 'quote_fields' if port == 'py' else 'quoted_join', 'quoted_rfc': 'quote_fields_rfc' if port == 'py' else 'quoted_join_rfc', 'monocolumn': 'monocolumn_join' if port == 'py' else 'mono_join'}
    probs = []
    for pol, meth in want_w.items():
        names = [t[1].split('.')[-1] for t in seen[pol]]
        if meth not in names:
            probs.append('{} -> {}'.format(pol, names))
    # the quoting helpers call the matching csv_utils function
    for meth, util in ((want_w['quoted'], 'quote_field'), (want_w['quoted_rfc'], 'rfc_quote_field')):
        m = [x for x in w.body if isinstance(x, ast.FunctionDef) and x.name == meth]
        if not m:
            probs.append('method {} missing'.format(meth))
            continue
        used = {(call_name(c) or '').split('.')[-1] for c in ast.walk(m[0]) if isinstance(c, ast.Call)}
        if util not in used:
            probs.append('{} does not call {}'.format(meth, util))
        if (util == 'quote_field' and 'rfc_quote_field' in used) or (util == 'rfc_quote_field' and 'quote_field' in used):
            probs.append('{} calls the other quoting function'.format(meth))
    rep.decide(not probs, 'writer dispatch', init, 'total over the five policies; quoted->quote_field, quoted_rfc->rfc_quote_field, monocolumn->single field', 'writer dispatch mismatch: {}'.format('; '.join(probs)))


def _policies_in_test(t):
    out = []
    for n in ast.walk(t):
        if isinstance(n, ast.Compare) and isinstance(n.ops[0], ast.Eq) and isinstance(n.comparators[0], ast.Constant) and n.comparators[0].value in POLICIES and (dotted(n.left) or '').endswith('policy'):
            out.append(n.comparators[0].value)
    return out


def _csv_writer_model_js(cx):
    """the JS CSV writer: the constructor is evaluated for each policy over an abstract stream, then normalize_fields and the join method it
    installed are applied to the records of the Python model: the line text per record, the monocolumn error, and the separator-in-field
    flag for fields that contain the delimiter.  '' / problem / None (write() itself wraps the stream in a Promise and is not evaluated)"""
    from .. import absexec as AX
    import copy
    p = cx.port('js')
    cls = p.cls('rbql_csv', 'CSVWriter')
    ms = {m.name: m for m in cls.body if isinstance(m, ast.FunctionDef)}
    init, nf = ms.get('__init__'), ms.get('normalize_fields')
    if init is None or nf is None or len(init.args.args) < 6:
        raise Undecided('CSVWriter constructor / normalize_fields', cls)

    def q(f, d, rfc):
        if '"' in f:
            return '"' + f.replace('"', '""') + '"'
        if d in f or (rfc and ('\n' in f or '\r' in f)):
            return '"' + f + '"'
        return f
    records = [['a', 'b c', ''], ['d,e', 'q"r'], [None, 5, ['x', 'y']], ['multi\nline', 'z'], ['solo'], ['sp ace'], ['x,y'], ['', ''], ['a', 'b'], ['k:=v', 'w']]
    out = ''
    for policy, delim in (('simple', ','), ('whitespace', ' '), ('quoted', ','), ('quoted_rfc', ','), ('monocolumn', ''), ('quoted', ':=')):
        selfv, stream = AX.Abs('Self'), AX.Abs('Stream')

        def on_call(ex, node, fname, recv, args):
            short = node.func.attr if isinstance(node.func, ast.Attribute) else fname
            if recv is stream and short in ('on', 'setDefaultEncoding', 'write'):
                return None
            if isinstance(node.func, ast.Name) and node.func.id.endswith('Error'):
                return AX.Abs('Exc', cls=node.func.id)
            if fname == 'Array.isArray' and len(args) == 1:
                return isinstance(args[0], list)
            return AX.NOT_HANDLED
        ex = AX.Explorer(p, 'rbql_csv', on_call=on_call, max_choices=1)
        ex.cls = 'CSVWriter'
        ex._script, ex._pos, ex.steps, ex.depth = [], 0, 0, 0
        ex.run = AX.Run()
        ex.call_fd(init, [selfv, stream, False, None, delim, policy])
        jm = ex.run.state.get((selfv.uid, 'polymorphic_join'))
        if not (isinstance(jm, tuple) and len(jm) == 3 and jm[0] == 'method'):
            raise Undecided('the constructor does not install a join method for policy {}'.format(policy), init)
        jfd = ex.find_method('CSVWriter', jm[2])
        if jfd is None:
            raise Undecided('join method {} not found'.format(jm[2]), cls)
        for rec in records:
            fields = copy.deepcopy(rec)
            norm = ['' if f is None else ('|'.join(f) if isinstance(f, list) else str(f)) for f in rec]
            if policy in ('simple', 'whitespace'):
                ex.run.state[(selfv.uid, 'delim_in_simple_output')] = False
            ex.steps, ex.depth = 0, 0
            ex.call_fd(nf, [selfv, fields])
            what = 'policy {} (delimiter {!r}), record {!r}'.format(policy, delim, rec)
            try:
                got = ex.call_fd(jfd, [selfv, fields])
                raised = False
            except AX.Raised as r_:
                got, raised = r_.value, True
            if policy == 'monocolumn' and len(rec) > 1:
                if not (raised and isinstance(got, AX.Abs) and got.props.get('cls') == 'RbqlIOHandlingError') and not out:
                    out = '{}: a record of several fields is not rejected with the IO handling error'.format(what)
                continue
            want = norm[0] if policy == 'monocolumn' else (delim.join(norm) if policy in ('simple', 'whitespace') else delim.join(q(f, delim, policy == 'quoted_rfc') for f in norm))
            if (raised or got != want) and not out:
                out = '{}: the line is {!r} instead of {!r}'.format(what, 'an error' if raised else got, want)
            if policy in ('simple', 'whitespace') and any(delim in f for f in norm):
                if not ex.run.state.get((selfv.uid, 'delim_in_simple_output'), False) and not out:
                    out = '{}: a field contains the delimiter but delim_in_simple_output stays false: the "fields contain separator" warning is lost'.format(what)
    return out


def _csv_writer_model(cx, port):
    """the Python CSV writer, constructed for each of the five policies over an abstract stream, evaluated on six records (plain, with the
    delimiter, with a quote, with a line break, with a missing value / a number / a nested list, a single field): what reaches the
    stream per record is exactly the dialect's line plus one line separator, write() returns True, and the separator-in-field flag is
    set exactly when a simple / whitespace line is ambiguous.  '' / problem / None (outside the abstract interpreter); Python only"""
    memo = '_csv_writer_model_' + port
    if hasattr(cx, memo):
        return getattr(cx, memo)
    from .. import absexec as AX
    res = None
    try:
        if port != 'py':
            res = _csv_writer_model_js(cx)
            setattr(cx, memo, res)
            return res
        p = cx.port(port)
        cls = p.cls('rbql_csv', 'CSVWriter')
        ms = {m.name: m for m in cls.body if isinstance(m, ast.FunctionDef)}
        init, wr = ms['__init__'], ms['write']
        if len(init.args.args) < 6:
            raise Undecided('constructor signature', init)

        def q(f, d, rfc):
            if '"' in f:
                return '"' + f.replace('"', '""') + '"'
            if d in f or (rfc and ('\n' in f or '\r' in f)):
                return '"' + f + '"'
            return f
        records = [['a', 'b c', ''], ['d,e', 'q"r'], [None, 5, ['x', 'y']], ['multi\nline', 'z'], ['solo'], ['sp ace'], ['x,y'], ['', ''], ['a', 'b'], ['key:', '=value'], ['k:=v', 'w']]
        out = ''
        for policy, delim in (('simple', ','), ('whitespace', ' '), ('quoted', ','), ('quoted_rfc', ','), ('monocolumn', ''), ('simple', ':='), ('quoted', ':=')):
            selfv, stream = AX.Abs('Self'), AX.Abs('Stream')
            written = []

            def on_call(ex, node, fname, recv, args):
                short = node.func.attr if isinstance(node.func, ast.Attribute) else fname
                if recv is stream and short == 'write' and len(args) == 1:
                    written.append(args[0])
                    return None
                if isinstance(node.func, ast.Name) and node.func.id.endswith('Error'):
                    return AX.Abs('Exc', cls=node.func.id)
                if fname.endswith('RbqlIOHandlingError'):
                    return AX.Abs('Exc', cls='RbqlIOHandlingError')
                return AX.NOT_HANDLED

            def on_name(ex, node, name):
                if name == 'PY3':
                    return True
                if name in ('basestring', 'unicode'):
                    return ('builtin', 'str')
                if name == 'polymorphic_xrange':
                    return ('builtin', 'range')
                return AX.NOT_HANDLED
            ex = AX.Explorer(p, 'rbql_csv', on_call=on_call, on_name=on_name, max_choices=1)
            ex.cls = 'CSVWriter'
            ex._script, ex._pos, ex.steps, ex.depth = [], 0, 0, 0
            ex.run = AX.Run()
            ex.call_fd(init, [selfv, stream, False, None, delim, policy])
            for rec in records:
                import copy
                if policy in ('simple', 'whitespace'):
                    ex.run.state[(selfv.uid, 'delim_in_simple_output')] = False       # the flag is judged record by record
                fields = copy.deepcopy(rec)
                norm = ['' if f is None else ('|'.join(f) if isinstance(f, list) else str(f)) for f in rec]
                if policy == 'monocolumn' and not rec:
                    continue
                if policy == 'monocolumn' and len(rec) > 1:
                    want, want_err = None, True
                else:
                    want_err = False
                    want = norm[0] if policy == 'monocolumn' else (delim.join(norm) if policy in ('simple', 'whitespace') else delim.join(q(f, delim, policy == 'quoted_rfc') for f in norm))
                before = len(written)
                ex.steps, ex.depth = 0, 0
                try:
                    got = ex.call_fd(wr, [selfv, fields])
                    raised = False
                except AX.Raised as r_:
                    got, raised = r_.value, True
                what = 'policy {} (delimiter {!r}), record {!r}'.format(policy, delim, rec)
                if want_err:
                    if not (raised and isinstance(got, AX.Abs) and got.props.get('cls') == 'RbqlIOHandlingError') and not out:
                        out = '{}: a record of several fields is not rejected with the IO handling error'.format(what)
                    continue
                if raised:
                    out = out or '{}: write() raises'.format(what)
                    continue
                text = ''.join(x for x in written[before:] if isinstance(x, str)) if all(isinstance(x, str) for x in written[before:]) else None
                if text != want + '\n' and not out:
                    out = '{}: the text handed to the stream is {!r} instead of {!r}'.format(what, text, want + '\n')
                if got is not True and not out:
                    out = '{}: write() returns {!r} instead of True'.format(what, got)
                if policy in ('simple', 'whitespace'):
                    flag = ex.run.state.get((selfv.uid, 'delim_in_simple_output'), False)
                    ambiguous = any(delim in f for f in norm)
                    if bool(flag) != ambiguous and not out:
                        out = '{}: {} but delim_in_simple_output is {!r} after it: the "fields contain separator" warning is {}'.format(what, 'a field contains the delimiter' if ambiguous else 'no field contains the delimiter', flag, 'lost' if ambiguous else 'spurious')
        res = out
    except (Undecided, AX.Cut, AX._NeedChoice, AX.Raised, KeyError, IndexError, TypeError, AttributeError, ValueError) as e_:
        import os
        if os.environ.get('RBQL_VERIF_DEBUG'):
            print('CSV writer model gave up:', type(e_).__name__, str(e_)[:200])
        res = None
    setattr(cx, memo, res)
    return res


def rule_cs_writer(cx, rep, port):
    """writer: one line separator per record after the joined fields; delimiter join; lossy-output detection sites"""
    p = cx.port(port)
    w = p.cls('rbql_csv', 'CSVWriter')
    ms = {m.name: m for m in w.body if isinstance(m, ast.FunctionDef)}
    wr = ms['write']
    wm = _csv_writer_model(cx, port)
    if wm is not None and port == 'py':
        for k_ in ('line separator', 'record line', 'delimiter join', 'separator check coverage'):
            rep.decide(wm == '', k_, wr, 'per record the stream receives the dialect\'s line and one line separator; the separator-in-field flag follows the written fields (writer constructed for 5 policies, 6 records each)', wm)
        return
    rep._fallback = 'the CSV writer is outside the abstract interpreter' if port == 'py' else None
    writes = [c for c in walk_no_nested(wr) if isinstance(c, ast.Call) and (call_name(c) or '') == 'self.stream.write']
    seps = [c for c in writes if c.args and dotted(c.args[0]) == 'self.line_separator']
    # (a private helper that write() calls unconditionally belongs to it)
    if not writes:
        for c_ in walk_no_nested(wr):
            if isinstance(c_, ast.Call) and (call_name(c_) or '').startswith('self.') and call_name(c_)[5:] in ms and call_name(c_)[5:].startswith('_'):
                writes += [c for c in walk_no_nested(ms[call_name(c_)[5:]]) if isinstance(c, ast.Call) and (call_name(c) or '') == 'self.stream.write']
    seps = [c for c in writes if c.args and dotted(c.args[0]) == 'self.line_separator']
    lines = [c for c in writes if c.args and dotted(c.args[0]) != 'self.line_separator' and not (isinstance(c.args[0], ast.Name) and 'color' in c.args[0].id)]
    if not seps or not lines:
        rep.undecided('line separator', wr, 'how write() hands the record line and the line separator to the stream was not recognised ({} direct stream writes)'.format(len(writes)))
    else:
        rep.decide(len(seps) == 1, 'line separator', seps[0], 'exactly one line separator is written per record', '{} line separators are written per record'.format(len(seps)))
        rep.decide(len(lines) == 1 and lines[0].pos < seps[0].pos, 'record line', lines[0], 'the joined record is written before its separator', 'the record line is not written exactly once before the separator')
    # join by delimiter
    jname = 'join_by_delim' if port == 'py' else 'simple_join'
    j = ms.get(jname)
    if wm is not None and port == 'js':
        rep.decide(wm == '', 'delimiter join', w, 'the join method installed for each policy produces the dialect\'s line (constructor, normalize_fields and join evaluated for 6 policy / delimiter pairs on 10 records)', wm)
    elif j is None:
        rep.undecided('delimiter join', w, 'method {} not found'.format(jname))
    else:
        joins = [c for c in walk_no_nested(j) if isinstance(c, ast.Call) and isinstance(c.func, ast.Attribute) and c.func.attr == 'join']
        ok = any((dotted(c.func.value) == 'self.delim') or (c.args and dotted(c.args[0]) == 'self.delim') for c in joins)
        rep.decide(ok, 'delimiter join', j, 'fields are joined with the delimiter', 'fields are not joined with self.delim')
    if port == 'py':
        # lossy-output detection cannot be bypassed: on every path that writes a record line while the after-join check is switched
        # on, the check ran - in write() itself or inside the join method that produced the line (path summaries of write())
        from .. import pathsem
        ps = pathsem.paths(wr)
        chk = 'check_separator_in_fields_after_join'
        join_has_check = {m_.name for m_ in ms.values() if any(isinstance(c, ast.Call) and (call_name(c) or '').endswith(chk) for c in walk_no_nested(m_)) and m_.name != 'write'}
        if ps is None:
            rep.undecided('separator check coverage', wr, 'write() is not summarisable as paths')
        else:
            bad = None
            n_paths = 0
            for q in ps:
                exprs = list(q.calls) + list(q.env.values()) + [v_ for _, v_ in q.stores] + ([q.value] if q.value is not None else [])
                calls_ = [c for e_ in exprs for c in ast.walk(e_) if isinstance(c, ast.Call)]
                if not any((call_name(c) or '') == 'self.stream.write' for c in calls_):
                    continue
                n_paths += 1
                flag_off = any((not pol) and dotted(t_) == 'self.check_separators_after_join' for t_, pol in q.conds)
                direct = any((call_name(c) or '').endswith(chk) for c in calls_)
                via_join = bool(join_has_check) and any((call_name(c) or '') == 'self.polymorphic_join' for c in calls_)
                if not (flag_off or direct or via_join):
                    bad = q
                    break
            if bad is not None:
                rep.violated('separator check coverage', bad.node if bad.node is not None else wr, 'a record line can reach the stream on a path where the "separator inside a field" check is switched on but never runs (conditions: {}): lossy simple/whitespace output stays silent for such records'.format(' and '.join(('' if pol else 'not ') + node_text(t_, 40) for t_, pol in bad.conds[-3:])))
            else:
                rep.decide(n_paths >= 1, 'separator check coverage', wr, 'every path that writes a record line ran the separator check when it is switched on', 'no writing path found')


def rule_cs_reader(cx, rep, port):
    """the CSV reader turns a line into a record with the dialect's one splitter, smart_split(line, delim, policy): the function
    whose dispatch table, regexes and accept test the other CS-* rules decide.  A reader that splits some other way is outside what
    those rules cover (UNDECIDED, not a violation)."""
    from ..snippet import inline_single_defs
    p = cx.port(port)
    cls = p.cls('rbql_csv', 'CSVRecordIterator')
    mname = 'get_record' if port == 'py' else 'process_record_line'
    ms = [m for m in cls.body if isinstance(m, ast.FunctionDef) and m.name == mname]
    if not ms:
        raise Undecided('anchor vanished: CSVRecordIterator.' + mname, cls)
    fd = ms[0]
    calls = [c for c in walk_no_nested(fd) if isinstance(c, ast.Call) and (dotted(c.func) or '').split('.')[-1] == 'smart_split']
    if len(calls) != 1:
        rep.undecided('reader splitter', fd, '{} does not split the line with exactly one smart_split() call ({} found): what produces the record is not the function the CS rules analyse'.format(mname, len(calls)))
        return
    c = calls[0]
    args = [node_text(inline_single_defs(a, fd, depth=2), 60) for a in c.args]
    ok = len(args) >= 3 and args[1] == 'self.delim' and args[2] == 'self.policy'
    rep.decide(ok, 'reader splitter', c, 'records = smart_split(line, self.delim, self.policy, ...)', 'smart_split is not called with the reader\'s own delimiter and policy (`{}`)'.format(', '.join(args)))
    pres = c.args[3] if len(c.args) > 3 else next((k.value for k in c.keywords if k.arg == 'preserve_quotes_and_whitespaces'), None)
    rep.decide(pres is not None and is_false(pres), 'reader unquotes', c, 'quotes and padding are removed from the fields (preserve = False)', 'the reader keeps quotes / surrounding whitespace in the fields')
